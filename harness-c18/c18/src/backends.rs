//! Library circuits `lib:backend:*`: table registration order, AIR order and key generation for
//! every recursion backend configuration of the repository that has more than one
//! non-primitive table.
//!
//! For each field configuration of `recursion/examples/recursive_aggregation.rs`
//!   kb5  KoalaBear quintic D=5 : poseidon2 d1_w16 + d1_w32 + recompose + recompose/coeff
//!                                (`FriRecursionBackend::new_d5(..).with_extra_poseidon2_table(..)`,
//!                                i.e. `poseidon2_air_builders_for_configs::<_, 5>`)
//!   kb4  KoalaBear D=4         : poseidon2 d4_w16 + d4_w32 + recompose
//!   bb4  BabyBear  D=4         : poseidon2 d4_w16 + d4_w32 + recompose
//!   gl2  Goldilocks D=2        : poseidon2 d2_w8  + d2_w16 + recompose
//! the tables are enabled by the backend's own `prepare_circuit`, the preprocessors and AIR
//! builders are the ones the backend's `non_primitive_preprocessors()` /
//! `non_primitive_air_builders()` return, and AIRs and keys are derived exactly as
//! `p3_recursion::build_next_layer_prep` does (`get_airs_and_degrees_with_prep` followed by
//! `ProverData::from_airs_and_degrees`). Variants: `mixed` (both Poseidon2 tables used,
//! challenger rows first or wide rows first) and `narrow` (the backend without the extra table:
//! default builders `poseidon2_air_builders{,_d5}`).
//!
//! plus `next-layer-verifier-circuit`: the circuit `p3_recursion::build_next_layer_circuit` builds
//! with the mixed backend for a batch proof made under the mixed configuration (challenger on
//! the narrow table, arity-4 Merkle paths on the wide table).
//!
//! The hand-made circuits are only compiled, never run: rows are fed by public inputs.

use p3_air::BaseAir;
use p3_batch_stark::ProverData;
use p3_circuit::ops::poseidon2_perm::Poseidon2PermCallBase;
use p3_circuit::ops::{Poseidon2Config, Poseidon2PermCall};
use p3_circuit::{CircuitBuilder, ExprId};
use p3_circuit_prover::batch_stark_prover::TablePacking;
use p3_circuit_prover::common::{CircuitTableAir, get_airs_and_degrees_with_prep};
use p3_circuit_prover::ConstraintProfile;
use p3_field::Field;
use p3_matrix::Matrix;
use p3_circuit_prover::{BatchStarkProver, CircuitProverData};
use p3_field::PrimeCharacteristicRing;
use p3_recursion::{BatchOnly, FriRecursionBackend, PcsRecursionBackend, RecursionOutput, build_next_layer_circuit};
use std::rc::Rc;

use super::{LibFn, circuit_components, glue, hx, prep_components};

#[derive(Clone, Copy, PartialEq, Eq)]
pub enum Variant {
    /// both Poseidon2 tables, challenger-table rows first
    MixedNarrowFirst,
    /// both Poseidon2 tables, wide-table rows first
    MixedWideFirst,
    /// backend without the extra table, challenger rows only
    Narrow,
    /// the real thing: `build_next_layer_circuit` over a (dummy D=1) batch proof made under the
    /// mixed configuration, i.e. challenger rows on the narrow table, arity-4 Merkle rows on
    /// the wide table, recompose rows
    Verifier,
    /// cross-table MMCS index: a plain permutation row of the WIDE table exposes an output
    /// that a Merkle-path row of the NARROW table takes as `mmcs_index_sum` (conditional read
    /// counted by the prover-side Poseidon2 preprocessor into the other table's `out_ctl`)
    CrossWideCreates,
    /// the other direction: NARROW row creates, Merkle-path row of the WIDE (arity-4) table reads
    CrossNarrowCreates,
    /// minimal two-table program: one plain permutation row in each Poseidon2 table, nothing
    /// else (used with the backend that has NO extra table, i.e. the generic
    /// `poseidon2_air_builders{,_d5}()`, see `library()`)
    OneRowEach,
}

/// Creator row in table `creator`, then a two-row Merkle chain in table `reader` whose last row
/// exposes `mmcs_index_sum` = first exposed output of the creator row, then a row starting a new
/// chain in `reader` (keeps the conditional read of the chain's last row live whatever the
/// padding is).
fn cross_rows<T: Field>(b: &mut CircuitBuilder<T>, creator: Poseidon2Config, reader: Poseidon2Config, acc: &mut Vec<ExprId>) -> Result<(), String> {
    let (a0, a1) = perm_row(b, creator, true)?;
    let s = b.add(a0, a1);
    acc.push(s);
    let bit0 = b.alloc_const(T::ZERO, "mmcs_bit0");
    let bit1 = b.alloc_const(T::ONE, "mmcs_bit1");
    let arity4 = reader.is_arity4_shape();
    let inputs: Vec<_> = (0..reader.width_ext()).map(|_| Some(b.public_input())).collect();
    b.add_poseidon2_perm(&Poseidon2PermCall {
        config: reader,
        new_start: true,
        merkle_path: true,
        mmcs_bit: Some(bit0),
        mmcs_bit2: arity4.then_some(bit1),
        inputs,
        out_ctl: vec![false; reader.rate_ext()],
        return_all_outputs: false,
        mmcs_index_sum: None,
    })
    .map_err(|e| format!("merkle row0 {reader:?}: {e:?}"))?;
    let mut out_ctl = vec![false; reader.rate_ext()];
    out_ctl[0] = true;
    out_ctl[1] = true;
    let (_, outs) = b
        .add_poseidon2_perm(&Poseidon2PermCall {
            config: reader,
            new_start: false,
            merkle_path: true,
            mmcs_bit: Some(bit1),
            mmcs_bit2: arity4.then_some(bit0),
            inputs: vec![None; reader.width_ext()],
            out_ctl,
            return_all_outputs: false,
            mmcs_index_sum: Some(a0),
        })
        .map_err(|e| format!("merkle row1 {reader:?}: {e:?}"))?;
    let s = b.add(outs[0].ok_or("no out0")?, outs[1].ok_or("no out1")?);
    acc.push(s);
    let (c0, c1) = perm_row(b, reader, true)?;
    let s = b.add(c0, c1);
    acc.push(s);
    Ok(())
}

/// One permutation row of table `cfg` fed by fresh public inputs; returns two exposed outputs.
fn perm_row<T: Field>(b: &mut CircuitBuilder<T>, cfg: Poseidon2Config, new_start: bool) -> Result<(ExprId, ExprId), String> {
    if cfg.d() == 1 && cfg.width() == 16 {
        // sponge-style base-field row: 8 rate inputs, capacity slots empty
        let inputs: [_; 16] = core::array::from_fn(|i| (i < 8).then(|| b.public_input()));
        let mut out_ctl = [false; 8];
        out_ctl[0] = true;
        out_ctl[1] = true;
        let (_, outs) = b
            .add_poseidon2_perm_base(&Poseidon2PermCallBase { config: cfg, new_start, inputs, out_ctl, return_all_outputs: false, absorb_len: 8 })
            .map_err(|e| format!("perm_base {cfg:?}: {e:?}"))?;
        Ok((outs[0].ok_or("no out0")?, outs[1].ok_or("no out1")?))
    } else {
        let inputs: Vec<_> = (0..cfg.width_ext()).map(|_| Some(b.public_input())).collect();
        let mut out_ctl = vec![false; cfg.rate_ext()];
        out_ctl[0] = true;
        out_ctl[1] = true;
        let (_, outs) = b
            .add_poseidon2_perm(&Poseidon2PermCall {
                config: cfg,
                new_start,
                merkle_path: false,
                mmcs_bit: None,
                mmcs_bit2: None,
                inputs,
                out_ctl,
                return_all_outputs: false,
                mmcs_index_sum: None,
            })
            .map_err(|e| format!("perm {cfg:?}: {e:?}"))?;
        Ok((outs[0].ok_or("no out0")?, outs[1].ok_or("no out1")?))
    }
}

const NARROW_ROWS: usize = 1;
/// more than the minimum trace height (4), so that the two Poseidon2 tables differ in degree too
const WIDE_ROWS: usize = 5;

macro_rules! backend_components {
    ($fname:ident, $m:ident, $backend:expr) => {
        fn $fname(variant: Variant) -> Result<Vec<(&'static str, String)>, String> {
            use glue::$m::{CHALLENGER_CONFIG, Cfg, Challenge, D, F, WIDE_CONFIG, make_cfg};
            let wide = variant != Variant::Narrow;
            let cfg = make_cfg(wide);
            {
                {
                    // the repository's own backend constructor
                    let backend = $backend;
                    let circuit = if variant == Variant::Verifier {
                        // base proof as in `arity4_base_dummy_prover!` of the aggregation example
                        let mut bb = CircuitBuilder::<F>::new();
                        let c = bb.alloc_const(F::from_u32(7), "dummy_const");
                        let expected = bb.alloc_public_input("expected");
                        bb.connect(c, expected);
                        let base_circuit = bb.build().map_err(|e| format!("base build: {e:?}"))?;
                        let base_packing = TablePacking::new(1, 1).with_fri_params(0, 1);
                        let (ad, prim, np) = get_airs_and_degrees_with_prep::<Cfg, F, 1>(&base_circuit, &base_packing, &[], &[], ConstraintProfile::Standard)
                            .map_err(|e| format!("base airs: {e:?}"))?;
                        let (airs, degs): (Vec<_>, Vec<usize>) = ad.into_iter().unzip();
                        let mut runner = base_circuit.runner();
                        runner.set_public_inputs(&[F::from_u32(7)]).map_err(|e| format!("base publics: {e:?}"))?;
                        let traces = runner.run().map_err(|e| format!("base run: {e:?}"))?;
                        let pd = ProverData::from_airs_and_degrees(&cfg, &airs, &degs);
                        let cpd = CircuitProverData::new(pd, prim, np);
                        let prover = BatchStarkProver::new(cfg.clone()).with_table_packing(base_packing);
                        let proof = prover.prove_all_tables(&traces, &cpd).map_err(|e| format!("base prove: {e:?}"))?;
                        let prev = RecursionOutput(proof, Rc::new(cpd));
                        let input = prev.into_recursion_input::<BatchOnly>();
                        let (circuit, _res) = build_next_layer_circuit::<Cfg, BatchOnly, _, D>(&input, &cfg, &backend).map_err(|e| format!("build_next_layer_circuit: {e:?}"))?;
                        circuit
                    } else {
                    let mut b = CircuitBuilder::<Challenge>::new();
                    PcsRecursionBackend::<Cfg, BatchOnly, D>::prepare_circuit(&backend, &cfg, &mut b).map_err(|e| format!("prepare_circuit: {e:?}"))?;
                    let mut acc: Vec<ExprId> = vec![];
                    let order: &[bool] = match variant {
                        Variant::MixedNarrowFirst => &[false, true],
                        Variant::MixedWideFirst => &[true, false],
                        Variant::Narrow => &[false],
                        Variant::OneRowEach => {
                            for tcfg in [CHALLENGER_CONFIG, WIDE_CONFIG] {
                                let (o0, o1) = perm_row(&mut b, tcfg, true)?;
                                let s = b.add(o0, o1);
                                acc.push(s);
                            }
                            &[]
                        }
                        Variant::CrossWideCreates => {
                            cross_rows(&mut b, WIDE_CONFIG, CHALLENGER_CONFIG, &mut acc)?;
                            &[]
                        }
                        Variant::CrossNarrowCreates => {
                            cross_rows(&mut b, CHALLENGER_CONFIG, WIDE_CONFIG, &mut acc)?;
                            &[]
                        }
                        Variant::Verifier => unreachable!(),
                    };
                    for &is_wide in order {
                        let (tcfg, rows) = if is_wide { (WIDE_CONFIG, WIDE_ROWS) } else { (CHALLENGER_CONFIG, NARROW_ROWS) };
                        for _ in 0..rows {
                            let (o0, o1) = perm_row(&mut b, tcfg, true)?;
                            let s = b.add(o0, o1);
                            acc.push(s);
                        }
                    }
                    let mut total = acc[0];
                    for &x in &acc[1..] {
                        total = b.mul(total, x);
                    }
                    b.tag(total, "total").map_err(|e| format!("{e:?}"))?;
                    if variant == Variant::OneRowEach {
                        let p = b.public_input();
                        b.connect(total, p);
                    } else {
                    // recompose table: coefficients -> extension element; decomposition of a
                    // computed value (reconnected through `recompose/coeff` where the backend
                    // switches that on: D=1 challenger inside a higher-degree circuit)
                    let coeffs = b.decompose_ext_to_base_coeffs::<F>(total).map_err(|e| format!("decompose: {e:?}"))?;
                    let r = b.recompose_base_coeffs_to_ext::<F>(&coeffs).map_err(|e| format!("recompose: {e:?}"))?;
                    let fresh: Vec<ExprId> = (0..D).map(|_| b.public_input()).collect();
                    let r2 = b.recompose_base_coeffs_to_ext::<F>(&fresh).map_err(|e| format!("recompose: {e:?}"))?;
                    let q = b.mul(r, r2);
                    let p = b.public_input();
                    b.connect(q, p);
                    }
                    b.build().map_err(|e| format!("build: {e:?}"))?
                    };

                    let mut out = circuit_components(&circuit);
                    out.push(("ops.count", format!("{}", circuit.ops.len())));
                    out.extend(prep_components::<Challenge, D>(&circuit));
                    // what `build_next_layer_prep` does with the backend
                    let preprocessors = PcsRecursionBackend::<Cfg, BatchOnly, D>::non_primitive_preprocessors(&backend);
                    let air_builders = PcsRecursionBackend::<Cfg, BatchOnly, D>::non_primitive_air_builders(&backend);
                    out.push(("backend.counts", format!("preprocessors={} air_builders={}", preprocessors.len(), air_builders.len())));
                    let packing = TablePacking::new(2, 2).with_fri_params(0, 1);
                    match get_airs_and_degrees_with_prep::<Cfg, Challenge, D>(&circuit, &packing, &preprocessors, &air_builders, ConstraintProfile::Standard) {
                        Err(e) => out.push(("airs", format!("err:{e:?}"))),
                        Ok((ad, prim, np)) => {
                            // kind, degree, main width, preprocessed width of every AIR, in order
                            let kinds: Vec<(&str, usize, usize, usize)> = ad
                                .iter()
                                .map(|(a, d)| {
                                    let k = match a {
                                        CircuitTableAir::Const(_) => "Const",
                                        CircuitTableAir::Public(_) => "Public",
                                        CircuitTableAir::Alu(_) => "Alu",
                                        CircuitTableAir::Dynamic(_) => "Dynamic",
                                    };
                                    let pw = BaseAir::<F>::preprocessed_trace(a).map_or(0, |m| m.width());
                                    (k, *d, BaseAir::<F>::width(a), pw)
                                })
                                .collect();
                            out.push(("airs.count", format!("{}", ad.len())));
                            out.push(("airs.kinds_degrees", hx(&format!("{kinds:?}"))));
                            out.push(("airs.primitive_columns", hx(&format!("{prim:?}"))));
                            let mut npv: Vec<(String, String)> = np.iter().map(|(k, v)| (format!("{k:?}"), format!("{v:?}"))).collect();
                            npv.sort();
                            out.push(("airs.non_primitive_columns", hx(&format!("{npv:?}"))));
                            let mats: Vec<String> = ad
                                .iter()
                                .map(|(a, _)| BaseAir::<F>::preprocessed_trace(a).map(|m| format!("{}x{}:{:?}", m.height(), m.width(), m.values)).unwrap_or_default())
                                .collect();
                            out.push(("airs.preprocessed_matrices", hx(&format!("{mats:?}"))));
                            let (airs, degs): (Vec<_>, Vec<usize>) = ad.into_iter().unzip();
                            let pd = ProverData::from_airs_and_degrees(&cfg, &airs, &degs);
                            let s = pd.common.preprocessed.as_ref().map(|g| format!("{:?}|{:?}", g.commitment, g.matrix_to_instance)).unwrap_or_default();
                            out.push(("commitment", hx(&s)));
                        }
                    }
                    Ok(out)
                }
            }
        }
    };
}

backend_components!(kb5_mixed, kb5, FriRecursionBackend::<16, 8, _>::new_d5(Poseidon2Config::KOALA_BEAR_D1_W16).with_extra_poseidon2_table(Poseidon2Config::KOALA_BEAR_D1_W32));
backend_components!(kb5_narrow, kb5, FriRecursionBackend::<16, 8, _>::new_d5(Poseidon2Config::KOALA_BEAR_D1_W16));
backend_components!(
    kb4_mixed,
    kb4,
    FriRecursionBackend::<16, 8, _>::new(Poseidon2Config::KOALA_BEAR_D4_W16).with_extra_poseidon2_table(Poseidon2Config::KOALA_BEAR_D4_W32).for_extension_degree::<4>()
);
backend_components!(kb4_narrow, kb4, FriRecursionBackend::<16, 8, _>::new(Poseidon2Config::KOALA_BEAR_D4_W16).for_extension_degree::<4>());
backend_components!(
    bb4_mixed,
    bb4,
    FriRecursionBackend::<16, 8, _>::new(Poseidon2Config::BABY_BEAR_D4_W16).with_extra_poseidon2_table(Poseidon2Config::BABY_BEAR_D4_W32).for_extension_degree::<4>()
);
backend_components!(bb4_narrow, bb4, FriRecursionBackend::<16, 8, _>::new(Poseidon2Config::BABY_BEAR_D4_W16).for_extension_degree::<4>());
backend_components!(
    gl2_mixed,
    gl2,
    FriRecursionBackend::<8, 4, _>::new(Poseidon2Config::GOLDILOCKS_D2_W8).with_extra_poseidon2_table(Poseidon2Config::GOLDILOCKS_D2_W16).for_extension_degree::<2>()
);
backend_components!(gl2_narrow, gl2, FriRecursionBackend::<8, 4, _>::new(Poseidon2Config::GOLDILOCKS_D2_W8).for_extension_degree::<2>());

pub fn library() -> Vec<(String, LibFn)> {
    let mut v: Vec<(String, LibFn)> = vec![];
    type Comp = fn(Variant) -> Result<Vec<(&'static str, String)>, String>;
    let fields: [(&str, Comp, Comp); 4] = [
        ("koalabear-quintic-d5:p2_d1_w16+p2_d1_w32+recompose+recompose/coeff", kb5_mixed, kb5_narrow),
        ("koalabear-d4:p2_d4_w16+p2_d4_w32+recompose", kb4_mixed, kb4_narrow),
        ("babybear-d4:p2_d4_w16+p2_d4_w32+recompose", bb4_mixed, bb4_narrow),
        ("goldilocks-d2:p2_d2_w8+p2_d2_w16+recompose", gl2_mixed, gl2_narrow),
    ];
    for (name, mixed, narrow) in fields {
        v.push((format!("lib:backend:{name}:mixed,challenger-rows-first"), Box::new(move || mixed(Variant::MixedNarrowFirst))));
        v.push((format!("lib:backend:{name}:mixed,wide-rows-first"), Box::new(move || mixed(Variant::MixedWideFirst))));
        v.push((format!("lib:backend:{name}:narrow-only"), Box::new(move || narrow(Variant::Narrow))));
        v.push((format!("lib:backend:{name}:next-layer-verifier-circuit"), Box::new(move || mixed(Variant::Verifier))));
        v.push((format!("lib:backend:{name}:cross-table-mmcs-index,wide-creates,narrow-merkle-row-reads"), Box::new(move || mixed(Variant::CrossWideCreates))));
        v.push((format!("lib:backend:{name}:cross-table-mmcs-index,narrow-creates,wide-merkle-row-reads"), Box::new(move || mixed(Variant::CrossNarrowCreates))));
    }
    // Generic builders with two Poseidon2 tables: the circuit is prepared by the MIXED
    // configuration (both Poseidon2 tables enabled and used), preprocessors / AIR builders come
    // from the backend WITHOUT the extra table, i.e. `poseidon2_air_builders::<_, D>()` /
    // `poseidon2_air_builders_d5()` (one unrestricted `Poseidon2AirBuilder`) + recompose.
    // All four share one violation family (text before '|', see `compare` in main.rs).
    for (name, _mixed, narrow) in fields {
        let field = name.split(':').next().unwrap();
        v.push((format!("{GENERIC_FAMILY}|{field}"), Box::new(move || narrow(Variant::OneRowEach))));
    }
    v
}

pub const GENERIC_FAMILY: &str = "lib:generic-poseidon2_air_builders:two-poseidon2-tables,one-row-each";
