//! Mixed-config recursion glue (narrow Poseidon2 challenger table + wide arity-4 MMCS table):
//! a copy of `arity4_mixed_config_impl!` / `define_field_module_types_arity4!` of
//! `/repo/recursion/examples/recursive_aggregation.rs` and `examples/common/mod.rs`, one
//! instance per field configuration the repository's examples offer
//! (`koala_bear_arity4`, `koala_bear_quintic_arity4`, `goldilocks_arity4`, `baby_bear_arity4`).
//! Each module yields a `StarkGenericConfig` implementing `FriRecursionConfig` (`Cfg`), so that
//! the repository's own backend constructors (`FriRecursionBackend::new(..)
//! .with_extra_poseidon2_table(..).for_extension_degree::<D>()`, `::new_d5(..)`) can be asked
//! for their preprocessors and AIR builders. Nothing here decides anything: it is the wiring of
//! the examples with test-grade FRI parameters. The only addition is `wide: bool`: with
//! `wide = false` only the challenger table and the recompose table are enabled, which is what
//! the examples' arity-2 `ConfigWithFriParams::prepare_circuit_for_verification` does.

use std::sync::Arc;

use p3_challenger::DuplexChallenger;
use p3_circuit::ops::{generate_poseidon2_trace, generate_recompose_trace};
use p3_circuit::{CircuitBuilder, CircuitRunner, NonPrimitiveOpId};
use p3_commit::{ExtensionMmcs, Pcs};
use p3_dft::Radix2DitParallel;
use p3_field::Field;
use p3_field::extension::{BinomialExtensionField, QuinticTrinomialExtensionField};
use p3_fri::{FriParameters, TwoAdicFriPcs};
use p3_lookup::logup::LogUpGadget;
use p3_merkle_tree::MerkleTreeMmcs;
use p3_recursion::pcs::{
    InputProofTargets, MerkleCapTargets, RecExtensionValMmcsArity4, RecValMmcsArity4,
    set_fri_mmcs_private_data_arity4,
};
use p3_recursion::traits::{RecursiveAir, RecursivePcs};
use p3_recursion::verifier::VerificationError;
use p3_recursion::{FriRecursionConfig, FriVerifierParams, Poseidon2Config, RecursionInput};
use p3_symmetric::{PaddingFreeSponge, TruncatedPermutation};
use p3_uni_stark::{StarkConfig, StarkGenericConfig, Val};

pub fn default_goldilocks_poseidon2_8() -> p3_goldilocks::Poseidon2Goldilocks<8> {
    use rand::SeedableRng;
    let mut rng = rand::rngs::SmallRng::seed_from_u64(1);
    p3_goldilocks::Poseidon2Goldilocks::<8>::new_from_rng_128(&mut rng)
}

pub fn default_goldilocks_poseidon2_16() -> p3_goldilocks::Poseidon2Goldilocks<16> {
    use rand::SeedableRng;
    let mut rng = rand::rngs::SmallRng::seed_from_u64(1);
    p3_goldilocks::Poseidon2Goldilocks::<16>::new_from_rng_128(&mut rng)
}

/// `FriParameters::new_testing`-grade scalars: blowup 2, 2 queries, no PoW, binary folding.
const LOG_BLOWUP: usize = 1;
const LOG_FINAL_POLY_LEN: usize = 0;
const NUM_QUERIES: usize = 2;
const POW_BITS: usize = 0;
const CAP_HEIGHT: usize = 0;

macro_rules! mixed_glue {
    (
        $modname:ident,
        field: $field:ty,
        challenge: $challenge:ty,
        d: $d:expr,
        // challenger side (narrow permutation)
        perm: $perm:ty, $default_perm:path, width: $width:expr, rate: $rate:expr,
        // MMCS side (wide permutation, arity-4 compression)
        perm_wide: $perm_wide:ty, $default_perm_wide:path, width_wide: $width_wide:expr, rate_wide: $rate_wide:expr,
        digest: $digest_elems:expr,
        challenger_config: $challenger_config:expr,
        wide_config: $wide_config:expr,
        challenger_enable: $challenger_enable_fn:ident, $challenger_circuit_config:ty, $challenger_perm:expr,
        wide_enable: $wide_enable_fn:ident, $wide_circuit_config:ty, $wide_perm:expr
    ) => {
        pub mod $modname {
            use super::*;

            pub type F = $field;
            pub const D: usize = $d;
            pub const CHALLENGER_CONFIG: Poseidon2Config = $challenger_config;
            pub const WIDE_CONFIG: Poseidon2Config = $wide_config;
            pub type Challenge = $challenge;
            type Dft = Radix2DitParallel<F>;
            type Perm = $perm;
            type Challenger = DuplexChallenger<F, Perm, $width, $rate>;

            type PermArity4 = $perm_wide;
            type MyHashArity4 = PaddingFreeSponge<PermArity4, $width_wide, $rate_wide, $digest_elems>;
            type MyCompressArity4 = TruncatedPermutation<PermArity4, 4, $digest_elems, $width_wide>;
            type MyMmcsArity4 = MerkleTreeMmcs<<F as Field>::Packing, <F as Field>::Packing, MyHashArity4, MyCompressArity4, 4, $digest_elems>;
            type ChallengeMmcsArity4 = ExtensionMmcs<F, Challenge, MyMmcsArity4>;
            type MyPcsArity4 = TwoAdicFriPcs<F, Dft, MyMmcsArity4, ChallengeMmcsArity4>;
            type RecInputMmcsArity4 = RecValMmcsArity4<F, $digest_elems, MyHashArity4, MyCompressArity4>;
            type InnerFriArity4 = p3_recursion::pcs::FriProofTargets<
                F,
                Challenge,
                RecExtensionValMmcsArity4<F, Challenge, $digest_elems, RecInputMmcsArity4>,
                InputProofTargets<F, Challenge, RecInputMmcsArity4>,
                p3_recursion::pcs::Witness<F>,
            >;
            type MyConfigArity4 = StarkConfig<MyPcsArity4, Challenge, Challenger>;

            #[derive(Clone)]
            pub struct Cfg {
                config: Arc<MyConfigArity4>,
                fri_verifier_params: FriVerifierParams,
                /// enable the wide (MMCS) Poseidon2 table too
                pub wide: bool,
            }

            impl StarkGenericConfig for Cfg {
                type Challenge = Challenge;
                type Challenger = Challenger;
                type Pcs = MyPcsArity4;
                fn pcs(&self) -> &MyPcsArity4 {
                    self.config.pcs()
                }
                fn initialise_challenger(&self) -> Challenger {
                    self.config.initialise_challenger()
                }
            }

            impl FriRecursionConfig for Cfg
            where
                MyPcsArity4: RecursivePcs<
                        Cfg,
                        InputProofTargets<F, Challenge, RecInputMmcsArity4>,
                        InnerFriArity4,
                        MerkleCapTargets<F, $digest_elems>,
                        <MyPcsArity4 as Pcs<Challenge, Challenger>>::Domain,
                    >,
            {
                type Commitment = MerkleCapTargets<F, $digest_elems>;
                type InputProof = InputProofTargets<F, Challenge, RecInputMmcsArity4>;
                type OpeningProof = InnerFriArity4;
                type RawOpeningProof = <MyPcsArity4 as Pcs<Challenge, Challenger>>::Proof;
                const DIGEST_ELEMS: usize = $digest_elems;

                fn with_fri_opening_proof<'a, A, R>(prev: &RecursionInput<'a, Self, A>, f: impl FnOnce(&Self::RawOpeningProof) -> R) -> R
                where
                    A: RecursiveAir<Val<Self>, Self::Challenge, LogUpGadget>,
                {
                    match prev {
                        RecursionInput::UniStark { proof, .. } => f(&proof.opening_proof),
                        RecursionInput::BatchStark { proof, .. } => f(&proof.proof.opening_proof),
                    }
                }

                fn prepare_circuit_for_verification(&self, circuit: &mut CircuitBuilder<Challenge>) -> Result<(), VerificationError> {
                    circuit.$challenger_enable_fn::<$challenger_circuit_config, _>(
                        generate_poseidon2_trace::<Challenge, $challenger_circuit_config>,
                        $challenger_perm,
                    );
                    if self.wide {
                        circuit.$wide_enable_fn::<$wide_circuit_config, _>(generate_poseidon2_trace::<Challenge, $wide_circuit_config>, $wide_perm);
                    }
                    circuit.enable_recompose::<F>(generate_recompose_trace::<F, Challenge>);
                    if <$challenger_circuit_config as p3_circuit::ops::Poseidon2Params>::D == 1
                        && <Challenge as ::p3_field::BasedVectorSpace<F>>::DIMENSION > 1
                    {
                        circuit.set_recompose_coeff_ctl_for_decompose_links(true);
                    }
                    Ok(())
                }

                fn pcs_verifier_params(
                    &self,
                ) -> &<MyPcsArity4 as RecursivePcs<
                    Cfg,
                    InputProofTargets<F, Challenge, RecInputMmcsArity4>,
                    InnerFriArity4,
                    MerkleCapTargets<F, $digest_elems>,
                    <MyPcsArity4 as Pcs<Challenge, Challenger>>::Domain,
                >>::VerifierParams {
                    &self.fri_verifier_params
                }

                fn set_fri_private_data(
                    runner: &mut CircuitRunner<'_, Challenge>,
                    op_ids: &[NonPrimitiveOpId],
                    opening_proof: &Self::RawOpeningProof,
                ) -> Result<(), &'static str> {
                    set_fri_mmcs_private_data_arity4::<F, Challenge, ChallengeMmcsArity4, MyMmcsArity4, $digest_elems>(runner, op_ids, opening_proof, $wide_config)
                }
            }

            pub fn make_cfg(wide: bool) -> Cfg {
                let challenger_perm = $default_perm();
                let mmcs_perm = $default_perm_wide();
                let hash = MyHashArity4::new(mmcs_perm.clone());
                let compress = MyCompressArity4::new(mmcs_perm);
                let val_mmcs = MyMmcsArity4::new(hash, compress, CAP_HEIGHT);
                let challenge_mmcs = ChallengeMmcsArity4::new(val_mmcs.clone());
                let fri_params = FriParameters {
                    max_log_arity: 1,
                    log_blowup: LOG_BLOWUP,
                    log_final_poly_len: LOG_FINAL_POLY_LEN,
                    num_queries: NUM_QUERIES,
                    commit_proof_of_work_bits: POW_BITS,
                    query_proof_of_work_bits: POW_BITS,
                    mmcs: challenge_mmcs,
                };
                let pcs = MyPcsArity4::new(Dft::default(), val_mmcs, fri_params);
                let challenger = Challenger::new(challenger_perm);
                Cfg {
                    config: Arc::new(MyConfigArity4::new(pcs, challenger)),
                    fri_verifier_params: FriVerifierParams::with_mmcs(LOG_BLOWUP, LOG_FINAL_POLY_LEN, POW_BITS, POW_BITS, $wide_config),
                    wide,
                }
            }
        }
    };
}

mixed_glue!(
    kb4,
    field: p3_koala_bear::KoalaBear,
    challenge: BinomialExtensionField<p3_koala_bear::KoalaBear, 4>,
    d: 4,
    perm: p3_koala_bear::Poseidon2KoalaBear<16>, p3_koala_bear::default_koalabear_poseidon2_16, width: 16, rate: 8,
    perm_wide: p3_koala_bear::Poseidon2KoalaBear<32>, p3_koala_bear::default_koalabear_poseidon2_32, width_wide: 32, rate_wide: 24,
    digest: 8,
    challenger_config: Poseidon2Config::KOALA_BEAR_D4_W16,
    wide_config: Poseidon2Config::KOALA_BEAR_D4_W32,
    challenger_enable: enable_poseidon2_perm, p3_poseidon2_circuit_air::KoalaBearD4Width16, p3_koala_bear::default_koalabear_poseidon2_16(),
    wide_enable: enable_poseidon2_perm_width_32, p3_poseidon2_circuit_air::KoalaBearD4Width32, p3_koala_bear::default_koalabear_poseidon2_32()
);

mixed_glue!(
    bb4,
    field: p3_baby_bear::BabyBear,
    challenge: BinomialExtensionField<p3_baby_bear::BabyBear, 4>,
    d: 4,
    perm: p3_baby_bear::Poseidon2BabyBear<16>, p3_baby_bear::default_babybear_poseidon2_16, width: 16, rate: 8,
    perm_wide: p3_baby_bear::Poseidon2BabyBear<32>, p3_baby_bear::default_babybear_poseidon2_32, width_wide: 32, rate_wide: 24,
    digest: 8,
    challenger_config: Poseidon2Config::BABY_BEAR_D4_W16,
    wide_config: Poseidon2Config::BABY_BEAR_D4_W32,
    challenger_enable: enable_poseidon2_perm, p3_poseidon2_circuit_air::BabyBearD4Width16, p3_baby_bear::default_babybear_poseidon2_16(),
    wide_enable: enable_poseidon2_perm_width_32, p3_poseidon2_circuit_air::BabyBearD4Width32, p3_baby_bear::default_babybear_poseidon2_32()
);

mixed_glue!(
    kb5,
    field: p3_koala_bear::KoalaBear,
    challenge: QuinticTrinomialExtensionField<p3_koala_bear::KoalaBear>,
    d: 5,
    perm: p3_koala_bear::Poseidon2KoalaBear<16>, p3_koala_bear::default_koalabear_poseidon2_16, width: 16, rate: 8,
    perm_wide: p3_koala_bear::Poseidon2KoalaBear<32>, p3_koala_bear::default_koalabear_poseidon2_32, width_wide: 32, rate_wide: 24,
    digest: 8,
    challenger_config: Poseidon2Config::KOALA_BEAR_D1_W16,
    wide_config: Poseidon2Config::KOALA_BEAR_D1_W32,
    challenger_enable: enable_poseidon2_perm_base, p3_poseidon2_circuit_air::KoalaBearD1Width16,
        ::p3_test_utils::LiftPermToQuintic::<F, p3_koala_bear::Poseidon2KoalaBear<16>, 16>::new(p3_koala_bear::default_koalabear_poseidon2_16()),
    wide_enable: enable_poseidon2_perm_base_width_32, p3_poseidon2_circuit_air::KoalaBearD1Width32,
        ::p3_test_utils::LiftPermToQuintic::<F, p3_koala_bear::Poseidon2KoalaBear<32>, 32>::new(p3_koala_bear::default_koalabear_poseidon2_32())
);

mixed_glue!(
    gl2,
    field: p3_goldilocks::Goldilocks,
    challenge: BinomialExtensionField<p3_goldilocks::Goldilocks, 2>,
    d: 2,
    perm: p3_goldilocks::Poseidon2Goldilocks<8>, default_goldilocks_poseidon2_8, width: 8, rate: 4,
    perm_wide: p3_goldilocks::Poseidon2Goldilocks<16>, default_goldilocks_poseidon2_16, width_wide: 16, rate_wide: 12,
    digest: 4,
    challenger_config: Poseidon2Config::GOLDILOCKS_D2_W8,
    wide_config: Poseidon2Config::GOLDILOCKS_D2_W16,
    challenger_enable: enable_poseidon2_perm_width_8, p3_circuit::ops::GoldilocksD2Width8, default_goldilocks_poseidon2_8(),
    wide_enable: enable_poseidon2_perm, p3_poseidon2_circuit_air::GoldilocksD2Width16, default_goldilocks_poseidon2_16()
);
