//! C18 — compilation and key generation are deterministic.
//!
//! The repository crates are built (in this separate workspace only) against a vendored
//! hashbrown 0.17.1 whose default hash seed is owned by the harness (`verif_set_hash_seed`).
//! That turns "whatever iteration order the runtime chooses" into an enumerable environment
//! answer: for every program of an E1 family and a few library circuits (Poseidon2 chains with
//! the recompose table; every two-Poseidon2-table recursion backend configuration of the
//! repository — KoalaBear quintic D=5, KoalaBear D=4, BabyBear D=4, Goldilocks D=2 — through
//! the backend's own preprocessors / AIR builders, hand-made and as the real next-layer
//! verification circuit, see backends.rs), every seed in 0..K, the upstream random seeding, and
//! fresh child processes, the digest of every emitted artefact must be the same:
//!   ops, witness numbering, public/private rows, expr->witness map (sorted), rewrite map,
//!   generator order, preprocessed columns, AIR kinds/degrees, final preprocessed matrices,
//!   preprocessed commitment.

use std::collections::BTreeMap;
use std::process::Command;
use std::sync::Mutex;
use std::sync::atomic::{AtomicU64, Ordering};

use p3_baby_bear::BabyBear;
use p3_batch_stark::ProverData;
use p3_circuit::ops::{NpoTypeId, Op, Poseidon2Config, Poseidon2PermCall, generate_poseidon2_trace, generate_recompose_trace};
use p3_circuit::{Circuit, CircuitBuilder, ExprId};
use p3_circuit_prover::batch_stark_prover::{TablePacking, poseidon2_air_builders, recompose_air_builders};
use p3_circuit_prover::common::{CircuitTableAir, NpoPreprocessor, get_airs_and_degrees_with_prep};
use p3_circuit_prover::config::{self, BabyBearConfig, KoalaBearConfig};
use p3_circuit_prover::{ConstraintProfile, Poseidon2Preprocessor, RecomposePreprocessor};
use p3_field::extension::BinomialExtensionField;
use p3_field::{BasedVectorSpace, Field, PrimeCharacteristicRing};
use p3_koala_bear::{KoalaBear, default_koalabear_poseidon2_16};
use p3_matrix::Matrix;
use p3_poseidon2_circuit_air::KoalaBearD4Width16;
use vpcore::rayon::prelude::*;
use vpcore::serde_json::{Value, json};
use vpcore::{Ctx, Report, finish, quiet_catch};
use vpe1::enumerate::{AK, Family, VK};
use vpe1::explore::{SeenSet, Stats, explore, h128};
use vpe1::prog::{Program, materialize};

mod backends;
mod glue;

type F = BabyBear;
type KB = KoalaBear;
type Ext4 = BinomialExtensionField<KB, 4>;

fn consts() -> Vec<F> {
    vec![F::ZERO, F::ONE, F::from_u64(5), F::from_u64(7)]
}

fn hx(s: &str) -> String {
    format!("{:032x}", h128(s))
}

/// Structural rendering of the op list (executors are rendered by type id only: their
/// `Debug` output is not an artefact).
fn ops_string<T: Field>(c: &Circuit<T>) -> String {
    let mut s = String::new();
    for op in &c.ops {
        match op {
            Op::Const { out, val } => s.push_str(&format!("C{}={val:?};", out.0)),
            Op::Public { out, public_pos } => s.push_str(&format!("P{}@{public_pos};", out.0)),
            Op::Alu { kind, a, b, c, out, intermediate_out } => s.push_str(&format!(
                "A{kind:?}({},{},{:?})->{}|{:?};",
                a.0,
                b.0,
                c.map(|x| x.0),
                out.0,
                intermediate_out.map(|x| x.0)
            )),
            Op::Hint { inputs, outputs, .. } => s.push_str(&format!("H{inputs:?}->{outputs:?};")),
            Op::NonPrimitiveOpWithExecutor { inputs, outputs, executor, op_id } => {
                s.push_str(&format!("N{:?}#{}{inputs:?}->{outputs:?};", executor.op_type(), op_id.0))
            }
        }
    }
    s
}

/// Component digests of everything a circuit emits (component name -> digest).
fn circuit_components<T: Field>(c: &Circuit<T>) -> Vec<(&'static str, String)> {
    let mut e2w: Vec<(u32, u32)> = c.expr_to_widx.iter().map(|(e, w)| (e.0, w.0)).collect();
    e2w.sort();
    let mut rw: Vec<(u32, u32)> = c.witness_rewrite.iter().flatten().map(|(a, b)| (a.0, b.0)).collect();
    rw.sort();
    let mut tags: Vec<(String, u32)> = c.tag_to_witness.iter().map(|(t, w)| (t.clone(), w.0)).collect();
    tags.sort();
    let mut enabled: Vec<String> = c.enabled_ops.keys().map(|k| format!("{k:?}")).collect();
    enabled.sort();
    vec![
        ("ops", hx(&ops_string(c))),
        ("witness_count", format!("{}", c.witness_count)),
        ("public_rows", hx(&format!("{:?}{:?}", c.public_rows, c.public_flat_len))),
        ("private_rows", hx(&format!("{:?}{:?}", c.private_input_rows, c.private_flat_len))),
        ("expr_to_widx", hx(&format!("{e2w:?}"))),
        ("witness_rewrite", hx(&format!("{rw:?}"))),
        ("tags", hx(&format!("{tags:?}"))),
        ("enabled_ops", hx(&format!("{enabled:?}"))),
        ("generator_order", hx(&format!("{:?}", c.non_primitive_trace_generator_order))),
    ]
}

fn prep_components<T: Field, const D: usize>(c: &Circuit<T>) -> Vec<(&'static str, String)> {
    match c.generate_preprocessed_columns::<D>() {
        Err(e) => vec![("preprocessed_columns", format!("err:{e:?}"))],
        Ok(p) => {
            let mut np: Vec<(String, String)> = p.non_primitive.iter().map(|(k, v)| (format!("{k:?}"), format!("{v:?}"))).collect();
            np.sort();
            let mut dup: Vec<(String, String)> = p.dup_npo_outputs.iter().map(|(k, v)| (format!("{k:?}"), format!("{v:?}"))).collect();
            dup.sort();
            let mut hint: Vec<u32> = p.hint_output_wids.iter().copied().collect();
            hint.sort();
            vec![
                ("prep.primitive", hx(&format!("{:?}", p.primitive))),
                ("prep.non_primitive", hx(&format!("{np:?}"))),
                ("prep.ext_reads", hx(&format!("{:?}", p.ext_reads))),
                ("prep.dup_npo_outputs", hx(&format!("{dup:?}"))),
                ("prep.hint_output_wids", hx(&format!("{hint:?}"))),
            ]
        }
    }
}

fn air_kind<SC, const D: usize>(a: &CircuitTableAir<SC, D>) -> &'static str
where
    SC: p3_uni_stark::StarkGenericConfig,
    p3_uni_stark::SymbolicExpressionExt<p3_uni_stark::Val<SC>, SC::Challenge>: p3_field::Algebra<p3_uni_stark::SymbolicExpression<p3_uni_stark::Val<SC>>>,
{
    match a {
        CircuitTableAir::Const(_) => "Const",
        CircuitTableAir::Public(_) => "Public",
        CircuitTableAir::Alu(_) => "Alu",
        CircuitTableAir::Dynamic(_) => "Dynamic",
    }
}

/// E1 program: BabyBear D=1, no non-primitive tables.
fn program_components(p: &Program, with_commitment: bool) -> Result<Vec<(&'static str, String)>, String> {
    let m = materialize::<F, F>(p, &consts())?;
    let circuit = m.builder.build().map_err(|e| format!("build: {e:?}"))?;
    let mut out = circuit_components(&circuit);
    out.extend(prep_components::<F, 1>(&circuit));
    match get_airs_and_degrees_with_prep::<BabyBearConfig, _, 1>(&circuit, &TablePacking::new(2, 2), &[], &[], ConstraintProfile::Standard) {
        Err(e) => out.push(("airs", format!("err:{e:?}"))),
        Ok((ad, prim, np)) => {
            let kinds: Vec<(&str, usize)> = ad.iter().map(|(a, d)| (air_kind(a), *d)).collect();
            out.push(("airs.kinds_degrees", hx(&format!("{kinds:?}"))));
            out.push(("airs.primitive_columns", hx(&format!("{prim:?}"))));
            let mut npv: Vec<(String, String)> = np.iter().map(|(k, v)| (format!("{k:?}"), format!("{v:?}"))).collect();
            npv.sort();
            out.push(("airs.non_primitive_columns", hx(&format!("{npv:?}"))));
            let mats: Vec<String> = ad
                .iter()
                .map(|(a, _)| {
                    use p3_air::BaseAir;
                    let t: Option<p3_matrix::dense::RowMajorMatrix<F>> = match a {
                        CircuitTableAir::Const(x) => x.preprocessed_trace(),
                        CircuitTableAir::Public(x) => x.preprocessed_trace(),
                        CircuitTableAir::Alu(x) => x.preprocessed_trace(),
                        CircuitTableAir::Dynamic(x) => x.preprocessed_trace(),
                    };
                    t.map(|m| format!("{}x{}:{:?}", m.height(), m.width(), m.values)).unwrap_or_default()
                })
                .collect();
            out.push(("airs.preprocessed_matrices", hx(&format!("{mats:?}"))));
            if with_commitment {
                let cfg = config::baby_bear();
                let (airs, degs): (Vec<_>, Vec<usize>) = ad.into_iter().unzip();
                let pd = ProverData::from_airs_and_degrees(&cfg, &airs, &degs);
                let s = pd.common.preprocessed.as_ref().map(|g| format!("{:?}|{:?}", g.commitment, g.matrix_to_instance)).unwrap_or_default();
                out.push(("commitment", hx(&s)));
            }
        }
    }
    Ok(out)
}

/// Library circuit: KoalaBear D=4 Poseidon2 permutation chain + recompose table (two
/// non-primitive tables, trace generators, plugin preprocessors).
fn poseidon_chain_components(chain: usize, recompose_use: bool) -> Result<Vec<(&'static str, String)>, String> {
    let perm = default_koalabear_poseidon2_16();
    let mut b = CircuitBuilder::<Ext4>::new();
    b.enable_poseidon2_perm::<KoalaBearD4Width16, _>(generate_poseidon2_trace::<Ext4, KoalaBearD4Width16>, perm);
    b.enable_recompose::<KB>(generate_recompose_trace::<KB, Ext4>);
    let limbs: [ExprId; 4] = core::array::from_fn(|i| {
        let coeffs: [KB; 4] = core::array::from_fn(|j| KB::from_u64((i * 4 + j + 1) as u64));
        b.alloc_const(Ext4::from_basis_coefficients_slice(&coeffs).unwrap(), "in")
    });
    let mut last: Vec<Option<ExprId>> = vec![None; 4];
    for row in 0..chain {
        let first = row == 0;
        let is_last = row + 1 == chain;
        let mut inputs: Vec<Option<ExprId>> = vec![None; 4];
        if first {
            for l in 0..4 {
                inputs[l] = Some(limbs[l]);
            }
        }
        let (_id, outs) = b
            .add_poseidon2_perm(&Poseidon2PermCall {
                config: Poseidon2Config::KOALA_BEAR_D4_W16,
                new_start: first,
                merkle_path: false,
                mmcs_bit: None,
                mmcs_bit2: None,
                inputs,
                out_ctl: vec![is_last, is_last],
                return_all_outputs: false,
                mmcs_index_sum: None,
            })
            .map_err(|e| format!("{e:?}"))?;
        if is_last {
            last = outs;
        }
    }
    let o0 = last[0].ok_or("no out0")?;
    let o1 = last[1].ok_or("no out1")?;
    let s = b.add(o0, o1);
    b.tag(s, "sum").map_err(|e| format!("{e:?}"))?;
    if recompose_use {
        // decompose / recompose round trip through the recompose table
        let coeffs = b.decompose_ext_to_base_coeffs::<KB>(s).map_err(|e| format!("{e:?}"))?;
        let r = b.recompose_base_coeffs_to_ext::<KB>(&coeffs).map_err(|e| format!("{e:?}"))?;
        b.connect(r, s);
        let p = b.public_input();
        let q = b.mul(p, r);
        b.tag(q, "q").map_err(|e| format!("{e:?}"))?;
    }
    let circuit = b.build().map_err(|e| format!("build: {e:?}"))?;
    let mut out = circuit_components(&circuit);
    out.extend(prep_components::<Ext4, 4>(&circuit));
    let npo_prep: Vec<Box<dyn NpoPreprocessor<KB>>> = vec![Box::new(Poseidon2Preprocessor), Box::new(RecomposePreprocessor::default())];
    let mut air_builders = poseidon2_air_builders::<_, 4>();
    air_builders.extend(recompose_air_builders(1, false));
    match get_airs_and_degrees_with_prep::<KoalaBearConfig, _, 4>(&circuit, &TablePacking::new(2, 2), &npo_prep, &air_builders, ConstraintProfile::Standard) {
        Err(e) => out.push(("airs", format!("err:{e:?}"))),
        Ok((ad, prim, np)) => {
            let kinds: Vec<(&str, usize)> = ad.iter().map(|(a, d)| (air_kind(a), *d)).collect();
            out.push(("airs.kinds_degrees", hx(&format!("{kinds:?}"))));
            out.push(("airs.primitive_columns", hx(&format!("{prim:?}"))));
            let mut npv: Vec<(String, String)> = np.iter().map(|(k, v)| (format!("{k:?}"), format!("{v:?}"))).collect();
            npv.sort();
            out.push(("airs.non_primitive_columns", hx(&format!("{npv:?}"))));
            let cfg = config::koala_bear();
            let (airs, degs): (Vec<_>, Vec<usize>) = ad.into_iter().unzip();
            let pd = ProverData::from_airs_and_degrees(&cfg, &airs, &degs);
            let s = pd.common.preprocessed.as_ref().map(|g| format!("{:?}|{:?}", g.commitment, g.matrix_to_instance)).unwrap_or_default();
            out.push(("commitment", hx(&s)));
            let _ = NpoTypeId::poseidon2_perm(Poseidon2Config::KOALA_BEAR_D4_W16);
        }
    }
    Ok(out)
}

/// Library circuit: both recompose tables (`recompose`, `recompose/coeff`), `n` rows each,
/// under a packing with a separate lane override per table.
fn recompose_split_components(n: usize, lanes_plain: usize, lanes_coeff: usize) -> Result<Vec<(&'static str, String)>, String> {
    let mut b = CircuitBuilder::<Ext4>::new();
    b.enable_recompose::<KB>(generate_recompose_trace::<KB, Ext4>);
    for k in 0..2 * n {
        let coeffs: Vec<ExprId> = (0..4).map(|_| b.public_input()).collect();
        let packed = if k < n {
            b.recompose_base_coeffs_to_ext::<KB>(&coeffs)
        } else {
            b.recompose_base_coeffs_to_ext_with_coeff_lookups::<KB>(&coeffs)
        }
        .map_err(|e| format!("{e:?}"))?;
        let expected = b.public_input();
        b.connect(packed, expected);
    }
    let circuit = b.build().map_err(|e| format!("build: {e:?}"))?;
    let mut out = circuit_components(&circuit);
    out.extend(prep_components::<Ext4, 4>(&circuit));
    let mut packing = TablePacking::new(1, 1);
    if lanes_plain > 0 {
        packing = packing.with_npo_lanes(NpoTypeId::recompose(), lanes_plain);
    }
    if lanes_coeff > 0 {
        packing = packing.with_npo_lanes(NpoTypeId::recompose_with_coeff_lookups(), lanes_coeff);
    }
    let npo_prep: Vec<Box<dyn NpoPreprocessor<KB>>> = vec![Box::new(RecomposePreprocessor::new(true))];
    let air_builders = recompose_air_builders::<KoalaBearConfig, 4>(1, true);
    match get_airs_and_degrees_with_prep::<KoalaBearConfig, _, 4>(&circuit, &packing, &npo_prep, &air_builders, ConstraintProfile::Standard) {
        Err(e) => out.push(("airs", format!("err:{e:?}"))),
        Ok((ad, prim, np)) => {
            use p3_air::BaseAir;
            let kinds: Vec<(&str, usize, usize)> = ad.iter().map(|(a, d)| (air_kind(a), BaseAir::<KB>::width(a), *d)).collect();
            out.push(("airs.kinds_degrees", hx(&format!("{kinds:?}"))));
            out.push(("airs.primitive_columns", hx(&format!("{prim:?}"))));
            let mut npv: Vec<(String, String)> = np.iter().map(|(k, v)| (format!("{k:?}"), format!("{v:?}"))).collect();
            npv.sort();
            out.push(("airs.non_primitive_columns", hx(&format!("{npv:?}"))));
            let cfg = config::koala_bear();
            let (airs, degs): (Vec<_>, Vec<usize>) = ad.into_iter().unzip();
            let pd = ProverData::from_airs_and_degrees(&cfg, &airs, &degs);
            let s = pd.common.preprocessed.as_ref().map(|g| format!("{:?}|{:?}", g.commitment, g.matrix_to_instance)).unwrap_or_default();
            out.push(("commitment", hx(&s)));
        }
    }
    Ok(out)
}

type LibFn = Box<dyn Fn() -> Result<Vec<(&'static str, String)>, String> + Send + Sync>;

fn library() -> Vec<(String, LibFn)> {
    let mut v: Vec<(String, LibFn)> = vec![
        ("lib:poseidon2_chain1".into(), Box::new(|| poseidon_chain_components(1, false))),
        ("lib:poseidon2_chain3+recompose".into(), Box::new(|| poseidon_chain_components(3, true))),
        ("lib:poseidon2_chain2+recompose".into(), Box::new(|| poseidon_chain_components(2, true))),
    ];
    // per-table lane overrides of the two recompose tables (0 = no override)
    for (a, c) in [(0usize, 0usize), (2, 4), (4, 2), (2, 0), (0, 2), (1, 4)] {
        v.push((format!("lib:recompose_split8+lanes({a},{c})"), Box::new(move || recompose_split_components(8, a, c))));
    }
    // every recursion backend configuration of the repository with more than one
    // non-primitive table (see backends.rs)
    v.extend(backends::library());
    v
}

fn families(thorough: bool) -> Vec<Family> {
    let f = |name: &str, vk: &[VK], ak: &[AK], k, c, mp, mv, cs: &[u8], wide| Family {
        name: name.into(),
        value_kinds: vk.to_vec(),
        assert_kinds: ak.to_vec(),
        max_value_ops: k,
        max_asserts: c,
        max_pub: mp,
        max_priv: mv,
        consts: cs.to_vec(),
        max_wide: wide,
        wide_no_atoms: true,
        sym_reduce: true,
        stages: vec![],
        assert_split: None,
    };
    let all = [AK::Connect, AK::AssertZero, AK::AssertBool];
    let mut v = vec![
        f("bin-k2-c1", &[VK::Add, VK::Sub, VK::Mul, VK::Div], &all, 2, 1, 2, 1, &[0, 2], 0),
        // two private inputs, constants 0 and 1: products / sums that the builder folds away leave
        // private inputs that no row names (key generation must treat them deterministically)
        f("priv2-k2-c1", &[VK::Add, VK::Sub, VK::Mul], &[AK::Connect], 2, 1, 1, 2, &[0, 1], 0),
        f("mixed-k2-c1", &[VK::Add, VK::Mul, VK::MulAdd, VK::Select, VK::Horner, VK::Bits(2)], &[AK::Connect], 2, 1, 2, 0, &[2], 1),
    ];
    // optimizer passes that iterate hash maps need several candidates at once: products first,
    // then sums over inputs, products and sums (MulAdd fusion with cross-dependent candidates);
    // duplicate operations over aliased inputs (ALU de-duplication)
    {
        use vpe1::families::{stage, staged};
        v.push(staged("products-2-then-add-2", vec![stage(&[VK::Mul], 2, &[0], true, false), stage(&[VK::Add], 2, &[0, 1, 2], false, false)], &[], 0, 3, &[]));
        v.push(staged("dedup-4ops-2in", vec![stage(&[VK::Add, VK::Mul], 4, &[0], true, false)], &[AK::Connect], 1, 2, &[]));
        if thorough {
            v.push(staged("products-3-then-add-2", vec![stage(&[VK::Mul], 3, &[0], true, false), stage(&[VK::Add], 2, &[0, 1, 2], false, false)], &[], 0, 3, &[]));
            v.push(staged("products-2-then-addsub-3", vec![stage(&[VK::Mul], 2, &[0], true, false), stage(&[VK::Add, VK::Sub], 3, &[0, 1, 2], false, false)], &[], 0, 2, &[]));
            v.push(staged("dedup-5ops-2in", vec![stage(&[VK::Add, VK::Mul], 5, &[0], true, false)], &[AK::Connect], 1, 2, &[]));
        }
    }
    if thorough {
        v.push(f("bin-k3-c2", &[VK::Add, VK::Sub, VK::Mul, VK::Div], &all, 3, 2, 2, 1, &[2], 0));
        v.push(f("mixed-k3-c1", &[VK::Add, VK::Mul, VK::MulAdd, VK::Horner, VK::Bits(2), VK::Bits(3)], &[AK::Connect, AK::AssertZero], 3, 1, 2, 1, &[2], 2));
    }
    v
}

/// Deterministic (sorted) list of the canonical programs of the families.
fn program_list(thorough: bool, ctx: &Ctx) -> (Vec<Program>, bool) {
    let progs: Mutex<Vec<(String, Program)>> = Mutex::new(vec![]);
    let seen = SeenSet::default();
    let mut exhaustive = true;
    for fam in families(thorough) {
        let stats = Stats::default();
        let prune = SeenSet::default();
        let capped = std::sync::atomic::AtomicBool::new(false);
        explore::<F, F>(&fam, &consts(), ctx, 0.25, &seen, &prune, &stats, &|_p, _m| {}, &|p, _m| {
            let mut g = progs.lock().unwrap();
            if g.len() < PROGRAM_CAP {
                g.push((p.show(), p.clone()));
            } else {
                capped.store(true, Ordering::Relaxed);
            }
        });
        exhaustive &= !stats.timed_out.load(Ordering::Relaxed) && !capped.load(Ordering::Relaxed);
        println!("family {} programs so far {} exhaustive={}", fam.name, progs.lock().unwrap().len(), !stats.timed_out.load(Ordering::Relaxed));
    }
    let mut v = progs.into_inner().unwrap();
    // derived programs: every value-only program of at most two calls, emitted twice over aliased
    // inputs with the copy pinned to a public input and three consumers (de-duplication with
    // rewritten slots that are already operands of kept ops)
    {
        let base = Family {
            name: "dupbase-k2-c0".into(),
            value_kinds: vec![VK::Add, VK::Sub, VK::Mul, VK::MulAdd],
            assert_kinds: vec![],
            max_value_ops: 2,
            max_asserts: 0,
            max_pub: 3,
            max_priv: 0,
            consts: vec![2],
            max_wide: 1,
            wide_no_atoms: true,
            sym_reduce: true,
            stages: vec![],
            assert_split: None,
        };
        let derived: Mutex<Vec<(String, Program)>> = Mutex::new(vec![]);
        let (seen2, prune2, stats2) = (SeenSet::default(), SeenSet::default(), Stats::default());
        explore::<F, F>(&base, &consts(), ctx, 0.3, &seen2, &prune2, &stats2, &|_p, _m| {}, &|p, _m| {
            if let Some(q) = vpe1::prog::duplicate_with_aliases(p) {
                if materialize::<F, F>(&q, &consts()).is_ok() {
                    derived.lock().unwrap().push((q.show(), q));
                }
            }
        });
        let d = derived.into_inner().unwrap();
        println!("derived alias-duplicated programs: {}", d.len());
        v.extend(d);
    }
    v.sort_by(|a, b| a.0.cmp(&b.0));
    v.dedup_by(|a, b| a.0 == b.0);
    (v.into_iter().map(|x| x.1).collect(), exhaustive)
}

/// Upper bound on the program list (memory: list + one row of digests per program and
/// environment in flight); families are enumerated smallest first, what exceeds the cap is
/// dropped and the run is reported as not exhaustive.
const PROGRAM_CAP: usize = 2_000_000;

/// Digests of one environment: one row per program (list order, then the library circuits);
/// a row is the list of (interned component name, 64-bit digest of the component's rendering).
type Row = Vec<(u16, u64)>;
type Digests = Vec<Row>;

static NAMES: Mutex<Vec<String>> = Mutex::new(Vec::new());
fn intern(n: &str) -> u16 {
    let mut g = NAMES.lock().unwrap();
    if let Some(i) = g.iter().position(|x| x == n) {
        return i as u16;
    }
    g.push(n.to_string());
    (g.len() - 1) as u16
}
fn name_of(i: u16) -> String {
    NAMES.lock().unwrap()[i as usize].clone()
}
fn compress(comps: Vec<(String, String)>) -> Row {
    // error / panic texts are part of the artefact: digest them like any other component
    comps.into_iter().map(|(k, v)| (intern(&k), h128(&v) as u64)).collect()
}
fn entry_name(list: &[Program], i: usize) -> String {
    if i < list.len() { list[i].show() } else { library()[i - list.len()].0.clone() }
}

fn all_digests(list: &[Program], commit_every: usize) -> Digests {
    let mut out: Digests = list
        .par_iter()
        .enumerate()
        .map(|(i, p)| {
            let r = quiet_catch(|| program_components(p, commit_every > 0 && i % commit_every == 0));
            let comps = match r {
                Ok(Ok(c)) => c.into_iter().map(|(k, v)| (k.to_string(), v)).collect(),
                Ok(Err(e)) => vec![("error".to_string(), e)],
                Err(pn) => vec![("panic".to_string(), pn)],
            };
            compress(comps)
        })
        .collect();
    for (_name, f) in library() {
        let comps = match quiet_catch(|| f()) {
            Ok(Ok(c)) => c.into_iter().map(|(k, v)| (k.to_string(), v)).collect(),
            Ok(Err(e)) => vec![("error".to_string(), e)],
            Err(pn) => vec![("panic".to_string(), pn)],
        };
        out.push(compress(comps));
    }
    out
}

/// order in which a small hashbrown set iterates under the current seed
fn probe_order() -> Vec<u32> {
    let mut s: hashbrown::HashSet<u32> = hashbrown::HashSet::new();
    for k in [1u32, 2, 3, 5, 8, 13] {
        s.insert(k);
    }
    s.iter().copied().collect()
}

fn set_seed(s: Option<u64>) {
    hashbrown::verif_set_hash_seed(s);
}

fn parse_seed(s: &str) -> Option<u64> {
    if s == "random" { None } else { s.parse().ok() }
}

fn main() {
    vpcore::install_quiet_panic_hook();
    // child mode: `c18 --child <seed|random> <quick|thorough> <listfile>` prints digests as JSON
    let args: Vec<String> = std::env::args().collect();
    if args.get(1).map(|s| s.as_str()) == Some("--child") {
        let seed = parse_seed(&args[2]);
        let list: Vec<Program> = vpcore::serde_json::from_str(&std::fs::read_to_string(&args[4]).expect("list file")).expect("list json");
        let every: usize = args[5].parse().unwrap();
        set_seed(seed);
        let d = all_digests(&list, every);
        use std::io::Write;
        let so = std::io::stdout();
        let mut w = std::io::BufWriter::new(so.lock());
        for row in &d {
            let line: Vec<String> = row.iter().map(|(k, v)| format!("{}={v:016x}", name_of(*k))).collect();
            writeln!(w, "ROW {}", line.join(",")).unwrap();
        }
        writeln!(w, "END {}", d.len()).unwrap();
        return;
    }
    let ctx = Ctx::from_args("C18", "exploration");
    let report = Report::new();
    let thorough = !ctx.quick();

    set_seed(None);
    if ctx.opt("libdump").is_some() {
        // debugging aid: raw artefact renderings of the library circuits (seed 0)
        set_seed(Some(0));
        for (name, f) in library() {
            let t = std::time::Instant::now();
            println!("LIB {name}: {:?} ({:.3}s)", quiet_catch(|| f()), t.elapsed().as_secs_f64());
        }
        set_seed(None);
    }
    let (list, list_exhaustive) = program_list(thorough, &ctx);
    let commit_every = if thorough { 20 } else { 50 };
    let seeds: Vec<u64> = (0..if thorough { 64 } else { 8 }).collect();

    // reference: seed 0
    set_seed(Some(0));
    let base = all_digests(&list, commit_every);
    let mut orders: BTreeMap<String, u64> = BTreeMap::new();
    *orders.entry(format!("{:?}", probe_order())).or_insert(0) += 1;
    // library circuits: what was produced under seed 0 (an entry that stops at an error has
    // fewer artefacts to compare; listed in the coverage)
    let mut library_incomplete: Vec<String> = vec![];
    for i in list.len()..base.len() {
        let names: Vec<String> = base[i].iter().map(|(k, _)| name_of(*k)).collect();
        let full = names.iter().any(|n| n == "commitment");
        if !full {
            library_incomplete.push(format!("{}: {:?}", entry_name(&list, i), names));
        }
        if ctx.opt("libdump").is_some() {
            println!("library {} components={} full={full} {:?}", entry_name(&list, i), names.len(), base[i].iter().map(|(k, v)| format!("{}={v:016x}", name_of(*k))).collect::<Vec<_>>());
        }
    }
    let evaluations = AtomicU64::new(base.len() as u64);
    let mut runs_done = vec![json!({"mode": "seed", "seed": 0})];
    let mut complete = true;

    let compare = |other: &Digests, mode: &str| {
        if other.len() != base.len() {
            report.violation(format!("missing_program:{mode}"), format!("{} rows under {mode}, {} under seed 0", other.len(), base.len()), json!({"mode": mode}));
        }
        for (i, (comps, o)) in base.iter().zip(other.iter()).enumerate() {
            if comps == o {
                continue;
            }
            let name = entry_name(&list, i);
            // library circuits: the family is the name up to an optional '|' (instances of one
            // construction over several fields share a family)
            let fam = if name.starts_with("lib:") { name.split('|').next().unwrap().to_string() } else { "e1-program".to_string() };
            if comps.len() != o.len() {
                report.violation(format!("nondeterministic:shape:{fam}"), format!("{name}: different component list under {mode}"), json!({"program": name, "mode_b": mode}));
                continue;
            }
            for ((k, v), (k2, v2)) in comps.iter().zip(o.iter()) {
                if k != k2 || v != v2 {
                    let k = name_of(*k);
                    report.violation_sized(
                        format!("nondeterministic:{k}:{fam}"),
                        format!("[{k}] of `{name}` differs between seed 0 and {mode}: {v:016x} vs {v2:016x}"),
                        json!({"program": name, "component": k, "mode_a": "seed 0", "mode_b": mode}),
                        name.len(),
                    );
                    break;
                }
            }
        }
    };

    for &s in &seeds[1..] {
        if ctx.used() > 0.8 {
            complete = false;
            break;
        }
        set_seed(Some(s));
        *orders.entry(format!("{:?}", probe_order())).or_insert(0) += 1;
        let d = all_digests(&list, commit_every);
        evaluations.fetch_add(d.len() as u64, Ordering::Relaxed);
        compare(&d, &format!("seed {s}"));
        runs_done.push(json!({"mode": "seed", "seed": s}));
    }
    // upstream random seeding, twice
    for r in 0..2 {
        if ctx.used() > 0.85 {
            complete = false;
            break;
        }
        set_seed(None);
        let d = all_digests(&list, commit_every);
        evaluations.fetch_add(d.len() as u64, Ordering::Relaxed);
        compare(&d, &format!("random seeding round {r}"));
        runs_done.push(json!({"mode": "random", "round": r}));
    }
    // fresh processes
    let exe = std::env::current_exe().unwrap();
    let tmp = exe.parent().unwrap().join(format!("c18-list-{}.json", std::process::id()));
    std::fs::write(&tmp, vpcore::serde_json::to_string(&list).unwrap()).unwrap();
    let child_modes: Vec<&str> = if thorough { vec!["0", "3", "17", "random", "random"] } else { vec!["0", "5", "random"] };
    for m in &child_modes {
        if ctx.used() > 0.95 {
            complete = false;
            break;
        }
        let out = Command::new(&exe).args(["--child", m, ctx.tier.as_str(), tmp.to_str().unwrap(), &commit_every.to_string()]).output();
        match out {
            Ok(o) if o.status.success() => {
                let txt = String::from_utf8_lossy(&o.stdout);
                let mut d: Digests = Vec::with_capacity(base.len());
                let mut ended = None;
                for line in txt.lines() {
                    if let Some(rest) = line.strip_prefix("ROW ") {
                        let row: Row = rest
                            .split(',')
                            .filter(|x| !x.is_empty())
                            .map(|kv| {
                                let (k, v) = kv.rsplit_once('=').unwrap_or_else(|| vpcore::machinery_error("child row unreadable"));
                                (intern(k), u64::from_str_radix(v, 16).unwrap_or_else(|_| vpcore::machinery_error("child digest unreadable")))
                            })
                            .collect();
                        d.push(row);
                    } else if let Some(n) = line.strip_prefix("END ") {
                        ended = n.trim().parse::<usize>().ok();
                    }
                }
                if ended != Some(d.len()) {
                    vpcore::machinery_error("child output truncated");
                }
                evaluations.fetch_add(d.len() as u64, Ordering::Relaxed);
                compare(&d, &format!("child process ({m})"));
                runs_done.push(json!({"mode": "child", "seed": m}));
            }
            Ok(o) => vpcore::machinery_error(&format!("child failed: {}", String::from_utf8_lossy(&o.stderr))),
            Err(e) => vpcore::machinery_error(&format!("cannot spawn child: {e}")),
        }
    }
    let _ = std::fs::remove_file(&tmp);
    set_seed(None);

    let (e_id, p_id) = (intern("error"), intern("panic"));
    let n_err = base.iter().filter(|c| c.iter().any(|(k, _)| *k == e_id || *k == p_id)).count();
    let samples: Vec<Value> = (0..base.len())
        .filter(|i| entry_name(&list, *i).len() > 30)
        .take(4)
        .map(|i| json!({"program": entry_name(&list, i), "components": base[i].iter().map(|(k, v)| (name_of(*k), format!("{v:016x}"))).collect::<Vec<_>>()}))
        .collect();
    let cov = json!({
        "evaluations": evaluations.load(Ordering::Relaxed),
        "distinct_nontrivial": base.len() - n_err,
        "rule": "an evaluation = all artefacts of one program built under one environment (hash seed / random seeding / child process); distinct_nontrivial = distinct programs whose full artefact set was produced (no build/prep error)",
        "samples": samples,
        "programs": base.len(),
        "e1_program_list_exhaustive": list_exhaustive,
        "library_circuits": library().iter().map(|(n, _)| n.clone()).collect::<Vec<_>>(),
        "library_circuits_without_full_artefact_set": library_incomplete,
        "environments": runs_done,
        "seeds_enumerated": seeds.len(),
        "exhaustive": list_exhaustive && complete,
        "hash_iteration_orders_of_a_6_element_probe_set": orders,
        "components_compared": base.first().map(|v| v.iter().map(|(k, _)| name_of(*k)).collect::<Vec<_>>()),
        "program_cap": PROGRAM_CAP,
        "commitment_every_nth_program": commit_every,
    });
    finish(
        &ctx,
        cov,
        vec![
            "hash seeds are an owned environment answer through vendor/hashbrown-ctl (identical to hashbrown 0.17.1 except for the seed source)".into(),
            "thread schedules are not explored (the only parallel code, Poseidon trace generation, is behind the off-by-default `parallel` feature)".into(),
        ],
        &report,
    );
}
