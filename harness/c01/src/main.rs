//! C01 — in-circuit STARK verification agrees with native verification.
//!
//! Enumerated: for every configuration of the finite E4 catalogue (both tiers: all; quick uses one fault kind per leaf),
//! the honest (proof, public values, preprocessed commitment / common data) object and EVERY
//! single-leaf value fault of its JSON tree: every field-element coefficient, digest word, PoW
//! witness, public value ← leaf+1 mod p (thorough also ← 0 and ← neighbouring leaf of the same
//! class), every structural integer (`degree_bits`, `log_arity`, preprocessed metadata) ← ±1.
//! Oracle: verdict of Plonky3's native verifier == verdict of the repository's verification
//! circuit (built for the faulted object's shape with the real API, packed with the inputs
//! builder, run with the real runner). Native-accept/circuit-reject or native-reject/circuit-accept
//! is a violation, keyed by configuration + leaf path class + direction.

use std::collections::BTreeMap;
use std::sync::Mutex;
use std::sync::atomic::{AtomicU64, Ordering};
use std::time::Instant;

use vpcore::rayon::prelude::*;
use vpcore::serde_json::{Value, json};
use vpcore::{Ctx, Histo, Report, finish, machinery_error};
use vpe4::{Fixture, Forge, Leaf, LeafKind, ValueFault, Verdict, catalogue, faulted_value, leaves, parse_path, path_string, with_leaf};

#[derive(Clone)]
struct Case {
    leaf_idx: usize,
    fault: ValueFault,
    new_value: u64,
}

#[derive(Default, Clone)]
struct ClassRow {
    evals: u64,
    native_reject: u64,
    both_accept: u64,
    circuit_panic: u64,
    not_a_proof: u64,
}

#[derive(Clone, Copy, PartialEq, Eq, Debug)]
enum Outcome {
    AgreeReject,
    BothAccept,
    NotAProof,
    /// native accepts, circuit rejects
    FalseReject,
    /// native rejects, circuit accepts
    FalseAccept,
}

/// Judge one tree. A disagreement seen with the cached circuit is re-judged with a circuit built
/// from scratch for exactly this tree, so the per-skeleton cache can never create a violation.
fn judge(fx: &Fixture, tree: &Value, cache_mismatch: &AtomicU64) -> (Outcome, Verdict, Verdict) {
    let n = fx.native_verify(tree);
    if n.not_a_proof() {
        return (Outcome::NotAProof, n.clone(), n);
    }
    let mut c = fx.circuit_verify(tree);
    if c.not_a_proof() {
        return (Outcome::NotAProof, n, c);
    }
    if n.accepts() != c.accepts() {
        let fresh = fx.circuit_verify_fresh(tree);
        if fresh.accepts() != c.accepts() {
            cache_mismatch.fetch_add(1, Ordering::Relaxed);
        }
        c = fresh;
    }
    let o = match (n.accepts(), c.accepts()) {
        (true, true) => Outcome::BothAccept,
        (false, false) => Outcome::AgreeReject,
        (true, false) => Outcome::FalseReject,
        (false, true) => Outcome::FalseAccept,
    };
    (o, n, c)
}

fn direction(o: Outcome) -> &'static str {
    match o {
        Outcome::FalseReject => "native_accept_circuit_reject",
        Outcome::FalseAccept => "native_reject_circuit_accept",
        _ => "",
    }
}

fn fault_kinds(ctx: &Ctx, kind: LeafKind) -> Vec<ValueFault> {
    match (ctx.quick(), kind) {
        (true, LeafKind::Field) => vec![ValueFault::PlusOne],
        (true, LeafKind::Structural) => vec![ValueFault::PlusOne, ValueFault::MinusOne],
        (false, LeafKind::Field) => vec![ValueFault::PlusOne, ValueFault::Zero, ValueFault::Neighbour],
        (false, LeafKind::Structural) => vec![ValueFault::PlusOne, ValueFault::MinusOne, ValueFault::Zero],
    }
}

fn replay(ctx: &Ctx, path: &std::path::Path) -> ! {
    let r = vpcore::load_replay(path);
    let cfg = r["config"].as_str().unwrap_or_else(|| machinery_error("replay: no config"));
    let spec = vpe4::find_spec(cfg).unwrap_or_else(|| machinery_error(&format!("replay: unknown config {cfg}")));
    let fx = (spec.make)().unwrap_or_else(|e| machinery_error(&e));
    let report = Report::new();
    let cm = AtomicU64::new(0);
    let tree = if r["honest"].as_bool().unwrap_or(false) {
        fx.honest.clone()
    } else if let Some(f) = Forge::from_json(&r["forge"]) {
        fx.forge(&f).unwrap_or_else(|e| machinery_error(&format!("replay: forging failed: {e}")))
    } else {
        let p = parse_path(r["path"].as_str().unwrap_or(""));
        let nv = r["new_value"].as_u64().unwrap_or_else(|| machinery_error("replay: no new_value"));
        with_leaf(&fx.honest, &p, nv)
    };
    let (o, n, c) = judge(&fx, &tree, &cm);
    println!("replaying {cfg} {} -> native {} | circuit {} => {:?}", r["path"], n.tag(), c.tag(), o);
    if matches!(o, Outcome::FalseAccept | Outcome::FalseReject) {
        let key = format!("{}|{}|{}", cfg, r["class"].as_str().unwrap_or("honest"), direction(o));
        report.violation(key, format!("native {} but circuit {}", n.tag(), c.tag()), r.clone());
    }
    let cov = json!({"evaluations": 1, "distinct_nontrivial": 2, "rule": "replay of one stored case (native + circuit verdict)",
                     "samples": [{"config": cfg, "path": r["path"], "native": n.to_json(), "circuit": c.to_json()}], "replay": true});
    finish(ctx, cov, vec![], &report)
}

fn main() {
    let ctx = Ctx::from_args("C01", "fault_enumeration");
    vpcore::install_quiet_panic_hook();
    if let Some(p) = &ctx.replay {
        replay(&ctx, &p.clone());
    }
    let report = Report::new();
    let verdicts = Histo::new();
    let cache_mismatch = AtomicU64::new(0);

    let missing = vpe4::catalogue::missing_quick_names();
    if !missing.is_empty() {
        machinery_error(&format!("quick-tier names missing from the catalogue: {missing:?}"));
    }
    let filter = ctx.opt("config").map(|s| s.to_string());
    // Both tiers sweep the whole catalogue (quick with fewer fault kinds per leaf). The flagged
    // cross-section goes first, so that a slow machine — every loop watches the budget — loses
    // breadth at the tail, never the representative core.
    let mut specs: Vec<_> = catalogue()
        .into_iter()
        .filter(|s| match &filter {
            Some(f) => s.name.contains(f.as_str()),
            None => true,
        })
        .collect();
    specs.sort_by_key(|s| !s.quick);
    if specs.is_empty() {
        machinery_error("no configuration selected");
    }

    let mut per_config = vec![];
    let mut samples: Vec<Value> = vec![];
    let mut both_accept_list: Vec<Value> = vec![];
    let mut panic_notes: BTreeMap<String, u64> = BTreeMap::new();
    let (mut evaluations, mut nontrivial, mut planned_total, mut skipped_total) = (0u64, 0u64, 0u64, 0u64);
    let mut configs_done = 0usize;
    let mut exhaustive = true;
    let n_specs = specs.len();

    for spec in specs {
        if ctx.out_of_time() || (ctx.quick() && ctx.used() > 0.85) {
            exhaustive = false;
            break;
        }
        let t0 = Instant::now();
        let fx = (spec.make)().unwrap_or_else(|e| machinery_error(&format!("cannot build fixture: {e}")));

        // ---- honest object: both sides must accept
        let (o, n, c) = judge(&fx, &fx.honest, &cache_mismatch);
        verdicts.add(&format!("honest:{}|{}", n.tag(), c.tag()));
        evaluations += 1;
        match o {
            Outcome::BothAccept => {}
            Outcome::FalseReject => {
                report.violation(
                    format!("{}|honest|{}", fx.name, direction(o)),
                    format!("honest proof: native accepts, circuit {}", c.tag()),
                    json!({"config": fx.name, "honest": true, "native": n.to_json(), "circuit": c.to_json()}),
                );
                // the fault sweep is meaningless without an accepted baseline
                eprintln!("[C01] {} HONEST: native {} circuit {}", fx.name, n.tag(), c.to_json());
                per_config.push(json!({"config": fx.name, "desc": fx.desc,
                    "honest": "native accept / circuit reject (reported; fault sweep not applicable without an accepted baseline)",
                    "native": n.to_json(), "circuit": c.to_json()}));
                configs_done += 1;
                fx.release_thread_engine();
                continue;
            }
            _ => machinery_error(&format!(
                "fixture {}: honest object not accepted natively (native {}, circuit {})",
                fx.name,
                n.tag(),
                c.tag()
            )),
        }

        // ---- every single-leaf value fault
        let all: Vec<Leaf> = leaves(&fx.honest);
        let mut cases: Vec<Case> = vec![];
        for (i, l) in all.iter().enumerate() {
            for f in fault_kinds(&ctx, l.kind) {
                if let Some(nv) = faulted_value(l, i, &all, f, fx.modulus) {
                    cases.push(Case { leaf_idx: i, fault: f, new_value: nv });
                }
            }
        }
        planned_total += cases.len() as u64;
        let classes: Mutex<BTreeMap<String, ClassRow>> = Mutex::new(BTreeMap::new());
        let skipped = AtomicU64::new(0);
        let local_samples: Mutex<Vec<Value>> = Mutex::new(vec![]);
        let local_both: Mutex<Vec<Value>> = Mutex::new(vec![]);
        let local_panics: Mutex<BTreeMap<String, u64>> = Mutex::new(BTreeMap::new());
        let (ev, nt) = (AtomicU64::new(0), AtomicU64::new(0));

        cases.par_iter().for_each(|case| {
            if ctx.out_of_time() {
                skipped.fetch_add(1, Ordering::Relaxed);
                return;
            }
            let leaf = &all[case.leaf_idx];
            let tree = with_leaf(&fx.honest, &leaf.path, case.new_value);
            let (o, n, c) = judge(&fx, &tree, &cache_mismatch);
            ev.fetch_add(1, Ordering::Relaxed);
            verdicts.add(&format!("{}|{}", n.tag(), c.tag()));
            let mut g = classes.lock().unwrap();
            let row = g.entry(leaf.class.clone()).or_default();
            row.evals += 1;
            match o {
                Outcome::NotAProof => row.not_a_proof += 1,
                Outcome::BothAccept => row.both_accept += 1,
                Outcome::AgreeReject | Outcome::FalseAccept => row.native_reject += 1,
                Outcome::FalseReject => {}
            }
            if c.is_panic() {
                row.circuit_panic += 1;
            }
            drop(g);
            if n.rejects() {
                nt.fetch_add(1, Ordering::Relaxed);
            }
            let case_json = || {
                json!({"config": fx.name, "path": path_string(&leaf.path), "class": leaf.class,
                       "kind": format!("{:?}", leaf.kind), "fault": case.fault.tag(), "old_value": leaf.value,
                       "new_value": case.new_value, "native": n.to_json(), "circuit": c.to_json()})
            };
            match o {
                Outcome::FalseAccept | Outcome::FalseReject => {
                    report.violation(
                        format!("{}|{}|{}", fx.name, leaf.class, direction(o)),
                        format!(
                            "{} leaf {} {}→{}: native {} but circuit {}",
                            fx.name,
                            path_string(&leaf.path),
                            leaf.value,
                            case.new_value,
                            n.tag(),
                            c.tag()
                        ),
                        case_json(),
                    );
                }
                Outcome::BothAccept => {
                    let mut b = local_both.lock().unwrap();
                    if b.len() < 20 {
                        b.push(case_json());
                    }
                }
                Outcome::AgreeReject => {
                    if c.is_panic() || n.is_panic() {
                        // noted, not judged here (C15 owns the no-panic clause)
                        let who = if c.is_panic() { format!("circuit {}", c.tag()) } else { format!("native {}", n.tag()) };
                        *local_panics.lock().unwrap().entry(format!("{} @ {}", who, leaf.class)).or_insert(0) += 1;
                    }
                    let mut s = local_samples.lock().unwrap();
                    if s.len() < 2 {
                        s.push(case_json());
                    }
                }
                Outcome::NotAProof => {}
            }
        });

        // ---- prover-side deviations: every main-trace cell +1 / every public value +1, proved by the
        // real prover. These objects pass every hash-based check, so only the algebraic checks
        // (constraint/quotient identity, lookup terminal sum) can reject them.
        let forge_failed = AtomicU64::new(0);
        let forged_ev = AtomicU64::new(0);
        planned_total += fx.forge_space.len() as u64;
        fx.forge_space.par_iter().for_each(|f| {
            if ctx.out_of_time() {
                skipped.fetch_add(1, Ordering::Relaxed);
                return;
            }
            let tree = match fx.forge(f) {
                Ok(t) => t,
                Err(e) => {
                    forge_failed.fetch_add(1, Ordering::Relaxed);
                    verdicts.add(&format!("forge_failed:{}", e.rsplit(" @ ").next().unwrap_or("")));
                    return;
                }
            };
            let (o, n, c) = judge(&fx, &tree, &cache_mismatch);
            ev.fetch_add(1, Ordering::Relaxed);
            forged_ev.fetch_add(1, Ordering::Relaxed);
            verdicts.add(&format!("forged:{}|{}", n.tag(), c.tag()));
            let class = f.class();
            {
                let mut g = classes.lock().unwrap();
                let row = g.entry(class.clone()).or_default();
                row.evals += 1;
                match o {
                    Outcome::NotAProof => row.not_a_proof += 1,
                    Outcome::BothAccept => row.both_accept += 1,
                    Outcome::AgreeReject | Outcome::FalseAccept => row.native_reject += 1,
                    Outcome::FalseReject => {}
                }
                if c.is_panic() {
                    row.circuit_panic += 1;
                }
            }
            if n.rejects() {
                nt.fetch_add(1, Ordering::Relaxed);
            }
            let case_json = || {
                json!({"config": fx.name, "forge": f.to_json(), "path": f.show(), "class": class,
                       "native": n.to_json(), "circuit": c.to_json()})
            };
            match o {
                Outcome::FalseAccept | Outcome::FalseReject => report.violation(
                    format!("{}|{}|{}", fx.name, class, direction(o)),
                    format!("{} {}: native {} but circuit {}", fx.name, f.show(), n.tag(), c.tag()),
                    case_json(),
                ),
                Outcome::BothAccept => {
                    let mut b = local_both.lock().unwrap();
                    if b.len() < 60 {
                        b.push(case_json());
                    }
                }
                Outcome::AgreeReject => {
                    let mut s = local_samples.lock().unwrap();
                    if s.len() < 3 {
                        s.push(case_json());
                    }
                }
                Outcome::NotAProof => {}
            }
        });

        let classes = classes.into_inner().unwrap();
        let sk = skipped.load(Ordering::Relaxed);
        if sk > 0 {
            exhaustive = false;
        }
        skipped_total += sk;
        evaluations += ev.load(Ordering::Relaxed);
        nontrivial += nt.load(Ordering::Relaxed);
        let both: u64 = classes.values().map(|r| r.both_accept).sum();
        let nap: u64 = classes.values().map(|r| r.not_a_proof).sum();
        for (k, v) in local_panics.into_inner().unwrap() {
            *panic_notes.entry(k).or_insert(0) += v;
        }
        samples.extend(local_samples.into_inner().unwrap());
        both_accept_list.extend(local_both.into_inner().unwrap());
        let class_json: BTreeMap<String, Value> = classes
            .iter()
            .map(|(k, r)| (k.clone(), json!([r.evals, r.native_reject, r.both_accept, r.circuit_panic, r.not_a_proof])))
            .collect();
        let n_field = all.iter().filter(|l| l.kind == LeafKind::Field).count();
        per_config.push(json!({
            "config": fx.name, "desc": fx.desc, "honest": "accepted by both",
            "leaves": all.len(), "field_leaves": n_field, "structural_leaves": all.len() - n_field,
            "leaf_classes": classes.len(), "faults_planned": cases.len(), "faults_evaluated": ev.load(Ordering::Relaxed),
            "forged_objects_planned": fx.forge_space.len(), "forged_objects_evaluated": forged_ev.load(Ordering::Relaxed),
            "forge_failed": forge_failed.load(Ordering::Relaxed),
            "faults_skipped_out_of_time": sk, "native_reject": nt.load(Ordering::Relaxed), "both_accept": both,
            "not_a_proof": nap, "circuit": fx.stats.to_json(), "wall_s": t0.elapsed().as_secs_f64(),
            "per_class[evals,native_reject,both_accept,circuit_panic,not_a_proof]": class_json,
        }));
        configs_done += 1;
        eprintln!(
            "[C01] t={:.1}s {} leaves={} faults={} native_reject={} both_accept={} {:.1}s",
            ctx.elapsed_s(),
            fx.name,
            all.len(),
            ev.load(Ordering::Relaxed),
            nt.load(Ordering::Relaxed),
            both,
            t0.elapsed().as_secs_f64()
        );
        // free this configuration's per-thread engines (circuit caches)
        vpcore::rayon::broadcast(|_| fx.release_thread_engine());
        fx.release_thread_engine();
    }
    if configs_done < n_specs {
        exhaustive = false;
    }

    samples.truncate(6);
    both_accept_list.truncate(120);
    let cov = json!({
        "evaluations": evaluations,
        "distinct_nontrivial": nontrivial,
        "rule": "one evaluation = one tree (honest object or one single-leaf fault) judged by BOTH the native verifier and the \
                 verification circuit; distinct = distinct (configuration, leaf path, fault kind); non-trivial = the native \
                 verifier REJECTS the faulted object, so the circuit's rejection is a real check (faults both sides accept are \
                 listed under both_accept)",
        "exhaustive": exhaustive,
        "space": "configurations × (honest + every numeric leaf × fault kinds + every prover-side deviation: each main-trace cell +1 and each public value +1, proved by the real prover); quick: leaf+1 (structural ±1); thorough: +1, 0, neighbour (structural ±1, 0)",
        "configurations_planned": n_specs,
        "configurations_done": configs_done,
        "faults_planned": planned_total,
        "faults_skipped_out_of_time": skipped_total,
        "verdict_histogram[native|circuit]": verdicts.to_json(),
        "both_accept": both_accept_list,
        "panics_while_other_side_rejects": panic_notes,
        "cached_vs_fresh_circuit_mismatch": cache_mismatch.load(Ordering::Relaxed),
        "per_config": per_config,
        "samples": samples,
    });
    let assumptions = vec![
        "native Plonky3 0.6.3 verifiers (p3-uni-stark verify_with_preprocessed, p3-batch-stark verify_batch) are the specification; for circuit-table proofs the native judge is BatchStarkProver::verify_all_tables (thin wrapper over verify_batch)".to_string(),
        "single faults only; fault values +1 (thorough: 0 and neighbour) — not every field value".to_string(),
        "circuit verdict = runner outcome on honestly packed inputs (pack_values + set_*_mmcs_private_data of the faulted object); satisfiability by other private witnesses is C04/C06 territory".to_string(),
        "the verification circuit is cached per tree skeleton (shape incl. structural integers); every disagreement is re-judged with a freshly built circuit".to_string(),
    ];
    finish(&ctx, cov, assumptions, &report)
}
