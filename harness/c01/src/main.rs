fn main() {
    eprintln!("MACHINERY-ERROR: check c01 not built yet");
    std::process::exit(2);
}
