fn main() {
    eprintln!("MACHINERY-ERROR: check c02 not built yet");
    std::process::exit(2);
}
