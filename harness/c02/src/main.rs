//! C02 — compilation preserves the value of every expression and the run outcome.
//!
//! Exhaustive exploration (E1) of builder programs within stated family bounds; every
//! program is compiled by the real builder and run by the real runner on every input vector
//! over a value alphabet; oracle = reference semantics (E2, call level and node level).
//! Two passes over the same code (`pass.rs`): element field = BabyBear (all families) and
//! = its degree-4 extension (a reduced family list, extension-valued constants and inputs).

use vpcore::serde_json::json;
use vpcore::{Ctx, Report, finish};
use vpe1::families::families;
use vpe1::prog::Program;

macro_rules! pass_module {
    ($name:ident, $field:ty, $consts:expr, $values:expr, $show:expr, $prove:expr) => {
        mod $name {
            use std::sync::atomic::{AtomicU64, Ordering};
            use std::sync::Mutex;

            use p3_baby_bear::BabyBear;
            use p3_circuit::{Circuit, Traces};
            #[allow(unused_imports)]
            use p3_field::{BasedVectorSpace, PrimeCharacteristicRing, PrimeField64};
            use vpcore::serde_json::{Value, json};
            use vpcore::{Ctx, Histo, Report};
            use vpe1::explore::{SeenSet, Stats, explore, input_vectors};
            use vpe1::prog::{Materialized, Program, eval_nodes, materialize, node_rels_hold, ref_eval};

            pub type F = $field;
            pub fn consts() -> Vec<F> {
                $consts
            }
            /// Input alphabet, shrinking with the number of inputs so that |alphabet|^n stays small.
            pub fn values_for(n: usize) -> Vec<F> {
                let all: Vec<F> = $values;
                match n {
                    0..=2 => all,
                    3 => all[..4].to_vec(),
                    4 => vec![all[0], all[1], all[3]],
                    _ => vec![all[1], all[3]],
                }
            }
            pub fn fu(x: &F) -> String {
                ($show)(x)
            }
            fn prove_verify(circuit: &Circuit<F>, traces: &Traces<F>) -> vpe1::accept::Verdict {
                ($prove)(circuit, traces)
            }
            include!("pass.rs");
        }
    };
}

pass_module!(
    d1,
    BabyBear,
    vec![F::ZERO, F::ONE, F::from_u64(5), F::from_u64(7), -F::from_u64(5)],
    vec![F::ZERO, F::ONE, F::TWO, F::from_u64(3), F::NEG_ONE],
    |x: &F| format!("{}", x.as_canonical_u64()),
    |c: &Circuit<F>, t: &Traces<F>| vpe1::accept::prove_verify_bb1(c, t, &p3_circuit_prover::batch_stark_prover::TablePacking::default())
);

pass_module!(
    d4,
    p3_field::extension::BinomialExtensionField<BabyBear, 4>,
    {
        let e = |c: [u64; 4]| F::from_basis_coefficients_slice(&c.map(BabyBear::from_u64)).unwrap();
        vec![F::ZERO, F::ONE, e([5, 0, 1, 0]), e([7, 3, 0, 2]), -e([5, 0, 1, 0])]
    },
    {
        let e = |c: [u64; 4]| F::from_basis_coefficients_slice(&c.map(BabyBear::from_u64)).unwrap();
        vec![F::ZERO, F::ONE, e([0, 1, 0, 0]), e([2, 3, 5, 7]), F::NEG_ONE]
    },
    |x: &F| format!("{:?}", <F as BasedVectorSpace<BabyBear>>::as_basis_coefficients_slice(x).iter().map(|c| c.as_canonical_u64()).collect::<Vec<_>>()),
    |c: &Circuit<F>, t: &Traces<F>| vpe1::accept::prove_verify_bb4(c, t)
);

fn main() {
    vpcore::install_quiet_panic_hook();
    let ctx = Ctx::from_args("C02", "model_checking");
    let report = Report::new();

    if let Some(path) = &ctx.replay {
        let r = vpcore::load_replay(path);
        let p: Program = vpcore::serde_json::from_value(r["program"].clone())
            .unwrap_or_else(|e| vpcore::machinery_error(&format!("bad replay: {e}")));
        if r["pass"].as_str().unwrap_or("") == "d4:" {
            d4::replay_pass(&p, &report, "d4:");
        } else {
            d1::replay_pass(&p, &report, "");
        }
        let cov = json!({"states":1,"transitions":1,"traces_validated_against_impl":1,"samples":[p.show()],"replay":true});
        finish(&ctx, cov, vec![], &report);
    }

    let mut fams = families(!ctx.quick());
    if let Some(f) = ctx.opt("family") {
        fams = families(true).into_iter().chain(families(false)).filter(|x| x.name == f).collect();
    }
    // extension-field pass: the small and the staged families
    let d4_names: &[&str] = if ctx.quick() {
        &["sum-of-products-3+2", "dedup-chain-4ops-2in", "wide2-k2-c0", "conn3-k2", "bits-k2-c1", "horner-k2-c0"]
    } else {
        &["sum-of-products-3+2", "dedup-chain-4ops-2in", "wide2-k2-c0", "conn3-k2", "bits-k2-c2", "horner-k2-c1", "products-2-then-addsub-3", "dup-ops-3-conn2", "wide1-k2-c1"]
    };
    let d4_fams: Vec<vpe1::Family> = fams.iter().filter(|f| d4_names.contains(&f.name.as_str())).cloned().collect();
    let only = ctx.opt("pass").unwrap_or("both").to_string();
    let (pb1, pb4) = if ctx.quick() { (20000, 3000) } else { (400000, 60000) };
    let c1 = if only != "d4" { d1::run_pass(&ctx, &report, &fams, "", 0.78, pb1) } else { json!({"states":0,"transitions":0,"runs":0,"samples":[],"exhaustive":true}) };
    let c4 = if only != "d1" { d4::run_pass(&ctx, &report, &d4_fams, "d4:", 0.95, pb4) } else { json!({"states":0,"transitions":0,"runs":0,"samples":[],"exhaustive":true}) };
    let n = |v: &vpcore::serde_json::Value, k: &str| v[k].as_u64().unwrap_or(0);
    let mut samples = c1["samples"].as_array().cloned().unwrap_or_default();
    samples.extend(c4["samples"].as_array().cloned().unwrap_or_default());
    let cov = json!({
        "states": n(&c1, "states") + n(&c4, "states"),
        "transitions": n(&c1, "transitions") + n(&c4, "transitions"),
        "traces_validated_against_impl": n(&c1, "runs") + n(&c4, "runs"),
        "samples": samples,
        "state_definition": "a state is a builder program (history of builder calls) identified by the H1 snapshot of the real CircuitBuilder (DAG nodes + connect set); a transition appends one builder call; every state is compiled by the real builder and executed by the real runner on every input vector over the value alphabet",
        "exhaustive": c1["exhaustive"].as_bool().unwrap_or(false) && c4["exhaustive"].as_bool().unwrap_or(false),
        "pass_babybear_d1": c1,
        "pass_babybear_ext4": c4,
    });
    finish(
        &ctx,
        cov,
        vec![
            "reference semantics (vpe1::prog::ref_eval / eval_nodes) is the specification of expression values".into(),
            "values range over a 5-element alphabet per element field; program structure is exhaustive within each family's bounds".into(),
            "clause (ii) uses the repository's prover+verifier (BabyBear, D=1 / D=4, default packing, test-grade FRI parameters) as acceptance oracle".into(),
        ],
        &report,
    );
}
