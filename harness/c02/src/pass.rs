// Field-generic body of the C02 check; included once per element field (see main.rs).
// The including module defines: type F, consts(), values_for(n), fu(&F) -> String, prove_verify().



fn vectors(n: usize) -> Vec<Vec<F>> {
    let mut v = input_vectors(&values_for(n), n);
    if n >= 5 {
        v.push(vec![F::ZERO; n]);
        v.push((0..n).map(|i| F::from_u64(2 + i as u64 * 3)).collect());
    }
    v
}

#[derive(Clone, Debug, PartialEq, Eq)]
enum Clause {
    /// builder call returned a node whose mathematical value differs from the call's
    Api,
    /// satisfying input, run Ok, some expression's slot holds a different value
    Value,
    /// satisfying input, run failed
    RunFails,
    /// violated relation, run Ok, and the trace is accepted by prover+verifier
    UnsatAccepted,
}
impl Clause {
    fn tag(&self) -> &'static str {
        match self {
            Clause::Api => "api",
            Clause::Value => "value",
            Clause::RunFails => "run_fails",
            Clause::UnsatAccepted => "unsat_accepted",
        }
    }
}

struct Found {
    clause: Clause,
    detail: String,
    inputs: Vec<String>,
}

fn split_inputs(m_pub: usize, v: &[F]) -> (Vec<F>, Vec<F>) {
    (v[..m_pub].to_vec(), v[m_pub..].to_vec())
}

fn run_circuit(circuit: &Circuit<F>, pubs: &[F], privs: &[F]) -> Result<Traces<F>, String> {
    let mut r = circuit.runner();
    r.set_public_inputs(pubs).map_err(|e| format!("{e:?}"))?;
    r.set_private_inputs(privs).map_err(|e| format!("{e:?}"))?;
    r.run().map_err(|e| format!("{e:?}"))
}

/// Input vectors of one program: the alphabet vectors, and for programs with bit decompositions
/// additionally 5 (fits 3 bits, not 2) and 9 (fits neither) on one input position at a time: a
/// decomposition must be judged at its own width even when the same value was decomposed at
/// another width before.
fn vectors_for(p: &Program, n_in: usize) -> Vec<Vec<F>> {
    let mut vecs = vectors(n_in);
    if n_in > 0 && n_in <= 2 && p.calls.iter().any(|c| matches!(c, vpe1::prog::Call::Bits(..))) {
        for extra in [5u64, 9] {
            for pos in 0..n_in {
                for base in [F::ZERO, F::ONE] {
                    let mut v = vec![base; n_in];
                    v[pos] = F::from_u64(extra);
                    vecs.push(v);
                }
            }
        }
    }
    vecs
}

/// satisfiability signature per compiler input (the explorer compiles and runs only the FIRST
/// history that reaches a builder DAG): two call histories that give the builder the same DAG
/// must mean the same thing
static SAT_SIGS: std::sync::OnceLock<Vec<std::sync::Mutex<std::collections::HashMap<u128, (Vec<u8>, String)>>>> = std::sync::OnceLock::new();

/// Cheap check on every history: call-level value == node-level value of the returned node, and
/// call-level satisfiability == that of every other history with the same DAG.
fn check_api(p: &Program, m: &Materialized<F>, cs: &[F]) -> Option<Found> {
    let vecs = vectors_for(p, m.n_pub + m.n_priv);
    {
        let sig: Vec<u8> = vecs
            .iter()
            .map(|v| {
                let (pubs, privs) = split_inputs(m.n_pub, v);
                let re = ref_eval::<BabyBear, F>(p, cs, &pubs, &privs);
                if re.undefined { 2 } else if re.sat { 1 } else { 0 }
            })
            .collect();
        let key = vpe1::explore::h128(&m.key());
        let shards = SAT_SIGS.get_or_init(|| (0..64).map(|_| Default::default()).collect());
        let mut g = shards[(key as usize) % 64].lock().unwrap();
        match g.get(&key) {
            None => {
                g.insert(key, (sig, p.show()));
            }
            // positions where either history is outside the reference model's domain (division
            // by zero) are not compared
            Some((s0, p0)) if s0.len() == sig.len() && s0.iter().zip(sig.iter()).any(|(a, b)| *a != 2 && *b != 2 && a != b) => {
                let i = s0.iter().zip(sig.iter()).position(|(a, b)| *a != 2 && *b != 2 && a != b).unwrap();
                let name = |c: u8| ["violates an assertion", "satisfies every assertion", "is undefined"][c as usize];
                return Some(Found {
                    clause: Clause::Api,
                    detail: format!(
                        "the builder holds the same expression DAG and assertions after `{}` and after `{}`, but on this input the first {} and the second {}: a call's statement is missing from (or added to) the compiler input",
                        p0,
                        p.show(),
                        name(s0[i]),
                        name(sig[i])
                    ),
                    inputs: vecs[i].iter().map(fu).collect(),
                });
            }
            Some(_) => {}
        }
    }
    // hints make node-level values opaque: compare only where defined
    for v in vecs {
        let (pubs, privs) = split_inputs(m.n_pub, &v);
        let re = ref_eval::<BabyBear, F>(p, cs, &pubs, &privs);
        if re.undefined {
            continue;
        }
        let (nv, undef) = eval_nodes(&m.nodes, &pubs, &privs, &|_| None);
        if undef {
            continue;
        }
        for (h, e) in m.handles.iter().enumerate() {
            if let (Some(a), Some(b)) = (re.hv[h], nv[e.0 as usize])
                && a != b
            {
                return Some(Found {
                    clause: Clause::Api,
                    detail: format!(
                        "handle h{h} (node e{}) denotes {} but the node evaluates to {}",
                        e.0,
                        fu(&a),
                        fu(&b)
                    ),
                    inputs: v.iter().map(fu).collect(),
                });
            }
        }
    }
    None
}

struct Counters {
    runs: AtomicU64,
    sat_runs: AtomicU64,
    unsat_runs: AtomicU64,
    undefined: AtomicU64,
    unsat_ok_runs: AtomicU64,
    proofs: AtomicU64,
    build_err: AtomicU64,
    values_compared: AtomicU64,
    /// remaining prove+verify calls for clause (ii)
    proof_budget: AtomicU64,
    unsat_ok_not_proved: AtomicU64,
}

/// Full check of one compiled program. Returns the first violation per clause kind.
fn check_program(
    p: &Program,
    cs: &[F],
    cnt: Option<&Counters>,
    outcomes: Option<&Histo>,
) -> Result<Vec<Found>, String> {
    let m = materialize::<BabyBear, F>(p, cs)?;
    let n_pub = m.n_pub;
    let n_in = m.n_pub + m.n_priv;
    let handles = m.handles.clone();
    let nodes = m.nodes.clone();
    let connects = m.connects.clone();
    let circuit = match m.builder.build() {
        Ok(c) => c,
        Err(e) => {
            if let Some(c) = cnt {
                c.build_err.fetch_add(1, Ordering::Relaxed);
            }
            if let Some(o) = outcomes {
                o.add("build_err");
            }
            return Err(format!("build: {e:?}"));
        }
    };
    let mut found: Vec<Found> = vec![];
    let mut proved_once = false;
    let have = |c: &Clause, found: &Vec<Found>| found.iter().any(|f| f.clause == *c);
    let vecs = vectors_for(p, n_in);
    for v in vecs {
        let (pubs, privs) = split_inputs(n_pub, &v);
        let re = ref_eval::<BabyBear, F>(p, cs, &pubs, &privs);
        if re.undefined {
            if let Some(c) = cnt {
                c.undefined.fetch_add(1, Ordering::Relaxed);
            }
            continue;
        }
        let run = run_circuit(&circuit, &pubs, &privs);
        if let Some(c) = cnt {
            c.runs.fetch_add(1, Ordering::Relaxed);
            if re.sat {
                c.sat_runs.fetch_add(1, Ordering::Relaxed);
            } else {
                c.unsat_runs.fetch_add(1, Ordering::Relaxed);
            }
        }
        if let Some(o) = outcomes {
            o.add(match (re.sat, run.is_ok()) {
                (true, true) => "sat_run_ok",
                (true, false) => "sat_run_err",
                (false, true) => "unsat_run_ok",
                (false, false) => "unsat_run_err",
            });
        }
        let iv: Vec<String> = v.iter().map(fu).collect();
        match (re.sat, run) {
            (true, Err(e)) => {
                if !have(&Clause::RunFails, &found) {
                    found.push(Found {
                        clause: Clause::RunFails,
                        detail: format!("all asserted relations hold but run() = Err({e})"),
                        inputs: iv,
                    });
                }
            }
            (true, Ok(tr)) => {
                if have(&Clause::Value, &found) {
                    continue;
                }
                // call level
                let mut bad: Option<String> = None;
                for (h, e) in handles.iter().enumerate() {
                    let Some(want) = re.hv[h] else { continue };
                    let Some(wid) = circuit.expr_to_widx.get(e) else {
                        continue;
                    };
                    let got = tr.witness_trace.get_value(*wid).copied();
                    if let Some(c) = cnt {
                        c.values_compared.fetch_add(1, Ordering::Relaxed);
                    }
                    if got != Some(want) {
                        bad = Some(format!(
                            "h{h} (e{} -> w{}) denotes {} but the run assigned {:?}",
                            e.0,
                            wid.0,
                            fu(&want),
                            got.map(|g| fu(&g))
                        ));
                        break;
                    }
                }
                // node level (opaque outputs read back from the run)
                if bad.is_none() {
                    let opaque = |i: usize| -> Option<F> {
                        circuit
                            .expr_to_widx
                            .get(&p3_circuit::ExprId(i as u32))
                            .and_then(|w| tr.witness_trace.get_value(*w).copied())
                    };
                    let (nv, undef) = eval_nodes(&nodes, &pubs, &privs, &opaque);
                    if !undef {
                        for (i, val) in nv.iter().enumerate() {
                            let Some(want) = val else { continue };
                            let Some(wid) = circuit.expr_to_widx.get(&p3_circuit::ExprId(i as u32))
                            else {
                                continue;
                            };
                            let got = tr.witness_trace.get_value(*wid).copied();
                            if let Some(c) = cnt {
                                c.values_compared.fetch_add(1, Ordering::Relaxed);
                            }
                            if got != Some(*want) {
                                bad = Some(format!(
                                    "node e{i} ({:?}) -> w{} denotes {} but the run assigned {:?}",
                                    nodes[i],
                                    wid.0,
                                    fu(want),
                                    got.map(|g| fu(&g))
                                ));
                                break;
                            }
                        }
                        if bad.is_none() && !node_rels_hold(&nodes, &connects, &nv) {
                            bad = Some("run Ok but a connect / bool check does not hold on the assigned values".into());
                        }
                    }
                }
                if let Some(d) = bad {
                    found.push(Found {
                        clause: Clause::Value,
                        detail: d,
                        inputs: iv,
                    });
                }
            }
            (false, Ok(tr)) => {
                if let Some(c) = cnt {
                    c.unsat_ok_runs.fetch_add(1, Ordering::Relaxed);
                }
                if have(&Clause::UnsatAccepted, &found) {
                    continue;
                }
                // the run did not fail: the trace must not be provable.
                // One proof per program, within the global proof budget.
                if proved_once {
                    continue;
                }
                if let Some(c) = cnt {
                    if c.proof_budget
                        .fetch_update(Ordering::Relaxed, Ordering::Relaxed, |b| b.checked_sub(1))
                        .is_err()
                    {
                        c.unsat_ok_not_proved.fetch_add(1, Ordering::Relaxed);
                        continue;
                    }
                    c.proofs.fetch_add(1, Ordering::Relaxed);
                }
                proved_once = true;
                let verdict = prove_verify(&circuit, &tr);
                if let Some(o) = outcomes {
                    o.add(&format!("unsat_run_ok/{}", verdict.short()));
                }
                if verdict.accepted() {
                    found.push(Found {
                        clause: Clause::UnsatAccepted,
                        detail: "an asserted relation is violated, run() = Ok and the proof verifies".into(),
                        inputs: iv,
                    });
                }
            }
            (false, Err(_)) => {}
        }
    }
    Ok(found)
}

/// Delete calls one at a time while the same clause keeps failing.
fn minimise(p: &Program, clause: &Clause, cs: &[F]) -> Program {
    let fails = |q: &Program| -> bool {
        if *clause == Clause::Api {
            return materialize::<BabyBear, F>(q, cs)
                .ok()
                .and_then(|m| check_api(q, &m, cs))
                .is_some();
        }
        matches!(check_program(q, cs, None, None), Ok(f) if f.iter().any(|x| x.clause == *clause))
    };
    let mut cur = p.clone();
    loop {
        let mut improved = false;
        for j in (0..cur.calls.len()).rev() {
            if let Some(q) = vpe1::prog::remove_call(&cur, j)
                && fails(&q)
            {
                cur = q;
                improved = true;
                break;
            }
        }
        if !improved {
            return cur;
        }
    }
}


/// Replays one stored program; returns true if something was recorded.
pub fn replay_pass(p: &Program, report: &Report, tag: &str) {
    let cs = consts();
    println!("[{tag}] replaying: {}", p.show());
    if let Ok(m) = materialize::<BabyBear, F>(p, &cs) {
        println!("nodes: {:?}\nconnects: {:?}", m.nodes, m.connects);
        if let Ok(c) = m.builder.build() {
            for op in &c.ops {
                println!("  op {op:?}");
            }
            println!("  public_rows {:?} private_rows {:?} rewrite {:?}", c.public_rows, c.private_input_rows, c.witness_rewrite);
        }
    }
    let Ok(m) = materialize::<BabyBear, F>(p, &cs) else { return };
    if let Some(f) = check_api(p, &m, &cs) {
        println!("  [{}] inputs={:?} {}", f.clause.tag(), f.inputs, f.detail);
        report.violation(format!("{tag}api:{}", p.show()), f.detail, json!({"program": p, "pass": tag}));
    }
    for f in check_program(p, &cs, None, None).unwrap_or_default() {
        println!("  [{}] inputs={:?} {}", f.clause.tag(), f.inputs, f.detail);
        report.violation(format!("{tag}{}:{}", f.clause.tag(), p.show()), f.detail, json!({"program": p, "inputs": f.inputs, "pass": tag}));
    }
}

/// Explores `fams` over this module's element field. `tag` prefixes violation keys
/// ("" for the base field). Returns the coverage fragment of the pass.
pub fn run_pass(ctx: &Ctx, report: &Report, fams: &[vpe1::Family], tag: &str, stop_at: f64, proof_budget: u64) -> Value {
    let cs = consts();
    let seen_keys = SeenSet::default();
    let cnt = Counters {
        runs: AtomicU64::new(0),
        sat_runs: AtomicU64::new(0),
        unsat_runs: AtomicU64::new(0),
        undefined: AtomicU64::new(0),
        unsat_ok_runs: AtomicU64::new(0),
        proofs: AtomicU64::new(0),
        build_err: AtomicU64::new(0),
        values_compared: AtomicU64::new(0),
        proof_budget: AtomicU64::new(proof_budget),
        unsat_ok_not_proved: AtomicU64::new(0),
    };
    let outcomes = Histo::new();
    let samples: Mutex<Vec<Value>> = Mutex::new(vec![]);
    let raw_violations = AtomicU64::new(0);
    let minimise_budget = AtomicU64::new(400);
    let mut fam_reports = vec![];
    let mut total_hist = 0u64;
    let mut total_canon = 0u64;
    let mut all_exhaustive = true;

    let record = |p: &Program, f: Found| {
        raw_violations.fetch_add(1, Ordering::Relaxed);
        let (q, minimised) = if minimise_budget
            .fetch_update(Ordering::Relaxed, Ordering::Relaxed, |b| b.checked_sub(1))
            .is_ok()
        {
            (minimise(p, &f.clause, &cs), true)
        } else {
            (p.clone(), false)
        };
        let key = format!("{tag}{}:{}", f.clause.tag(), q.show());
        report.violation(
            key,
            format!("[{tag}{}] {} — {}", f.clause.tag(), q.show(), f.detail),
            json!({"program": q, "found_in": p, "inputs": f.inputs, "clause": f.clause.tag(),
                   "detail": f.detail, "minimised": minimised, "pass": tag}),
        );
    };

    // derived programs (de-duplication stress): every value-only program of at most two calls,
    // emitted twice over aliased inputs, the copy pinned to a public input, three consumers
    {
        use vpe1::enumerate::{Family, VK};
        let base = Family {
            name: "dupbase-k2-c0".into(),
            value_kinds: vec![VK::Add, VK::Sub, VK::Mul, VK::MulAdd],
            assert_kinds: vec![],
            max_value_ops: 2,
            max_asserts: 0,
            max_pub: 2,
            max_priv: 0,
            consts: vec![2],
            max_wide: 1,
            wide_no_atoms: true,
            sym_reduce: true,
            stages: vec![],
            assert_split: None,
        };
        let (s2, p2, st2) = (SeenSet::default(), SeenSet::default(), Stats::default());
        let n_derived = AtomicU64::new(0);
        explore::<BabyBear, F>(&base, &cs, ctx, 0.95, &s2, &p2, &st2, &|_p, _m| {}, &|p, _m| {
            let Some(q) = vpe1::prog::duplicate_with_aliases(p) else { return };
            n_derived.fetch_add(1, Ordering::Relaxed);
            if let Ok(found) = check_program(&q, &cs, Some(&cnt), Some(&outcomes)) {
                for f in found {
                    record(&q, f);
                }
            }
        });
        eprintln!("[{}] derived alias-duplicated programs checked: {}", if tag.is_empty() { "d1" } else { tag }, n_derived.load(Ordering::Relaxed));
    }

    // constants with their negatives: products minus / plus a constant c and its opposite -c
    // (constant index 4 = -constant index 2; only this family refers to it)
    {
        use vpe1::enumerate::{AK, VK};
        use vpe1::families::{stage, staged};
        let f = staged(
            "products-2-then-subadd-const-2",
            vec![stage(&[VK::Mul], 2, &[0], true, false), stage(&[VK::Sub, VK::Add], 2, &[1], false, true)],
            &[AK::Connect],
            1,
            3,
            &[2, 4],
        );
        let (s2, p2, st2) = (SeenSet::default(), SeenSet::default(), Stats::default());
        explore::<BabyBear, F>(&f, &cs, ctx, 0.95, &s2, &p2, &st2, &|p, m| {
            if let Some(fnd) = check_api(p, m, &cs) {
                record(p, fnd);
            }
        }, &|p, _m| {
            if let Ok(found) = check_program(p, &cs, Some(&cnt), Some(&outcomes)) {
                for fnd in found {
                    record(p, fnd);
                }
            }
        });
        eprintln!("[{}] family {} histories={} canonical={}", if tag.is_empty() { "d1" } else { tag }, f.name, st2.histories.load(Ordering::Relaxed), st2.canonical.load(Ordering::Relaxed));
    }

    // wide calls (mul_add / select / horner_acc_step) with CONSTANT operands: the builder's
    // folding paths for partly or wholly constant wide calls
    {
        use vpe1::enumerate::{AK, Family, VK};
        let f = Family {
            name: "wide-k1-atoms-c1".into(),
            value_kinds: vec![VK::MulAdd, VK::Select, VK::Horner],
            assert_kinds: vec![AK::Connect],
            max_value_ops: 1,
            max_asserts: 1,
            max_pub: 2,
            max_priv: 0,
            consts: vec![0, 1, 2, 3],
            max_wide: 1,
            wide_no_atoms: false,
            sym_reduce: true,
            stages: vec![],
            assert_split: None,
        };
        let (s2, p2, st2) = (SeenSet::default(), SeenSet::default(), Stats::default());
        explore::<BabyBear, F>(&f, &cs, ctx, 0.95, &s2, &p2, &st2, &|p, m| {
            if let Some(fnd) = check_api(p, m, &cs) {
                record(p, fnd);
            }
        }, &|p, _m| {
            if let Ok(found) = check_program(p, &cs, Some(&cnt), Some(&outcomes)) {
                for fnd in found {
                    record(p, fnd);
                }
            }
        });
        eprintln!("[{}] family {} histories={} canonical={}", if tag.is_empty() { "d1" } else { tag }, f.name, st2.histories.load(Ordering::Relaxed), st2.canonical.load(Ordering::Relaxed));
    }

    for fam in fams {
        let stats = Stats::default();
        // pruning is per family: the subtree below a state depends on the family's bounds
        let seen_prune = SeenSet::default();
        let t0 = ctx.elapsed_s();
        explore::<BabyBear, F>(
            fam,
            &cs,
            ctx,
            stop_at,
            &seen_keys,
            &seen_prune,
            &stats,
            &|p, m| {
                if let Some(f) = check_api(p, m, &cs) {
                    record(p, f);
                }
            },
            &|p, _m| {
                if let Ok(found) = check_program(p, &cs, Some(&cnt), Some(&outcomes)) {
                    for f in found {
                        record(p, f);
                    }
                }
                let mut s = samples.lock().unwrap();
                if s.len() < 6 && p.calls.len() >= 3 {
                    s.push(json!(p.show()));
                }
            },
        );
        let h = stats.histories.load(Ordering::Relaxed);
        let c = stats.canonical.load(Ordering::Relaxed);
        let to = stats.timed_out.load(Ordering::Relaxed);
        total_hist += h;
        total_canon += c;
        all_exhaustive &= !to;
        fam_reports.push(json!({
            "family": fam.name, "bounds": fam, "histories": h, "new_canonical_programs": c,
            "pruned_subtrees": stats.pruned_subtrees.load(Ordering::Relaxed),
            "exhaustive": !to, "wall_s": ctx.elapsed_s() - t0,
        }));
        eprintln!("[{}] family {} histories={} canonical={} exhaustive={} t={:.1}s", if tag.is_empty() { "d1" } else { tag }, fam.name, h, c, !to, ctx.elapsed_s() - t0);
    }
    json!({
        "states": total_canon,
        "transitions": total_hist,
        "runs": cnt.runs.load(Ordering::Relaxed),
        "samples": *samples.lock().unwrap(),
        "families": fam_reports,
        "exhaustive": all_exhaustive,
        "input_alphabet_by_arity": (0..6).map(|n| values_for(n).iter().map(fu).collect::<Vec<_>>()).collect::<Vec<_>>(),
        "const_alphabet": cs.iter().map(fu).collect::<Vec<_>>(),
        "runs_satisfying": cnt.sat_runs.load(Ordering::Relaxed),
        "runs_violating_a_relation": cnt.unsat_runs.load(Ordering::Relaxed),
        "inputs_skipped_zero_divisor": cnt.undefined.load(Ordering::Relaxed),
        "unsat_runs_that_returned_ok": cnt.unsat_ok_runs.load(Ordering::Relaxed),
        "proofs_attempted": cnt.proofs.load(Ordering::Relaxed),
        "programs_with_unsat_ok_run_not_proved_budget": cnt.unsat_ok_not_proved.load(Ordering::Relaxed),
        "programs_rejected_by_build": cnt.build_err.load(Ordering::Relaxed),
        "expression_values_compared": cnt.values_compared.load(Ordering::Relaxed),
        "outcome_histogram": outcomes.to_json(),
        "raw_violating_cases": raw_violations.load(Ordering::Relaxed),
    })
}
