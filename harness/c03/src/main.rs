//! C03 — compilation never drops an asserted relation.
//!
//! For every program of the E1 space the compiled op list is read as a set of relations
//! (`vpe1::opsem`), *all* assignments over a value alphabet that satisfy every op relation
//! are enumerated (define-or-check), and each must satisfy every relation of the source
//! program (each arithmetic definition, connect, zero/bool check, constant), read through
//! `expr_to_widx`. The runner is never consulted.

use std::sync::Mutex;
use std::sync::atomic::{AtomicU64, Ordering};

use p3_baby_bear::BabyBear;
use p3_circuit::expr::Expr;
use p3_circuit::{Circuit, ExprId};
use p3_field::{PrimeCharacteristicRing, PrimeField64};
use vpcore::serde_json::{Value, json};
use vpcore::{Ctx, Histo, Report, finish};
use vpe1::explore::{SeenSet, Stats, explore};
use vpe1::families::{families, families_scaled};
use vpe1::opsem::OpSem;
use vpe1::prog::{Program, materialize, remove_call};

type F = BabyBear;

fn consts() -> Vec<F> {
    vec![F::ZERO, F::ONE, F::from_u64(5), F::from_u64(7)]
}
fn fu(x: &F) -> u64 {
    x.as_canonical_u64()
}
/// Alphabet for free slots; smaller when there are many free slots.
fn alphabet(free: usize) -> Vec<F> {
    match free {
        0..=3 => vec![F::ZERO, F::ONE, F::TWO, F::from_u64(3), F::from_u64(5)],
        4 => vec![F::ZERO, F::ONE, F::TWO, F::from_u64(3)],
        5 => vec![F::ZERO, F::ONE, F::from_u64(3)],
        _ => vec![F::ONE, F::from_u64(3)],
    }
}

struct Broken {
    detail: String,
    assignment: Vec<Option<u64>>,
}

/// First source relation that `wv` violates, if any.
fn source_violation(
    nodes: &[Expr<F>],
    connects: &[(ExprId, ExprId)],
    circuit: &Circuit<F>,
    wv: &[Option<F>],
) -> Option<String> {
    let slot = |e: &ExprId| circuit.expr_to_widx.get(e).map(|w| w.0 as usize);
    // value of expression e under the assignment: Err = slot exists in no op relation
    let val = |e: &ExprId| -> Result<Option<F>, String> {
        match slot(e) {
            None => Ok(None), // expression has no slot (call anchors)
            Some(s) => match wv.get(s).copied().flatten() {
                Some(v) => Ok(Some(v)),
                None => Err(format!("slot w{s} of e{} is mentioned by no emitted op", e.0)),
            },
        }
    };
    macro_rules! get {
        ($e:expr) => {
            match val($e) {
                Ok(Some(v)) => v,
                Ok(None) => continue,
                Err(m) => return Some(m),
            }
        };
    }
    for (i, n) in nodes.iter().enumerate() {
        let me = ExprId(i as u32);
        match n {
            Expr::Const(c) => {
                let v = get!(&me);
                if v != *c {
                    return Some(format!("constant e{i}={} holds {}", fu(c), fu(&v)));
                }
            }
            Expr::Add { lhs, rhs } => {
                let (r, a, b) = (get!(&me), get!(lhs), get!(rhs));
                if r != a + b {
                    return Some(format!("e{i} = e{} + e{} : {} != {} + {}", lhs.0, rhs.0, fu(&r), fu(&a), fu(&b)));
                }
            }
            Expr::Sub { lhs, rhs } => {
                let (r, a, b) = (get!(&me), get!(lhs), get!(rhs));
                if r != a - b {
                    return Some(format!("e{i} = e{} - e{} : {} != {} - {}", lhs.0, rhs.0, fu(&r), fu(&a), fu(&b)));
                }
            }
            Expr::Mul { lhs, rhs } => {
                let (r, a, b) = (get!(&me), get!(lhs), get!(rhs));
                if r != a * b {
                    return Some(format!("e{i} = e{} * e{} : {} != {} * {}", lhs.0, rhs.0, fu(&r), fu(&a), fu(&b)));
                }
            }
            Expr::Div { lhs, rhs } => {
                let (r, a, b) = (get!(&me), get!(lhs), get!(rhs));
                if r * b != a {
                    return Some(format!("e{i} = e{} / e{} : {} * {} != {}", lhs.0, rhs.0, fu(&r), fu(&b), fu(&a)));
                }
            }
            Expr::MulAdd { a, b, c } => {
                let (r, x, y, z) = (get!(&me), get!(a), get!(b), get!(c));
                if r != x * y + z {
                    return Some(format!("e{i} = e{}*e{}+e{} : {} != {}*{}+{}", a.0, b.0, c.0, fu(&r), fu(&x), fu(&y), fu(&z)));
                }
            }
            Expr::HornerAcc {
                acc,
                alpha,
                p_at_z,
                p_at_x,
            } => {
                let (r, a, al, z, x) = (get!(&me), get!(acc), get!(alpha), get!(p_at_z), get!(p_at_x));
                if r != a * al + z - x {
                    return Some(format!("e{i} = horner(e{},e{},e{},e{}) : {} != {}*{}+{}-{}", acc.0, alpha.0, p_at_z.0, p_at_x.0, fu(&r), fu(&a), fu(&al), fu(&z), fu(&x)));
                }
            }
            Expr::BoolCheck { val: v } => {
                let x = get!(v);
                if x != F::ZERO && x != F::ONE {
                    return Some(format!("bool check on e{} holds {}", v.0, fu(&x)));
                }
            }
            Expr::Public(_) | Expr::PrivateInput(_) | Expr::NonPrimitiveCall { .. } | Expr::NonPrimitiveOutput { .. } => {}
        }
    }
    for (a, b) in connects {
        let (x, y) = (
            match val(a) {
                Ok(Some(v)) => v,
                Ok(None) => continue,
                Err(m) => return Some(m),
            },
            match val(b) {
                Ok(Some(v)) => v,
                Ok(None) => continue,
                Err(m) => return Some(m),
            },
        );
        if x != y {
            return Some(format!("connect(e{},e{}) : {} != {}", a.0, b.0, fu(&x), fu(&y)));
        }
    }
    None
}

struct Cnt {
    programs: AtomicU64,
    assignments: AtomicU64,
    capped: AtomicU64,
    unsupported: AtomicU64,
    build_err: AtomicU64,
}

fn check_program(p: &Program, cs: &[F], cnt: Option<&Cnt>, h: Option<&Histo>) -> Option<Broken> {
    let m = materialize::<F, F>(p, cs).ok()?;
    let nodes = m.nodes.clone();
    let connects = m.connects.clone();
    let free = m.n_pub + m.n_priv
        + nodes
            .iter()
            .filter(|n| matches!(n, Expr::NonPrimitiveOutput { .. }))
            .count();
    let circuit = match m.builder.build() {
        Ok(c) => c,
        Err(_) => {
            if let Some(c) = cnt {
                c.build_err.fetch_add(1, Ordering::Relaxed);
            }
            return None;
        }
    };
    let sem = OpSem::new(&circuit);
    if sem.unsupported {
        if let Some(c) = cnt {
            c.unsupported.fetch_add(1, Ordering::Relaxed);
        }
        return None;
    }
    let alpha = alphabet(free);
    let mut broken: Option<Broken> = None;
    let limit = 4000;
    let n = sem.enumerate(&alpha, limit, &mut |wv| {
        if broken.is_some() {
            return;
        }
        if let Some(d) = source_violation(&nodes, &connects, &circuit, wv) {
            broken = Some(Broken {
                detail: d,
                assignment: wv.iter().map(|x| x.as_ref().map(fu)).collect(),
            });
        }
    });
    if let Some(c) = cnt {
        c.programs.fetch_add(1, Ordering::Relaxed);
        c.assignments.fetch_add(n as u64, Ordering::Relaxed);
        if n >= limit {
            c.capped.fetch_add(1, Ordering::Relaxed);
        }
    }
    if let Some(h) = h {
        h.add(match (n, broken.is_some()) {
            (0, _) => "no_satisfying_assignment_over_alphabet",
            (_, true) => "relation_not_implied",
            (_, false) => "all_assignments_satisfy_source",
        });
    }
    broken
}

fn minimise(p: &Program, cs: &[F]) -> Program {
    let mut cur = p.clone();
    loop {
        let mut improved = false;
        for j in (0..cur.calls.len()).rev() {
            if let Some(q) = remove_call(&cur, j)
                && check_program(&q, cs, None, None).is_some()
            {
                cur = q;
                improved = true;
                break;
            }
        }
        if !improved {
            return cur;
        }
    }
}

fn main() {
    vpcore::install_quiet_panic_hook();
    let ctx = Ctx::from_args("C03", "model_checking");
    let cs = consts();
    let report = Report::new();

    if let Some(path) = &ctx.replay {
        let r = vpcore::load_replay(path);
        let p: Program = vpcore::serde_json::from_value(r["program"].clone())
            .unwrap_or_else(|e| vpcore::machinery_error(&format!("bad replay: {e}")));
        println!("replaying: {}", p.show());
        if let Ok(m) = materialize::<F, F>(&p, &cs) {
            println!("nodes: {:?}\nconnects: {:?}", m.nodes, m.connects);
            if let Ok(c) = m.builder.build() {
                for op in &c.ops {
                    println!("  op {op:?}");
                }
                println!("  expr_to_widx {:?} rewrite {:?}", c.expr_to_widx, c.witness_rewrite);
            }
        }
        if let Some(b) = check_program(&p, &cs, None, None) {
            println!("  ops-satisfying assignment {:?} violates: {}", b.assignment, b.detail);
            report.violation(
                format!("rel_dropped:{}", p.show()),
                b.detail,
                json!({"program": p, "assignment": b.assignment}),
            );
        }
        let cov = json!({"states":1,"transitions":1,"traces_validated_against_impl":1,"samples":[p.show()],"replay":true});
        finish(&ctx, cov, vec![], &report);
    }

    let mut fams = families_scaled(if ctx.quick() { 1 } else { 2 });
    if let Some(f) = ctx.opt("family") {
        fams = families(true).into_iter().chain(families(false)).filter(|x| x.name == f).collect();
    }
    let seen_keys = SeenSet::default();
    let cnt = Cnt {
        programs: AtomicU64::new(0),
        assignments: AtomicU64::new(0),
        capped: AtomicU64::new(0),
        unsupported: AtomicU64::new(0),
        build_err: AtomicU64::new(0),
    };
    let histo = Histo::new();
    let samples: Mutex<Vec<Value>> = Mutex::new(vec![]);
    let raw = AtomicU64::new(0);
    let minimise_budget = AtomicU64::new(400);
    let mut fam_reports = vec![];
    let (mut th, mut tc) = (0u64, 0u64);
    let mut all_exhaustive = true;

    // derived programs (de-duplication stress): every value-only program of at most two calls,
    // emitted twice over aliased inputs, the copy pinned to a public input, three consumers
    let derived_checked = AtomicU64::new(0);
    {
        use vpe1::enumerate::{Family, VK};
        let base = Family {
            name: "dupbase-k2-c0".into(),
            value_kinds: vec![VK::Add, VK::Sub, VK::Mul, VK::MulAdd],
            assert_kinds: vec![],
            max_value_ops: 2,
            max_asserts: 0,
            max_pub: 3,
            max_priv: 0,
            consts: vec![2],
            max_wide: 1,
            wide_no_atoms: true,
            sym_reduce: true,
            stages: vec![],
            assert_split: None,
        };
        let (s2, p2, st2) = (SeenSet::default(), SeenSet::default(), Stats::default());
        explore::<F, F>(&base, &cs, &ctx, 0.95, &s2, &p2, &st2, &|_p, _m| {}, &|p, _m| {
            let Some(q) = vpe1::prog::duplicate_with_aliases(p) else { return };
            derived_checked.fetch_add(1, Ordering::Relaxed);
            if let Some(b) = check_program(&q, &cs, Some(&cnt), Some(&histo)) {
                report.violation(
                    format!("rel_dropped:{}", q.show()),
                    format!("{} — an ops-satisfying assignment violates the source relation {}", q.show(), b.detail),
                    json!({"program": q, "derived_from": p, "assignment": b.assignment, "detail": b.detail}),
                );
            }
        });
        eprintln!("derived alias-duplicated programs checked: {}", derived_checked.load(Ordering::Relaxed));
    }

    for (fi, fam) in fams.iter().enumerate() {
        let stats = Stats::default();
        let seen_prune = SeenSet::default();
        let stop_at = 0.93; let _ = fi; // families run smallest first; whatever does not fit is cut and reported
        let t0 = ctx.elapsed_s();
        explore::<F, F>(
            fam,
            &cs,
            &ctx,
            stop_at,
            &seen_keys,
            &seen_prune,
            &stats,
            &|_p, _m| {},
            &|p, _m| {
                if let Some(b) = check_program(p, &cs, Some(&cnt), Some(&histo)) {
                    raw.fetch_add(1, Ordering::Relaxed);
                    let (q, minimised) = if minimise_budget
                        .fetch_update(Ordering::Relaxed, Ordering::Relaxed, |b| b.checked_sub(1))
                        .is_ok()
                    {
                        (minimise(p, &cs), true)
                    } else {
                        (p.clone(), false)
                    };
                    let b2 = check_program(&q, &cs, None, None).unwrap_or(b);
                    report.violation(
                        format!("rel_dropped:{}", q.show()),
                        format!("{} — an ops-satisfying assignment violates the source relation {}", q.show(), b2.detail),
                        json!({"program": q, "found_in": p, "assignment": b2.assignment, "detail": b2.detail, "minimised": minimised}),
                    );
                }
                let mut s = samples.lock().unwrap();
                if s.len() < 6 && p.calls.len() >= 3 {
                    s.push(json!(p.show()));
                }
            },
        );
        let h = stats.histories.load(Ordering::Relaxed);
        let c = stats.canonical.load(Ordering::Relaxed);
        let to = stats.timed_out.load(Ordering::Relaxed);
        th += h;
        tc += c;
        all_exhaustive &= !to;
        fam_reports.push(json!({
            "family": fam.name, "bounds": fam, "histories": h, "new_canonical_programs": c,
            "pruned_subtrees": stats.pruned_subtrees.load(Ordering::Relaxed),
            "exhaustive": !to, "wall_s": ctx.elapsed_s() - t0,
        }));
        eprintln!("family {} histories={} canonical={} exhaustive={} t={:.1}s", fam.name, h, c, !to, ctx.elapsed_s() - t0);
    }

    let cov = json!({
        "states": tc,
        "transitions": th,
        "traces_validated_against_impl": cnt.programs.load(Ordering::Relaxed),
        "samples": *samples.lock().unwrap(),
        "state_definition": "a state is a builder program identified by the H1 snapshot of the real CircuitBuilder; every state is compiled by the real lowering + optimiser; the emitted op list is evaluated as relations on every assignment over the alphabet (define-or-check) and each ops-satisfying assignment is tested against every source relation",
        "families": fam_reports,
        "exhaustive": all_exhaustive,
        "ops_satisfying_assignments_checked": cnt.assignments.load(Ordering::Relaxed),
        "programs_where_assignment_cap_hit": cnt.capped.load(Ordering::Relaxed),
        "programs_skipped_nonprimitive_ops": cnt.unsupported.load(Ordering::Relaxed),
        "programs_rejected_by_build": cnt.build_err.load(Ordering::Relaxed),
        "outcome_histogram": histo.to_json(),
        "raw_violating_programs": raw.load(Ordering::Relaxed),
    });
    finish(
        &ctx,
        cov,
        vec![
            "opsem (vpe1::opsem) states what each Op kind asserts; a slot that occurs only as MulAdd intermediate_out is existentially quantified".into(),
            "free slots range over a small alphabet; program structure is exhaustive within each family's bounds".into(),
        ],
        &report,
    );
}
