fn main() {
    eprintln!("MACHINERY-ERROR: check c03 not built yet");
    std::process::exit(2);
}
