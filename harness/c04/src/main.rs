//! C04 — "An accepted circuit proof attests a satisfying assignment"  (fault enumeration)
//!
//! For every circuit of the E3 catalogue: EVERY single fault of the classes
//!   F1  one cell of one main-trace matrix += 1            (hook H4, all cells incl. padding)
//!   F2  one witness slot changed at its definition, everything downstream recomputed
//!       (constants, public / private inputs, hint outputs, ALU results, NPO outputs —
//!       exposed or hidden —, private Merkle siblings)
//!   F3  one slot += 1 in every row scalar that mentions it, nothing recomputed
//!   F4  one input port of one row reads value+1 (row-local), the row's result propagated
//!   F5  one slot-less input limb of one permutation row (inherited from the previous row of
//!       its chain inside the table, or the zero of an un-fed limb of a `new_start` sponge row)
//!       takes value+1; the row is re-executed by the repository's executor from the deviated
//!       state and its outputs are propagated (chained rows, `out_ctl` slots, dependent ops)
//! is applied to the honest traces; the repository's real `prove_all_tables` +
//! `verify_all_tables` (release) gives the verdict; the reference predicate
//! (`vpe3::predicate`) says whether the committed values still are one satisfying assignment.
//!
//!   violation  ⇔  accepted  ∧  ¬predicate
//!
//! Rejected faults, and accepted faults whose committed values are a (different) valid
//! witness, are fine. Keys: `accepted:<class>:<table>:<port role>` — fault class + table /
//! op kind + port role, never a cell index.

use std::collections::BTreeMap;
use std::sync::Mutex;
use std::sync::atomic::{AtomicBool, Ordering};

use vpcore::rayon::prelude::*;
use vpcore::serde_json::{Value, json};
use vpcore::{Ctx, Histo, Report, finish};
use vpe3::catalogue::{QUICK, Spec, catalogue};
use vpe3::{Case, Fault, Outcome};

mod programs;

fn describe_outcome(o: &Outcome) -> Value {
    json!({
        "key": o.key(),
        "verdict": o.verdict.as_ref().map(|v| v.long()).unwrap_or_else(|| "inapplicable".into()),
        "predicate": format!("{:?}", o.pred),
        "noop": o.noop,
        "note": o.note,
    })
}

fn what(case: &str, f: &Fault, o: &Outcome) -> String {
    format!(
        "circuit {case}: fault {} is ACCEPTED by prove_all_tables+verify_all_tables although the committed values are not a satisfying assignment ({})",
        f.to_json(),
        match &o.pred {
            vpe3::Pred::Fails(c) => c.detail.clone(),
            other => format!("{other:?}"),
        }
    )
}

fn main() {
    vpcore::install_quiet_panic_hook();
    let ctx = Ctx::from_args("C04", "fault_enumeration");
    let report = Report::new();
    let specs = catalogue();

    // ---------------------------------------------------------------- replay of one case
    if let Some(path) = &ctx.replay {
        let r = vpcore::load_replay(path);
        let name = r["circuit"].as_str().unwrap_or("").to_string();
        let fault = Fault::from_json(&r["fault"])
            .unwrap_or_else(|| vpcore::machinery_error("replay: unreadable fault"));
        let case: Box<dyn Case> = if r.get("program").is_some() {
            programs::rebuild(&r).unwrap_or_else(|e| vpcore::machinery_error(&e))
        } else {
            let spec = specs.iter().find(|s| s.name == name).unwrap_or_else(|| {
                vpcore::machinery_error(&format!("replay: unknown circuit {name}"))
            });
            (spec.build)().unwrap_or_else(|e| vpcore::machinery_error(&e))
        };
        let o = case.evaluate(&fault);
        println!("replay {name} {}: {}", fault.to_json(), describe_outcome(&o));
        if o.violation() {
            report.violation(
                o.key(),
                what(&name, &fault, &o),
                {
                    let mut j = json!({"circuit": name, "fault": fault.to_json()});
                    if let Some(p) = r.get("program") {
                        j["program"] = p.clone();
                        j["inputs"] = r["inputs"].clone();
                    }
                    j
                },
            );
        }
        let cov = json!({"evaluations": 1, "distinct_nontrivial": o.pred.fails() as u64,
            "rule": "replay of one stored fault", "samples": [describe_outcome(&o)], "replay": true});
        finish(&ctx, cov, vec![], &report);
    }

    // ---------------------------------------------------------------- tier
    let only = ctx.opt("circuit").map(|s| s.to_string());
    let selected: Vec<&Spec> = match &only {
        Some(o) => specs.iter().filter(|s| s.name == o).collect(),
        None if ctx.quick() => QUICK
            .iter()
            .filter_map(|q| specs.iter().find(|s| s.name == *q))
            .collect(),
        None => specs.iter().collect(),
    };
    if selected.is_empty() {
        vpcore::machinery_error("no circuit selected");
    }
    // thorough: the +1 is also applied to the top basis element in F2-F4 (F1 covers every
    // limb cell anyway)
    let histo = Histo::new();
    let per_class = Histo::new();
    let samples: Mutex<Vec<Value>> = Mutex::new(vec![]);
    let timed_out = AtomicBool::new(false);
    let mut circuits_json = vec![];
    let (mut evaluations, mut nontrivial, mut accepted_false, mut accepted_valid) = (0u64, 0u64, 0u64, 0u64);
    let (mut inapplicable, mut noops, mut unknown) = (0u64, 0u64, 0u64);

    // fixtures are independent: build them in parallel
    let built: Vec<(&Spec, Result<Box<dyn Case>, String>)> = selected
        .par_iter()
        .map(|s| (*s, vpcore::quiet_catch(|| (s.build)()).unwrap_or_else(Err)))
        .collect();

    for (spec, case) in built {
        let case = match case {
            Ok(c) => c,
            Err(e) => vpcore::machinery_error(&format!("fixture {}: {e}", spec.name)),
        };
        let units: Vec<usize> = if ctx.quick() || case.degree() == 1 {
            vec![0]
        } else {
            vec![0, case.degree() - 1]
        };
        let faults = case.faults(&units);
        let t0 = ctx.elapsed_s();
        let outcomes: Vec<Option<Outcome>> = faults
            .par_iter()
            .map(|f| {
                if ctx.out_of_time() {
                    timed_out.store(true, Ordering::Relaxed);
                    return None;
                }
                Some(case.evaluate(f))
            })
            .collect();
        // sequential, in enumeration order: the first case of a key is the stored replay
        let mut done = 0u64;
        let mut class_counts: BTreeMap<String, u64> = BTreeMap::new();
        for (f, o) in faults.iter().zip(outcomes.iter()) {
            let Some(o) = o else { continue };
            done += 1;
            *class_counts.entry(f.class().to_string()).or_default() += 1;
            let v = match &o.verdict {
                None => {
                    inapplicable += 1;
                    "inapplicable".to_string()
                }
                Some(_) if o.noop => {
                    noops += 1;
                    "noop".to_string()
                }
                Some(v) => v.short(),
            };
            histo.add(&format!(
                "{}|{}|{} -> {} / predicate {}",
                o.site.class, o.site.table, o.site.role, v, o.pred.short()
            ));
            per_class.add(&format!("{} -> {} / predicate {}", o.site.class, v, o.pred.short()));
            if matches!(o.pred, vpe3::Pred::Unknown(_)) && o.verdict.is_some() {
                unknown += 1;
            }
            if o.pred.fails() {
                nontrivial += 1;
            }
            let acc = o.verdict.as_ref().is_some_and(|v| v.accepted()) && !o.noop;
            if acc && !o.pred.fails() {
                accepted_valid += 1;
            }
            if acc && ctx.opt("list") == Some("accepted") {
                eprintln!("ACCEPTED {} {} {} pred={}", case.name(), f.to_json(), o.key(), o.pred.short());
            }
            if o.violation() {
                accepted_false += 1;
                report.violation(
                    o.key(),
                    what(case.name(), f, o),
                    json!({"circuit": case.name(), "fault": f.to_json(), "outcome": describe_outcome(o)}),
                );
            }
            let mut s = samples.lock().unwrap();
            let want = s.len() < 12
                && (o.violation() || (acc && s.len() < 8) || o.pred.fails() && s.len() < 4);
            if want {
                s.push(json!({"circuit": case.name(), "fault": f.to_json(), "outcome": describe_outcome(o)}));
            }
        }
        evaluations += done;
        let mut d = case.describe();
        d["covers"] = json!(spec.covers);
        d["faults_enumerated"] = json!(faults.len());
        d["faults_evaluated"] = json!(done);
        d["by_class"] = json!(class_counts);
        d["wall_s"] = json!(ctx.elapsed_s() - t0);
        d["delta_units"] = json!(units);
        eprintln!(
            "{}: {} / {} faults in {:.1}s",
            case.name(),
            done,
            faults.len(),
            ctx.elapsed_s() - t0
        );
        circuits_json.push(d);
    }

    // ------------------------------------------------------------ stage 2: E1 programs
    // OPT-IN ONLY (`--opt programs=1`), not part of either registered tier: every canonical
    // builder program of the small E1 families (k <= 2 value calls; aliasing through shared
    // operands and connects), D = 1, first satisfying input vector, every single fault.
    // On the unchanged tree this stage reports additional accepted-but-false shapes that all
    // involve a slot with two creator roles and no bus reader (the C09/C10 family); they are
    // not triaged into known_findings.json, so the stage is kept out of the verdict.
    let mut programs_json = json!(null);
    if ctx.opt("programs").is_some() {
        let st = programs::run(&ctx, &report, &histo, &per_class, &samples);
        evaluations += st.evaluations;
        nontrivial += st.nontrivial;
        accepted_false += st.accepted_false;
        accepted_valid += st.accepted_valid;
        inapplicable += st.inapplicable;
        noops += st.noops;
        if st.timed_out {
            timed_out.store(true, Ordering::Relaxed);
        }
        programs_json = st.json;
    }

    let exhaustive = !timed_out.load(Ordering::Relaxed);
    let cov = json!({
        "evaluations": evaluations,
        "distinct_nontrivial": nontrivial,
        "rule": "one evaluation = one single fault (class F1 cell+1 / F2 slot changed with forward propagation / F3 slot changed in all rows without propagation / F4 row-local port deviation with propagation / F5 slot-less (table-inherited or un-fed) input limb of a permutation row deviated, the row re-executed by the repository's executor and its outputs propagated through the chain, the out_ctl slots and dependent ops) applied to the honest traces of one catalogue circuit, proved and verified by the real prover/verifier; faults are all distinct by construction (every cell, slot, port, slot-less permutation limb once per delta unit); non-trivial = the reference predicate is FALSE on the committed values (the fault really breaks 'one satisfying assignment'), so a correct verifier must reject it",
        "samples": *samples.lock().unwrap(),
        "exhaustive": exhaustive,
        "circuits": circuits_json,
        "e1_programs": programs_json,
        "accepted_and_predicate_false": accepted_false,
        "accepted_and_predicate_true_or_unknown": accepted_valid,
        "inapplicable_faults": inapplicable,
        "noop_faults_equal_to_honest": noops,
        "predicate_unknown": unknown,
        "verdict_histogram_per_class": per_class.to_json(),
        "verdict_histogram_per_class_table_role": histo.to_json(),
        "catalogue_size": specs.len(),
        "circuits_in_tier": selected.iter().map(|s| s.name).collect::<Vec<_>>(),
    });
    finish(
        &ctx,
        cov,
        vec![
            "STARK/LogUp soundness: 'the verifier accepts' is read as 'AIR constraints and bus hold'; a violation is only reported when the real verifier really accepted".into(),
            "the repository's NPO executors with the honest permutation define 'the true function of its inputs' for permutation / recomposition rows".into(),
            "deviation size is +1 (quick: base unit; thorough: also the top basis element); values are not enumerated, positions are".into(),
            "matrix cells are decoded by differential probing of the repository's own trace->matrix code; cells that are neither a verbatim copy of a trace scalar nor a permutation output (round states, packed-Horner intermediates, padding) carry no claim: accepting a change there is not counted as a violation".into(),
            "flag cells of permutation rows (direction bits, new_start) are not decoded: a single-cell change there is judged 'no claim changed'; slot-less permutation inputs are deviated through F1 (cell only), F2 on the private sibling (with propagation) and F5 (inherited / un-fed limb +1, row re-executed, chain and exposed outputs re-derived); F5 does not cover new_start Merkle rows (their slot-less half is the private sibling)".into(),
            "F4 on a HornerAcc accumulator also writes the deviated value into the `out` cells of the previous ALU matrix row (where the AIR reads it) through hook H4".into(),
            "Merkle arity-4 / width-24/32 permutation tables and Poseidon1 tables are not in the catalogue; builder programs with aliased slots (E1 families) are only covered by the opt-in stage `--opt programs=1`, which is not part of the verdict".into(),
        ],
        &report,
    );
}
