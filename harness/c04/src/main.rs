fn main() {
    eprintln!("MACHINERY-ERROR: check c04 not built yet");
    std::process::exit(2);
}
