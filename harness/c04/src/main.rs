// build probe for hooks H2-H4 (replaced by the real check)
use p3_circuit_prover::verif_hooks::set_matrix_tamper;
fn main() {
    set_matrix_tamper(None);
    let _ = p3_recursion::pcs::fri::verifier_verif_hooks::circuit_exp_by_constant::<p3_baby_bear::BabyBear>;
    let _ = p3_recursion::pcs::mmcs::verif_select_cap_entry::<p3_baby_bear::BabyBear>;
    eprintln!("MACHINERY-ERROR: check c04 not built yet");
    std::process::exit(2);
}
