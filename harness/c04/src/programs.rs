//! Stage 2 (thorough): the fault enumeration applied to every canonical builder program of
//! the small E1 families (BabyBear, D = 1, default packing). A program whose honest traces
//! do not prove (the C09/C10 shapes: two creators, Horner chains with a foreign accumulator)
//! is counted and skipped — C04 is about what an ACCEPTING verifier attests.

use std::sync::Mutex;
use std::sync::atomic::{AtomicU64, Ordering};

use p3_baby_bear::BabyBear as F;
use p3_circuit_prover::TablePacking;
use p3_field::PrimeCharacteristicRing;
use vpcore::serde_json::{Value, json};
use vpcore::{Ctx, Histo, Report};
use vpe1::explore::{SeenSet, Stats, explore, input_vectors};
use vpe1::families::families_scaled;
use vpe1::prog::{Program, materialize};
use vpe3::{BbD1, Case, Fixture, Inputs};

pub struct StageStats {
    pub evaluations: u64,
    pub nontrivial: u64,
    pub accepted_false: u64,
    pub accepted_valid: u64,
    pub inapplicable: u64,
    pub noops: u64,
    pub timed_out: bool,
    pub json: Value,
}

fn consts() -> Vec<F> {
    vec![F::ZERO, F::ONE, F::from_u64(5), F::from_u64(7)]
}

/// candidate input values, generic ones first
fn alphabet() -> Vec<F> {
    vec![F::from_u64(3), F::TWO, F::ONE, F::ZERO, F::NEG_ONE]
}

fn fu(x: &F) -> u64 {
    use p3_field::PrimeField64;
    x.as_canonical_u64()
}

/// First input vector (publics then privates) the real runner accepts.
fn satisfying_inputs(circuit: &p3_circuit::Circuit<F>) -> Option<Inputs<F>> {
    let (np, nv) = (circuit.public_flat_len, circuit.private_flat_len);
    let n = np + nv;
    let vals = if n <= 3 { alphabet() } else { alphabet()[..3].to_vec() };
    for v in input_vectors(&vals, n) {
        let inp = Inputs {
            public: v[..np].to_vec(),
            private: v[np..].to_vec(),
            siblings: vec![],
        };
        if vpcore::quiet_catch(|| vpe3::run_real(circuit, &inp)).is_ok_and(|r| r.is_ok()) {
            return Some(inp);
        }
    }
    None
}

fn fixture(p: &Program, inputs: Option<&Inputs<F>>) -> Result<(Fixture<BbD1>, Inputs<F>), String> {
    let m = materialize::<F, F>(p, &consts())?;
    let circuit = m.builder.build().map_err(|e| format!("build: {e:?}"))?;
    let inp = match inputs {
        Some(i) => i.clone(),
        None => satisfying_inputs(&circuit).ok_or("no satisfying input in the alphabet")?,
    };
    let fx = Fixture::<BbD1>::new(&p.show(), circuit, inp.clone(), TablePacking::default())?;
    Ok((fx, inp))
}

/// Rebuild the fixture of a stored replay.
pub fn rebuild(r: &Value) -> Result<Box<dyn Case>, String> {
    let p: Program = vpcore::serde_json::from_value(r["program"].clone()).map_err(|e| e.to_string())?;
    let to_f = |v: &Value| -> Vec<F> {
        v.as_array()
            .map(|a| a.iter().map(|x| F::from_u64(x.as_u64().unwrap_or(0))).collect())
            .unwrap_or_default()
    };
    let inp = Inputs {
        public: to_f(&r["inputs"]["public"]),
        private: to_f(&r["inputs"]["private"]),
        siblings: vec![],
    };
    Ok(Box::new(fixture(&p, Some(&inp))?.0))
}

pub fn run(
    ctx: &Ctx,
    report: &Report,
    histo: &Histo,
    per_class: &Histo,
    samples: &Mutex<Vec<Value>>,
) -> StageStats {
    let fams = families_scaled(0);
    let seen_keys = SeenSet::default();
    let seen_prune = SeenSet::default();
    let c = |_: ()| AtomicU64::new(0);
    let (evals, nontriv, acc_false, acc_valid, inappl, noops) = (c(()), c(()), c(()), c(()), c(()), c(()));
    let (progs, no_input, not_provable, build_err, harness_err) = (c(()), c(()), c(()), c(()), c(()));
    let harness_msgs: Mutex<Vec<String>> = Mutex::new(vec![]);
    let mut fam_reports = vec![];
    let mut timed_out = false;
    for fam in &fams {
        let stats = Stats::default();
        let t0 = ctx.elapsed_s();
        explore::<F, F>(
            fam,
            &consts(),
            ctx,
            0.92,
            &seen_keys,
            &seen_prune,
            &stats,
            &|_, _| {},
            &|p, _m| {
                let (fx, inp) = match fixture(p, None) {
                    Ok(x) => x,
                    Err(e) => {
                        if e.contains("no satisfying input") {
                            no_input.fetch_add(1, Ordering::Relaxed);
                        } else if e.contains("not accepted") {
                            not_provable.fetch_add(1, Ordering::Relaxed);
                        } else if e.contains("build:") || e.contains("prepare") {
                            build_err.fetch_add(1, Ordering::Relaxed);
                        } else {
                            harness_err.fetch_add(1, Ordering::Relaxed);
                            let mut h = harness_msgs.lock().unwrap();
                            if h.len() < 5 {
                                h.push(format!("{}: {e}", p.show()));
                            }
                        }
                        return;
                    }
                };
                progs.fetch_add(1, Ordering::Relaxed);
                for f in fx.enumerate(&[0]) {
                    if ctx.out_of_time() {
                        return;
                    }
                    let o = fx.evaluate(&f);
                    evals.fetch_add(1, Ordering::Relaxed);
                    let v = match &o.verdict {
                        None => {
                            inappl.fetch_add(1, Ordering::Relaxed);
                            "inapplicable".to_string()
                        }
                        Some(_) if o.noop => {
                            noops.fetch_add(1, Ordering::Relaxed);
                            "noop".to_string()
                        }
                        Some(v) => v.short(),
                    };
                    histo.add(&format!(
                        "{}|{}|{} -> {} / predicate {}",
                        o.site.class, o.site.table, o.site.role, v, o.pred.short()
                    ));
                    per_class.add(&format!("{} -> {} / predicate {}", o.site.class, v, o.pred.short()));
                    if o.pred.fails() {
                        nontriv.fetch_add(1, Ordering::Relaxed);
                    }
                    let acc = o.verdict.as_ref().is_some_and(|v| v.accepted()) && !o.noop;
                    if acc && !o.pred.fails() {
                        acc_valid.fetch_add(1, Ordering::Relaxed);
                    }
                    if o.violation() {
                        acc_false.fetch_add(1, Ordering::Relaxed);
                        let replay = json!({
                            "circuit": p.show(), "program": p, "fault": f.to_json(),
                            "inputs": {"public": inp.public.iter().map(fu).collect::<Vec<_>>(),
                                       "private": inp.private.iter().map(fu).collect::<Vec<_>>()},
                        });
                        report.violation(
                            o.key(),
                            format!(
                                "program {}: fault {} is ACCEPTED although the committed values are not a satisfying assignment ({})",
                                p.show(),
                                f.to_json(),
                                match &o.pred {
                                    vpe3::Pred::Fails(c) => c.detail.clone(),
                                    other => format!("{other:?}"),
                                }
                            ),
                            replay.clone(),
                        );
                        let mut s = samples.lock().unwrap();
                        if s.len() < 16 {
                            s.push(replay);
                        }
                    }
                }
            },
        );
        let to = stats.timed_out.load(Ordering::Relaxed) || ctx.out_of_time();
        timed_out |= to;
        fam_reports.push(json!({
            "family": fam.name, "bounds": fam,
            "histories": stats.histories.load(Ordering::Relaxed),
            "new_canonical_programs": stats.canonical.load(Ordering::Relaxed),
            "exhaustive": !to, "wall_s": ctx.elapsed_s() - t0,
        }));
        eprintln!(
            "programs {}: canonical={} t={:.1}s",
            fam.name,
            stats.canonical.load(Ordering::Relaxed),
            ctx.elapsed_s() - t0
        );
    }
    let he = harness_err.load(Ordering::Relaxed);
    if he > 0 {
        vpcore::machinery_error(&format!(
            "E1 stage: {he} fixtures failed validation for a harness reason, e.g. {:?}",
            harness_msgs.lock().unwrap()
        ));
    }
    let l = |a: &AtomicU64| a.load(Ordering::Relaxed);
    StageStats {
        evaluations: l(&evals),
        nontrivial: l(&nontriv),
        accepted_false: l(&acc_false),
        accepted_valid: l(&acc_valid),
        inapplicable: l(&inappl),
        noops: l(&noops),
        timed_out,
        json: json!({
            "families": fam_reports,
            "programs_with_fixture": l(&progs),
            "programs_without_satisfying_input_in_alphabet": l(&no_input),
            "programs_whose_honest_proof_is_rejected_or_unprovable (C10 territory, skipped)": l(&not_provable),
            "programs_rejected_by_build_or_prepare": l(&build_err),
            "faults_evaluated": l(&evals),
            "input_alphabet": alphabet().iter().map(fu).collect::<Vec<_>>(),
            "const_alphabet": consts().iter().map(fu).collect::<Vec<_>>(),
        }),
    }
}
