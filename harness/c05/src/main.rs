//! C05 — the in-circuit Fiat–Shamir transcript equals the native transcript.
//!
//! Explicit-state BFS (engine E5) over the *product automaton* of
//!   * the native `p3_challenger::DuplexChallenger` (the specification), and
//!   * the repository's `p3_recursion::CircuitChallenger` driving a real `CircuitBuilder`,
//!     compiled by the real `build()` and executed by the real `CircuitRunner`.
//!
//! A state is a *history* of challenger operations. For every explored history a FRESH circuit
//! is built by replaying the history on the real `CircuitChallenger`; it is run, and
//!   (a) every value sampled along the history (`sample`, `sample_ext`, `sample_bits`) is read
//!       from the run's witness and compared with the native value,
//!   (b) after EVERY step the targets exposed by the hook `CircuitChallenger::verif_snapshot()`
//!       (state, input buffer, output buffer) are read from the witness and compared with the
//!       native `sponge_state`, `input_buffer`, `output_buffer`,
//!   (c) a proof-of-work check with a witness ground natively must run, one with a witness the
//!       native challenger rejects must not run (the circuit asserts the bits are zero).
//!
//! Alphabet: observe(public input | constant), observe_ext(public | constant | the last sampled
//! extension target), sample, sample_ext, sample_bits(1|3), check_pow_witness(bits 0|1|2, witness
//! ground natively), check_pow_witness(bits 1|2, a witness for which the native sampled bits are a
//! given non-zero pattern — rejected natively, terminal), clear; the un-de-duplicated pass adds
//! value-dependent constants (0, small integers equal to the length tags, embedded base
//! constants for observe_ext). `clear` has no native method; exactly like the
//! repository's own test (`test_transcript_clear_produces_fresh_state`) its native meaning is
//! "a new DuplexChallenger". The native PoW check is the body of
//! `GrindingChallenger::check_witness` (bits==0 → true; observe; sample_bits == 0), which is
//! also what the repository's tests use.
//!
//! ### Whole public call surface (not only the per-element methods)
//! The alphabet drives EVERY public method of `CircuitChallenger` and of the trait it implements
//! (`CALL_SURFACE` below is the inventory), because a method with a default implementation
//! (`observe_slice`, `observe_ext_slice`, `sample_ext_vec`) can be overridden by the impl and then
//! is its own code path: `observe_slice` / `observe_ext_slice` with 0, 1 and 2 elements (native:
//! `CanObserve::observe_slice` / `FieldChallenger::observe_algebra_slice`, i.e. the per-element
//! observes in order; the empty slice is a no-op), `sample_ext_vec(0|1|2)` (native: that many
//! `sample_algebra_element`), `sample_bits(0)`, and the inherent `init` called explicitly (native:
//! nothing). These actions are part of the three BFS alphabets (so each is taken from every
//! reachable canonical state), and a dedicated un-de-duplicated "slice surface" pass enumerates
//! all histories up to depth 3 (quick) / 4 (thorough) over {per-element core ∪ all slice
//! actions}. The de-duplication argument below covers them unchanged: whatever an override does,
//! it is code of the same object, whose control flow can depend only on the fields exposed by
//! `verif_snapshot()` and on the builder branches named below; after every slice action the whole
//! snapshot is compared with the native state like after any other action.
//!
//! ## Soundness of the de-duplication (canonical key)
//! The key of a state is
//!   (native |input_buffer|, native |output_buffer|, circuit |input_buffer|, |output_buffer|,
//!    initialized, duplexed_once, const-ness bit of every state / input / output target,
//!    min(#actions that permuted since the last clear, 3), "a sample_ext happened" bit).
//! Argument that equal keys have equal futures, GIVEN that in both states the values of all
//! state/buffer targets were *checked* (not assumed) equal to the native ones:
//!   * `DuplexChallenger`'s control flow depends only on the two buffer lengths; its data is
//!     (sponge_state, buffers).
//!   * `CircuitChallenger`'s control flow depends on the buffer lengths and the two flags; the
//!     builder calls it issues (`recompose_base_coeffs_to_ext`, `decompose_ext_to_base_coeffs`,
//!     `add`) branch on whether their operands are `Const` nodes (constant folding) — that is the
//!     const-ness mask — and on the coefficient-provenance cache, which only ever contains
//!     entries for constants and for recomposed *outputs* (never observed back by this alphabet),
//!     so it is determined by the mask as well. For D=1 the capacity lives in the permutation
//!     table's chain state; with only challenger permutations in the circuit that chain state is
//!     the output of the previous challenger permutation, i.e. the values of `state[RATE..]`,
//!     which are compared.
//!   * Observed values are fresh tags (public inputs or constants that collide with nothing
//!     the challenger itself creates), so no value-dependent aliasing distinguishes two
//!     histories with the same key. Value-dependent constants (0 and the small integers equal
//!     to the length tags) are therefore NOT part of the de-duplicated runs; they are covered by
//!     the separate un-de-duplicated pass over *all* histories up to a small depth.
//!   * The permutation counter only refines the key (refinement can never merge more). The
//!     last bit is the enabledness of the echo action (observe_ext of the last sampled extension
//!     target); which target is echoed is data: its coefficients are non-constant sampled
//!     targets, exactly like a public observation as far as the builder's branches go.
//!
//! ## Reporting
//! Per case only the FIRST divergence is reported (clauses: `sampled_value`, `sponge_state`,
//! `honest_error`, `pow_wrong_accepted`). Violating cases are grouped by (configuration,
//! recompose, clause); the shortest history of a group is 1-minimised (drop single actions
//! while the clause stays violated) and that minimal history is the canonical key.
//! What the argument does not cover: whole-circuit effects of the optimiser on long circuits
//! (the subject of C02/C03). The un-de-duplicated pass runs every short history as its own
//! circuit, and every BFS state is reached through its shortest history.

use std::collections::{BTreeMap, HashMap, HashSet};
use std::marker::PhantomData;
use std::sync::Mutex;
use std::sync::atomic::{AtomicBool, AtomicU64, Ordering};
use std::time::Instant;

use p3_baby_bear::{BabyBear, default_babybear_poseidon1_16, default_babybear_poseidon2_16};
use p3_challenger::{CanObserve, CanSample, CanSampleBits, DuplexChallenger, FieldChallenger};
use p3_circuit::ops::{
    Poseidon1Config, Poseidon2Config, generate_poseidon1_trace, generate_poseidon2_trace,
    generate_recompose_trace,
};
use p3_circuit::{Circuit, CircuitBuilder, Expr, ExprId, Traces};
use p3_field::extension::{BinomialExtensionField, QuinticTrinomialExtensionField};
use p3_field::{BasedVectorSpace, ExtensionField, PrimeCharacteristicRing, PrimeField64};
use p3_goldilocks::poseidon1::default_goldilocks_poseidon1_8;
use p3_goldilocks::{Goldilocks, default_goldilocks_poseidon2_8};
use p3_koala_bear::{KoalaBear, default_koalabear_poseidon1_16, default_koalabear_poseidon2_16};
use p3_recursion::traits::RecursiveChallenger;
use p3_recursion::{ChallengerPermConfig, CircuitChallenger};
use p3_symmetric::CryptographicPermutation;
use p3_test_utils::LiftPermToQuintic;
use vpcore::rayon::prelude::*;
use vpcore::serde_json::{Value, json};
use vpcore::{Ctx, Histo, Report, finish, machinery_error, quiet_catch};

// =======================================================================================
// Alphabet

/// Where an observed value comes from.
#[derive(Clone, Copy, PartialEq, Eq, Hash, Debug, PartialOrd, Ord)]
enum Src {
    /// fresh public input carrying a tag value
    Pub,
    /// constant carrying a tag value (collides with nothing the challenger creates)
    Const,
    /// small constant in 1..=8 — the same `Const` node as a length tag / ONE
    Small,
    /// the constant 0 — the builder's shared `ExprId::ZERO`
    Zero,
    /// (observe_ext only) the target returned by the most recent `sample_ext` of this history:
    /// `decompose_ext_to_base_coeffs` then takes its coefficient-provenance shortcut
    Echo,
}

/// Argument of a slice-level observe call: 0, 1 or 2 targets, each a fresh public input (`P`) or
/// a fresh tag constant (`C`).
#[derive(Clone, Copy, PartialEq, Eq, Hash, Debug, PartialOrd, Ord)]
enum Sl {
    E,
    P,
    C,
    PP,
    CC,
    PC,
}
impl Sl {
    /// per element: is it a public input?
    fn publics(&self) -> &'static [bool] {
        match self {
            Sl::E => &[],
            Sl::P => &[true],
            Sl::C => &[false],
            Sl::PP => &[true, true],
            Sl::CC => &[false, false],
            Sl::PC => &[true, false],
        }
    }
    fn suffix(&self) -> &'static str {
        match self {
            Sl::E => "0",
            Sl::P => "p",
            Sl::C => "c",
            Sl::PP => "pp",
            Sl::CC => "cc",
            Sl::PC => "pc",
        }
    }
    fn parse(s: &str) -> Option<Sl> {
        Some(match s {
            "0" => Sl::E,
            "p" => Sl::P,
            "c" => Sl::C,
            "pp" => Sl::PP,
            "cc" => Sl::CC,
            "pc" => Sl::PC,
            _ => return None,
        })
    }
}

#[derive(Clone, Copy, PartialEq, Eq, Hash, Debug, PartialOrd, Ord)]
enum Act {
    /// the inherent `CircuitChallenger::init` called explicitly (public; native meaning: nothing)
    Init,
    /// `RecursiveChallenger::observe_slice(&[..])`; native `CanObserve::observe_slice`
    /// (= the per-element observes in order, empty = no-op)
    ObsSlice(Sl),
    /// `RecursiveChallenger::observe_ext_slice(&[..])`; native `observe_algebra_slice`
    ObsExtSlice(Sl),
    /// `RecursiveChallenger::sample_ext_vec(count)`; native = `count` × `sample_algebra_element`
    SampleExtVec(u8),
    Obs(Src),
    /// observe an extension element: `Pub`/`Const` = D tag coefficients, `Small` = a small base
    /// constant embedded (what the repo's tests observe), `Echo` = the last sampled ext target
    ObsExt(Src),
    Sample,
    SampleExt,
    Bits(u8),
    /// `check_pow_witness` with a witness ground natively such that the native
    /// `sample_bits(bits)` after observing it equals `want`: 0 = valid witness; non-zero = a
    /// witness the native challenger rejects (terminal), one per non-zero bit pattern so that
    /// every individual bit assertion of the circuit is exercised
    Pow { bits: u8, public: bool, want: u8 },
    Clear,
}

impl Act {
    fn token(&self) -> String {
        match self {
            Act::Init => "init".into(),
            Act::ObsSlice(s) => format!("OS{}", s.suffix()),
            Act::ObsExtSlice(s) => format!("XS{}", s.suffix()),
            Act::SampleExtVec(n) => format!("SXV{n}"),
            Act::Obs(Src::Pub) => "op".into(),
            Act::Obs(Src::Const) => "oc".into(),
            Act::Obs(Src::Small) => "os".into(),
            Act::Obs(Src::Zero) => "oz".into(),
            Act::ObsExt(Src::Pub) => "xp".into(),
            Act::ObsExt(Src::Small) => "xs".into(),
            Act::ObsExt(Src::Echo) => "xe".into(),
            Act::ObsExt(_) => "xc".into(),
            Act::Obs(Src::Echo) => "o?".into(),
            Act::Sample => "s".into(),
            Act::SampleExt => "sx".into(),
            Act::Bits(n) => format!("b{n}"),
            Act::Pow { bits: 0, .. } => "w0".into(),
            Act::Pow { bits, public, want: 0 } => {
                format!("w{}{}", bits, if *public { "p" } else { "c" })
            }
            Act::Pow { bits, public, want } => {
                format!("W{}{}{}", bits, if *public { "p" } else { "c" }, want)
            }
            Act::Clear => "clr".into(),
        }
    }
    fn parse(t: &str) -> Option<Act> {
        Some(match t {
            "op" => Act::Obs(Src::Pub),
            "oc" => Act::Obs(Src::Const),
            "os" => Act::Obs(Src::Small),
            "oz" => Act::Obs(Src::Zero),
            "xp" => Act::ObsExt(Src::Pub),
            "xc" => Act::ObsExt(Src::Const),
            "xs" => Act::ObsExt(Src::Small),
            "xe" => Act::ObsExt(Src::Echo),
            "s" => Act::Sample,
            "sx" => Act::SampleExt,
            "clr" => Act::Clear,
            "w0" => Act::Pow { bits: 0, public: false, want: 0 },
            "init" => Act::Init,
            _ => {
                let b = t.as_bytes();
                if let Some(r) = t.strip_prefix("OS") {
                    Act::ObsSlice(Sl::parse(r)?)
                } else if let Some(r) = t.strip_prefix("XS") {
                    Act::ObsExtSlice(Sl::parse(r)?)
                } else if let Some(r) = t.strip_prefix("SXV") {
                    Act::SampleExtVec(r.parse().ok()?)
                } else if b.len() >= 2 && b[0] == b'b' {
                    Act::Bits(t[1..].parse().ok()?)
                } else if b.len() == 3 && b[0] == b'w' {
                    Act::Pow { bits: t[1..2].parse().ok()?, public: b[2] == b'p', want: 0 }
                } else if b.len() == 4 && b[0] == b'W' {
                    let want: u8 = t[3..4].parse().ok()?;
                    if want == 0 {
                        return None;
                    }
                    Act::Pow { bits: t[1..2].parse().ok()?, public: b[2] == b'p', want }
                } else {
                    return None;
                }
            }
        })
    }
    fn is_terminal(&self) -> bool {
        matches!(self, Act::Pow { want, .. } if *want != 0)
    }
}

fn show(h: &[Act]) -> String {
    h.iter().map(|a| a.token()).collect::<Vec<_>>().join(",")
}
fn parse_hist(s: &str) -> Option<Vec<Act>> {
    if s.is_empty() {
        return Some(vec![]);
    }
    s.split(',').map(Act::parse).collect()
}

#[derive(Clone, Copy, PartialEq, Eq, Debug)]
enum Mode {
    /// every observation / PoW witness is a public input
    Public,
    /// every observation / PoW witness is a constant (what the repository's tests do)
    Constant,
    /// both kinds, de-duplicated on the const-ness mask
    Mixed,
    /// both kinds + value-dependent constants, NO de-duplication, bounded depth
    Undedup,
    /// "slice surface": a per-element core ∪ every slice-level / vector-level / inherent public
    /// method with arguments of length 0, 1, 2; NO de-duplication, bounded depth
    Surface,
}
impl Mode {
    fn tag(&self) -> &'static str {
        match self {
            Mode::Public => "public",
            Mode::Constant => "constant",
            Mode::Mixed => "mixed",
            Mode::Undedup => "undedup",
            Mode::Surface => "surface",
        }
    }
    fn dedup(&self) -> bool {
        !matches!(self, Mode::Undedup | Mode::Surface)
    }
    /// simplest first
    fn alphabet(&self) -> Vec<Act> {
        let pow = |bits, public, want| Act::Pow { bits, public, want };
        match self {
            Mode::Public | Mode::Constant => {
                let p = *self == Mode::Public;
                let s = if p { Src::Pub } else { Src::Const };
                vec![
                    Act::Obs(s),
                    Act::Sample,
                    Act::ObsExt(s),
                    Act::SampleExt,
                    Act::Bits(1),
                    Act::Bits(3),
                    pow(0, false, 0),
                    pow(1, p, 0),
                    pow(2, p, 0),
                    pow(1, p, 1),
                    pow(2, p, 1),
                    pow(2, p, 2),
                    Act::Clear,
                    // ---- the rest of the public call surface (see `CALL_SURFACE`)
                    Act::Init,
                    Act::Bits(0),
                    Act::ObsSlice(Sl::E),
                    Act::ObsSlice(if p { Sl::P } else { Sl::C }),
                    Act::ObsSlice(if p { Sl::PP } else { Sl::CC }),
                    Act::ObsExtSlice(Sl::E),
                    Act::ObsExtSlice(if p { Sl::P } else { Sl::C }),
                    Act::ObsExtSlice(if p { Sl::PP } else { Sl::CC }),
                    Act::SampleExtVec(0),
                    Act::SampleExtVec(1),
                    Act::SampleExtVec(2),
                ]
            }
            Mode::Surface => {
                let mut v = vec![
                    // per-element core
                    Act::Obs(Src::Pub),
                    Act::Obs(Src::Const),
                    Act::Sample,
                    Act::ObsExt(Src::Pub),
                    Act::SampleExt,
                    Act::Bits(1),
                    pow(1, true, 0),
                    Act::Clear,
                    // slice / vector / inherent surface
                    Act::Init,
                    Act::Bits(0),
                ];
                for sl in [Sl::E, Sl::P, Sl::C, Sl::PP, Sl::CC, Sl::PC] {
                    v.push(Act::ObsSlice(sl));
                }
                for sl in [Sl::E, Sl::P, Sl::C, Sl::PP, Sl::CC, Sl::PC] {
                    v.push(Act::ObsExtSlice(sl));
                }
                v.extend([Act::SampleExtVec(0), Act::SampleExtVec(1), Act::SampleExtVec(2)]);
                v
            }
            Mode::Mixed | Mode::Undedup => {
                let mut v = vec![Act::Obs(Src::Pub), Act::Obs(Src::Const)];
                if *self == Mode::Undedup {
                    v.push(Act::Obs(Src::Small));
                    v.push(Act::Obs(Src::Zero));
                }
                v.extend([
                    Act::Sample,
                    Act::ObsExt(Src::Pub),
                    Act::ObsExt(Src::Const),
                ]);
                if *self == Mode::Undedup {
                    v.push(Act::ObsExt(Src::Small));
                }
                v.extend([
                    Act::SampleExt,
                    Act::ObsExt(Src::Echo),
                    Act::Bits(1),
                    Act::Bits(3),
                    pow(0, false, 0),
                    pow(1, true, 0),
                    pow(2, false, 0),
                    pow(1, false, 1),
                    pow(2, true, 2),
                    pow(2, false, 1),
                    Act::Clear,
                ]);
                if *self == Mode::Mixed {
                    // the rest of the public call surface; homogeneous two-element slices are in
                    // the pure-public / pure-constant runs, the mixed pair is here
                    v.extend([Act::Init, Act::Bits(0)]);
                    for sl in [Sl::E, Sl::P, Sl::C, Sl::PC] {
                        v.push(Act::ObsSlice(sl));
                    }
                    for sl in [Sl::E, Sl::P, Sl::C, Sl::PC] {
                        v.push(Act::ObsExtSlice(sl));
                    }
                    v.extend([Act::SampleExtVec(0), Act::SampleExtVec(1), Act::SampleExtVec(2)]);
                }
                v
            }
        }
    }
}

// =======================================================================================
// One case = one history replayed on both sides

#[derive(Default, Clone)]
struct CaseResult {
    /// canonical state key; `None` for terminal / violating cases (never expanded)
    key: Option<String>,
    /// the last action is not enabled in this history (echo without a previous sample_ext)
    disabled: bool,
    terminal: bool,
    /// (clause, detail)
    viols: Vec<(&'static str, String)>,
    values_compared: u64,
    unmapped: u64,
    /// canonical u64 of every base value sampled natively (for the distinct-outcome count)
    sampled: Vec<u64>,
    perm_actions: u64,
    /// outcome label for the histogram
    outcome: &'static str,
    summary: String,
}

trait DynCfg: Send + Sync {
    fn name(&self) -> &'static str;
    fn describe(&self) -> String;
    fn run_case(&self, recompose: bool, hist: &[Act], seed: u64) -> CaseResult;
}

struct Spec<BF, EF: p3_field::Field, P, PC: ChallengerPermConfig, const W: usize, const R: usize> {
    name: &'static str,
    what: &'static str,
    /// built once (Poseidon1 constant derivation is expensive), cloned per case
    perm: P,
    make_builder: fn(bool, &P) -> CircuitBuilder<EF>,
    make_cc: fn() -> CircuitChallenger<W, R, PC>,
    _p: PhantomData<fn() -> (BF, EF)>,
}

enum Step<BF, EF> {
    Obs { v: BF, src: Src },
    ObsExt { v: EF, src: Src },
    Sample { exp: BF },
    SampleExt { exp: EF },
    Bits { n: usize, exp: usize },
    Pow { bits: usize, w: BF, public: bool, ok: bool },
    Clear,
    Init,
    /// (value, is a public input) per element
    ObsSlice { vs: Vec<(BF, bool)> },
    ObsExtSlice { vs: Vec<(EF, bool)> },
    SampleExtVec { exps: Vec<EF> },
}

type Snap = (Vec<ExprId>, Vec<ExprId>, Vec<ExprId>, bool, bool);

struct CircuitOut<EF> {
    snaps: Vec<Snap>,
    /// per step: the targets returned by a sampling call
    sampled: Vec<Vec<ExprId>>,
    is_const: Vec<bool>,
    circuit: Circuit<EF>,
    traces: Traces<EF>,
}

fn tag_value<BF: PrimeField64>(seed: u64, k: usize, j: usize) -> BF {
    // non-zero, pairwise distinct for k < 60, j < 8, far from the small integers the
    // challenger itself uses (0, length tags 1..=8); VERIF_SEED only rotates the values.
    BF::from_u64(1000 + 97 * k as u64 + 11 * j as u64 + 7919 * (seed % 997))
}

impl<BF, EF, P, PC, const W: usize, const R: usize> DynCfg for Spec<BF, EF, P, PC, W, R>
where
    BF: PrimeField64 + Default,
    EF: ExtensionField<BF> + Eq + core::hash::Hash,
    P: CryptographicPermutation<[BF; W]> + Clone + Send + Sync,
    PC: ChallengerPermConfig,
{
    fn name(&self) -> &'static str {
        self.name
    }
    fn describe(&self) -> String {
        format!(
            "{}: {} (WIDTH {W}, RATE {R}, challenge degree {})",
            self.name,
            self.what,
            <EF as BasedVectorSpace<BF>>::DIMENSION
        )
    }

    fn run_case(&self, recompose: bool, hist: &[Act], seed: u64) -> CaseResult {
        let mut res = CaseResult::default();
        let d = <EF as BasedVectorSpace<BF>>::DIMENSION;
        let emb = |x: BF| -> EF { EF::from(x) };

        // ------------------------------------------------------------------ native side
        let perm = self.perm.clone();
        let mut nat = DuplexChallenger::<BF, P, W, R>::new(perm.clone());
        let mut steps: Vec<Step<BF, EF>> = Vec::with_capacity(hist.len());
        let mut nsnaps: Vec<(Vec<BF>, Vec<BF>, Vec<BF>)> = Vec::with_capacity(hist.len());
        let mut perm_actions = 0u64;
        let mut perm_actions_since_clear = 0u64;
        let mut last_ext: Option<EF> = None;
        for (k, a) in hist.iter().enumerate() {
            if res.terminal {
                machinery_error("history continues after a wrong PoW witness");
            }
            let before = nat.sponge_state;
            let st = match *a {
                Act::Obs(src) => {
                    let v = match src {
                        Src::Pub | Src::Const => tag_value::<BF>(seed, k, 0),
                        Src::Small => BF::from_u64((k % 8) as u64 + 1),
                        Src::Zero => BF::ZERO,
                        Src::Echo => machinery_error("echo is an observe_ext source"),
                    };
                    nat.observe(v);
                    Step::Obs { v, src }
                }
                Act::ObsExt(src) => {
                    let v = match src {
                        Src::Small => emb(BF::from_u64((k % 8) as u64 + 1)),
                        Src::Echo => match last_ext {
                            Some(v) => v,
                            None => {
                                if k + 1 != hist.len() {
                                    machinery_error("history continues after a disabled echo");
                                }
                                res.disabled = true;
                                res.outcome = "disabled";
                                return res;
                            }
                        },
                        _ => EF::from_basis_coefficients_fn(|j| tag_value::<BF>(seed, k, j + 1)),
                    };
                    nat.observe_algebra_element(v);
                    Step::ObsExt { v, src }
                }
                Act::Sample => {
                    let exp: BF = nat.sample();
                    res.sampled.push(exp.as_canonical_u64());
                    Step::Sample { exp }
                }
                Act::SampleExt => {
                    let exp: EF = nat.sample_algebra_element();
                    last_ext = Some(exp);
                    for c in exp.as_basis_coefficients_slice() {
                        res.sampled.push(c.as_canonical_u64());
                    }
                    Step::SampleExt { exp }
                }
                Act::Bits(n) => {
                    let exp: usize = nat.sample_bits(n as usize);
                    res.sampled.push(exp as u64);
                    Step::Bits { n: n as usize, exp }
                }
                Act::Pow { bits, public, want } => {
                    let bits = bits as usize;
                    let wrong = want != 0;
                    if bits == 0 {
                        // GrindingChallenger::check_witness: `if bits == 0 { return true }`
                        Step::Pow { bits, w: BF::ZERO, public: false, ok: true }
                    } else {
                        // grind on clones of the native challenger, exactly like the repo's tests
                        let mut found = None;
                        for c in 0..100_000u64 {
                            let w = BF::from_u64(500_000 + c);
                            let mut probe = nat.clone();
                            probe.observe(w);
                            if probe.sample_bits(bits) == want as usize {
                                found = Some(w);
                                break;
                            }
                        }
                        let Some(w) = found else {
                            machinery_error("no PoW witness found natively");
                        };
                        nat.observe(w);
                        let ok = nat.sample_bits(bits) == 0;
                        if ok == wrong {
                            machinery_error("native PoW replay disagrees with the grind");
                        }
                        if wrong {
                            res.terminal = true;
                        }
                        Step::Pow { bits, w, public, ok }
                    }
                }
                Act::Init => Step::Init, // native: nothing to do
                Act::ObsSlice(sl) => {
                    let vs: Vec<(BF, bool)> = sl
                        .publics()
                        .iter()
                        .enumerate()
                        .map(|(e, p)| (tag_value::<BF>(seed, k, 6 * e), *p))
                        .collect();
                    // the native slice-level method itself (empty slice = no-op)
                    let raw: Vec<BF> = vs.iter().map(|(v, _)| *v).collect();
                    nat.observe_slice(&raw);
                    Step::ObsSlice { vs }
                }
                Act::ObsExtSlice(sl) => {
                    let vs: Vec<(EF, bool)> = sl
                        .publics()
                        .iter()
                        .enumerate()
                        .map(|(e, p)| {
                            (EF::from_basis_coefficients_fn(|j| tag_value::<BF>(seed, k, 6 * e + j + 1)), *p)
                        })
                        .collect();
                    let raw: Vec<EF> = vs.iter().map(|(v, _)| *v).collect();
                    nat.observe_algebra_slice(&raw);
                    Step::ObsExtSlice { vs }
                }
                Act::SampleExtVec(n) => {
                    let exps: Vec<EF> = (0..n).map(|_| nat.sample_algebra_element()).collect();
                    for exp in &exps {
                        last_ext = Some(*exp);
                        for c in exp.as_basis_coefficients_slice() {
                            res.sampled.push(c.as_canonical_u64());
                        }
                    }
                    Step::SampleExtVec { exps }
                }
                Act::Clear => {
                    // no native `clear`: the repo's own test equates it with a fresh challenger
                    nat = DuplexChallenger::<BF, P, W, R>::new(perm.clone());
                    perm_actions_since_clear = 0;
                    Step::Clear
                }
            };
            if nat.sponge_state != before && !matches!(a, Act::Clear) {
                perm_actions += 1;
                perm_actions_since_clear += 1;
            }
            nsnaps.push((
                nat.sponge_state.to_vec(),
                nat.input_buffer.clone(),
                nat.output_buffer.clone(),
            ));
            steps.push(st);
        }
        res.perm_actions = perm_actions;

        if hist.is_empty() {
            // root: nothing to run; key of the two untouched objects
            let cc = (self.make_cc)();
            let (s, i, o, init, dup) = cc.verif_snapshot();
            res.key = Some(format!(
                "n{}:{} c{}:{} st{} i{} d{} m- p0 e0",
                nat.input_buffer.len(),
                nat.output_buffer.len(),
                i.len(),
                o.len(),
                s.len(),
                init as u8,
                dup as u8
            ));
            res.outcome = "root";
            return res;
        }

        // ------------------------------------------------------------------ circuit side
        let expect_reject = res.terminal;
        let circ: Result<Result<CircuitOut<EF>, String>, String> = quiet_catch(|| {
            let mut b = (self.make_builder)(recompose, &self.perm);
            let mut cc = (self.make_cc)();
            let mut pubs: Vec<EF> = vec![];
            let mut snaps: Vec<Snap> = vec![];
            let mut sampled: Vec<Vec<ExprId>> = vec![];
            let mut last_ext_target: Option<ExprId> = None;
            for st in &steps {
                let mut got: Vec<ExprId> = vec![];
                match st {
                    Step::Obs { v, src } => {
                        let t = if *src == Src::Pub {
                            pubs.push(emb(*v));
                            b.public_input()
                        } else {
                            b.define_const(emb(*v))
                        };
                        RecursiveChallenger::<BF, EF>::observe(&mut cc, &mut b, t);
                    }
                    Step::ObsExt { v, src } => {
                        let t = match src {
                            Src::Pub => {
                                pubs.push(*v);
                                b.public_input()
                            }
                            Src::Echo => last_ext_target.expect("echo enabled"),
                            _ => b.define_const(*v),
                        };
                        RecursiveChallenger::<BF, EF>::observe_ext(&mut cc, &mut b, t);
                    }
                    Step::Sample { .. } => {
                        got.push(RecursiveChallenger::<BF, EF>::sample(&mut cc, &mut b));
                    }
                    Step::SampleExt { .. } => {
                        let t = RecursiveChallenger::<BF, EF>::sample_ext(&mut cc, &mut b);
                        last_ext_target = Some(t);
                        got.push(t);
                    }
                    Step::Bits { n, .. } => {
                        got = RecursiveChallenger::<BF, EF>::sample_bits(&mut cc, &mut b, *n)
                            .map_err(|e| format!("build: sample_bits({n}): {e:?}"))?;
                    }
                    Step::Pow { bits, w, public, .. } => {
                        let t = if *public {
                            pubs.push(emb(*w));
                            b.public_input()
                        } else {
                            b.define_const(emb(*w))
                        };
                        RecursiveChallenger::<BF, EF>::check_pow_witness(&mut cc, &mut b, *bits, t)
                            .map_err(|e| format!("build: check_pow_witness({bits}): {e:?}"))?;
                    }
                    Step::Clear => RecursiveChallenger::<BF, EF>::clear(&mut cc, &mut b),
                    Step::Init => cc.init::<BF, EF>(&mut b),
                    Step::ObsSlice { vs } => {
                        let ts: Vec<ExprId> = vs
                            .iter()
                            .map(|(v, p)| {
                                if *p {
                                    pubs.push(emb(*v));
                                    b.public_input()
                                } else {
                                    b.define_const(emb(*v))
                                }
                            })
                            .collect();
                        RecursiveChallenger::<BF, EF>::observe_slice(&mut cc, &mut b, &ts);
                    }
                    Step::ObsExtSlice { vs } => {
                        let ts: Vec<ExprId> = vs
                            .iter()
                            .map(|(v, p)| {
                                if *p {
                                    pubs.push(*v);
                                    b.public_input()
                                } else {
                                    b.define_const(*v)
                                }
                            })
                            .collect();
                        RecursiveChallenger::<BF, EF>::observe_ext_slice(&mut cc, &mut b, &ts);
                    }
                    Step::SampleExtVec { exps } => {
                        got = RecursiveChallenger::<BF, EF>::sample_ext_vec(&mut cc, &mut b, exps.len());
                        if let Some(t) = got.last() {
                            last_ext_target = Some(*t);
                        }
                    }
                }
                sampled.push(got);
                snaps.push(cc.verif_snapshot());
            }
            let is_const: Vec<bool> = b
                .verif_snapshot()
                .0
                .iter()
                .map(|n| matches!(n, Expr::Const(_)))
                .collect();
            let circuit = b.build().map_err(|e| format!("build: {e:?}"))?;
            let traces = {
                let mut r = circuit.runner();
                r.set_public_inputs(&pubs)
                    .map_err(|e| format!("run: set_public_inputs: {e:?}"))?;
                r.run().map_err(|e| format!("run: {e:?}"))?
            };
            Ok(CircuitOut { snaps, sampled, is_const, circuit, traces })
        });
        let circ: Result<CircuitOut<EF>, String> = match circ {
            Ok(r) => r,
            Err(p) => Err(format!("panic: {p}")),
        };

        let out = match circ {
            Err(e) => {
                if expect_reject {
                    res.outcome = "pow_wrong_rejected";
                    res.summary = format!("wrong PoW witness rejected on both sides ({})", trunc(&e));
                } else {
                    res.outcome = "honest_error";
                    res.viols.push(("honest_error", trunc(&e)));
                }
                return res;
            }
            Ok(o) => o,
        };
        // ------------------------------------------------------------------ oracle
        // Mismatches are collected in step order (within a step: sampled values first, then the
        // sponge state); only the FIRST divergence of a case is reported, everything after it is
        // a consequence.
        let mut unmapped = 0u64;
        let mut compared = 0u64;
        let mut val = |e: ExprId| -> Option<EF> {
            let v = out
                .circuit
                .expr_to_widx
                .get(&e)
                .and_then(|w| out.traces.witness_trace.get_value(*w).copied());
            if v.is_none() {
                unmapped += 1;
            } else {
                compared += 1;
            }
            v
        };
        let fu = |x: &BF| x.as_canonical_u64();
        let show_ef = |x: &EF| -> String {
            let c: Vec<u64> = x.as_basis_coefficients_slice().iter().map(fu).collect();
            format!("{c:?}")
        };
        let mut viols: Vec<(&'static str, String)> = vec![];
        let mut sample_txt: Vec<String> = vec![];
        for (k, st) in steps.iter().enumerate() {
            // (a) sampled values
            match st {
                Step::Sample { exp } => {
                    if let Some(v) = val(out.sampled[k][0]) {
                        sample_txt.push(format!("s@{k}={}", fu(exp)));
                        if v != emb(*exp) {
                            viols.push((
                                "sampled_value",
                                format!("step {k}: native {} circuit {}", fu(exp), show_ef(&v)),
                            ));
                        }
                    }
                }
                Step::SampleExt { exp } => {
                    if let Some(v) = val(out.sampled[k][0]) {
                        sample_txt.push(format!("sx@{k}={}", show_ef(exp)));
                        if v != *exp {
                            viols.push((
                                "sampled_value",
                                format!("step {k}: native {} circuit {}", show_ef(exp), show_ef(&v)),
                            ));
                        }
                    }
                }
                Step::SampleExtVec { exps } => {
                    if out.sampled[k].len() != exps.len() {
                        viols.push((
                            "sampled_value",
                            format!("step {k}: {} targets for sample_ext_vec({})", out.sampled[k].len(), exps.len()),
                        ));
                    }
                    for (i, (t, exp)) in out.sampled[k].iter().zip(exps.iter()).enumerate() {
                        if let Some(v) = val(*t) {
                            sample_txt.push(format!("sxv[{i}]@{k}={}", show_ef(exp)));
                            if v != *exp {
                                viols.push((
                                    "sampled_value",
                                    format!("step {k}: element {i} native {} circuit {}", show_ef(exp), show_ef(&v)),
                                ));
                            }
                        }
                    }
                }
                Step::Bits { n, exp } => {
                    if out.sampled[k].len() != *n {
                        viols.push((
                            "sampled_value",
                            format!("step {k}: {} bit targets for num_bits {n}", out.sampled[k].len()),
                        ));
                    }
                    sample_txt.push(format!("b{n}@{k}={exp}"));
                    for (i, t) in out.sampled[k].iter().enumerate() {
                        if let Some(v) = val(*t)
                            && v != EF::from_bool((exp >> i) & 1 == 1)
                        {
                            viols.push((
                                "sampled_value",
                                format!(
                                    "step {k}: bit {i} native {} circuit {}",
                                    (exp >> i) & 1,
                                    show_ef(&v)
                                ),
                            ));
                        }
                    }
                }
                _ => {}
            }
            // (b) whole sponge state after the step
            let (cs, ci, co, init, _) = &out.snaps[k];
            let (ns, ni, no) = &nsnaps[k];
            if ci.len() != ni.len() || co.len() != no.len() {
                viols.push((
                    "sponge_state",
                    format!(
                        "step {k}: native |in|={} |out|={} circuit |in|={} |out|={}",
                        ni.len(),
                        no.len(),
                        ci.len(),
                        co.len()
                    ),
                ));
                continue;
            }
            for (name, cts, nvs) in [("input_buffer", ci, ni), ("output_buffer", co, no)] {
                for (i, (t, nv)) in cts.iter().zip(nvs.iter()).enumerate() {
                    if let Some(v) = val(*t)
                        && v != emb(*nv)
                    {
                        viols.push((
                            "sponge_state",
                            format!("step {k}: {name}[{i}] native {} circuit {}", fu(nv), show_ef(&v)),
                        ));
                    }
                }
            }
            if *init {
                if cs.len() != W {
                    viols.push(("sponge_state", format!("step {k}: {} state targets, WIDTH {W}", cs.len())));
                } else {
                    for (i, (t, nv)) in cs.iter().zip(ns.iter()).enumerate() {
                        if let Some(v) = val(*t)
                            && v != emb(*nv)
                        {
                            viols.push((
                                "sponge_state",
                                format!("step {k}: state[{i}] native {} circuit {}", fu(nv), show_ef(&v)),
                            ));
                        }
                    }
                }
            } else if ns.iter().any(|x| *x != BF::ZERO) {
                viols.push(("sponge_state", format!("step {k}: circuit uninitialised, native state non-zero")));
            }
        }
        drop(val);
        res.values_compared = compared;
        res.unmapped = unmapped;
        res.summary = format!("{} | native==circuit: {}", show(hist), sample_txt.join(" "));
        if let Some(first) = viols.into_iter().next() {
            res.viols.push(first);
            res.outcome = "mismatch";
            return res;
        }
        if expect_reject {
            // the transcript agrees up to and including the PoW step, yet the circuit ran
            res.outcome = "pow_wrong_accepted";
            res.viols.push((
                "pow_wrong_accepted",
                "native check_witness is false but the circuit runs (sampled bits not all asserted zero)".into(),
            ));
            return res;
        }
        res.outcome = "equal";

        // ------------------------------------------------------------------ canonical key
        let (cs, ci, co, init, dup) = out.snaps.last().unwrap();
        let (_, ni, no) = nsnaps.last().unwrap();
        let mask = |ts: &[ExprId]| -> String {
            ts.iter()
                .map(|t| if out.is_const.get(t.0 as usize).copied().unwrap_or(false) { 'c' } else { 'w' })
                .collect()
        };
        let _ = d;
        res.key = Some(format!(
            "n{}:{} c{}:{} st{} i{} d{} m{}/{}/{} p{} e{}",
            ni.len(),
            no.len(),
            ci.len(),
            co.len(),
            cs.len(),
            *init as u8,
            *dup as u8,
            mask(cs),
            mask(ci),
            mask(co),
            perm_actions_since_clear.min(3),
            last_ext.is_some() as u8
        ));
        res
    }
}

fn trunc(s: &str) -> String {
    let s: String = s.chars().take(300).collect();
    s.replace('\n', " ")
}

// =======================================================================================
// Configurations

type BbE4 = BinomialExtensionField<BabyBear, 4>;
type KbE4 = BinomialExtensionField<KoalaBear, 4>;
type KbE5 = QuinticTrinomialExtensionField<KoalaBear>;
type GlE2 = BinomialExtensionField<Goldilocks, 2>;

macro_rules! spec {
    ($name:expr, $what:expr, $bf:ty, $ef:ty, $w:expr, $r:expr, $pc:ty,
     perm = $pty:ty : $perm:expr, cc = $cc:expr, builder = |$c:ident, $p:ident| $enable:block) => {{
        fn mk_builder(rc: bool, $p: &$pty) -> CircuitBuilder<$ef> {
            let mut $c = CircuitBuilder::<$ef>::new();
            $enable
            if rc {
                $c.enable_recompose::<$bf>(generate_recompose_trace::<$bf, $ef>);
            }
            $c
        }
        Box::new(Spec::<$bf, $ef, $pty, $pc, $w, $r> {
            name: $name,
            what: $what,
            perm: $perm,
            make_builder: mk_builder,
            make_cc: || $cc,
            _p: PhantomData,
        }) as Box<dyn DynCfg>
    }};
}

fn configs() -> Vec<Box<dyn DynCfg>> {
    use p3_circuit::ops::poseidon1_perm as p1;
    use p3_circuit::ops::poseidon2_perm as p2;
    vec![
        spec!("bb-d4-p2", "BabyBear, quartic challenge, Poseidon2 width 16 packed D=4",
            BabyBear, BbE4, 16, 8, Poseidon2Config,
            perm = p3_baby_bear::Poseidon2BabyBear<16> : default_babybear_poseidon2_16(),
            cc = CircuitChallenger::<16, 8, Poseidon2Config>::new_babybear(),
            builder = |c, p| {
                c.enable_poseidon2_perm::<p3_poseidon2_circuit_air::BabyBearD4Width16, _>(
                    generate_poseidon2_trace::<BbE4, p3_poseidon2_circuit_air::BabyBearD4Width16>,
                    p.clone());
            }),
        spec!("kb-d1-p2", "KoalaBear, base-field challenge (EF=F), Poseidon2 width 16 D=1",
            KoalaBear, KoalaBear, 16, 8, Poseidon2Config,
            perm = p3_koala_bear::Poseidon2KoalaBear<16> : default_koalabear_poseidon2_16(),
            cc = CircuitChallenger::<16, 8, Poseidon2Config>::new_koalabear_base(),
            builder = |c, p| {
                c.enable_poseidon2_perm_base::<p2::KoalaBearD1Width16, _>(
                    generate_poseidon2_trace::<KoalaBear, p2::KoalaBearD1Width16>,
                    p.clone());
            }),
        spec!("kb-d4-p2", "KoalaBear, quartic challenge, Poseidon2 width 16 packed D=4",
            KoalaBear, KbE4, 16, 8, Poseidon2Config,
            perm = p3_koala_bear::Poseidon2KoalaBear<16> : default_koalabear_poseidon2_16(),
            cc = CircuitChallenger::<16, 8, Poseidon2Config>::new_koalabear(),
            builder = |c, p| {
                c.enable_poseidon2_perm::<p3_poseidon2_circuit_air::KoalaBearD4Width16, _>(
                    generate_poseidon2_trace::<KbE4, p3_poseidon2_circuit_air::KoalaBearD4Width16>,
                    p.clone());
            }),
        spec!("gl-d2-p2", "Goldilocks, quadratic challenge, Poseidon2 width 8 rate 4",
            Goldilocks, GlE2, 8, 4, Poseidon2Config,
            perm = p3_goldilocks::Poseidon2Goldilocks<8> : default_goldilocks_poseidon2_8(),
            cc = CircuitChallenger::<8, 4, Poseidon2Config>::new_goldilocks(),
            builder = |c, p| {
                c.enable_poseidon2_perm_width_8::<p2::GoldilocksD2Width8, _>(
                    generate_poseidon2_trace::<GlE2, p2::GoldilocksD2Width8>,
                    p.clone());
            }),
        spec!("bb-d1-p2", "BabyBear, base-field challenge (EF=F), Poseidon2 width 16 D=1",
            BabyBear, BabyBear, 16, 8, Poseidon2Config,
            perm = p3_baby_bear::Poseidon2BabyBear<16> : default_babybear_poseidon2_16(),
            cc = CircuitChallenger::<16, 8, Poseidon2Config>::new_babybear_base(),
            builder = |c, p| {
                c.enable_poseidon2_perm_base::<p2::BabyBearD1Width16, _>(
                    generate_poseidon2_trace::<BabyBear, p2::BabyBearD1Width16>,
                    p.clone());
            }),
        spec!("kb-d1q-p2", "KoalaBear, quintic challenge over a base (D=1) Poseidon2 width 16",
            KoalaBear, KbE5, 16, 8, Poseidon2Config,
            perm = p3_koala_bear::Poseidon2KoalaBear<16> : default_koalabear_poseidon2_16(),
            cc = CircuitChallenger::<16, 8, Poseidon2Config>::new_koalabear_base(),
            builder = |c, p| {
                c.enable_poseidon2_perm_base::<p2::KoalaBearD1Width16, _>(
                    generate_poseidon2_trace::<KbE5, p2::KoalaBearD1Width16>,
                    LiftPermToQuintic::<KoalaBear, _, 16>::new(p.clone()));
            }),
        spec!("kb-d1-p1", "KoalaBear, base-field challenge, Poseidon1 width 16 D=1",
            KoalaBear, KoalaBear, 16, 8, Poseidon1Config,
            perm = p3_koala_bear::Poseidon1KoalaBear<16> : default_koalabear_poseidon1_16(),
            cc = CircuitChallenger::<16, 8, Poseidon1Config>::new_koalabear_poseidon1_base(),
            builder = |c, p| {
                c.enable_poseidon1_perm_base::<p1::KoalaBearD1Width16, _>(
                    generate_poseidon1_trace::<KoalaBear, p1::KoalaBearD1Width16>,
                    p.clone());
            }),
        spec!("bb-d1-p1", "BabyBear, base-field challenge, Poseidon1 width 16 D=1",
            BabyBear, BabyBear, 16, 8, Poseidon1Config,
            perm = p3_baby_bear::Poseidon1BabyBear<16> : default_babybear_poseidon1_16(),
            cc = CircuitChallenger::<16, 8, Poseidon1Config>::new_babybear_poseidon1_base(),
            builder = |c, p| {
                c.enable_poseidon1_perm_base::<p1::BabyBearD1Width16, _>(
                    generate_poseidon1_trace::<BabyBear, p1::BabyBearD1Width16>,
                    p.clone());
            }),
        spec!("gl-d2-p1", "Goldilocks, quadratic challenge, Poseidon1 width 8 rate 4",
            Goldilocks, GlE2, 8, 4, Poseidon1Config,
            perm = p3_goldilocks::poseidon1::Poseidon1Goldilocks<8> : default_goldilocks_poseidon1_8(),
            cc = CircuitChallenger::<8, 4, Poseidon1Config>::new_goldilocks_poseidon1(),
            builder = |c, p| {
                c.enable_poseidon1_perm_width_8::<p1::GoldilocksD2Width8, _>(
                    generate_poseidon1_trace::<GlE2, p1::GoldilocksD2Width8>,
                    p.clone());
            }),
        spec!("bb-d4-p1", "BabyBear, quartic challenge, Poseidon1 width 16 packed D=4",
            BabyBear, BbE4, 16, 8, Poseidon1Config,
            perm = p3_baby_bear::Poseidon1BabyBear<16> : default_babybear_poseidon1_16(),
            cc = CircuitChallenger::<16, 8, Poseidon1Config>::new(Poseidon1Config::BABY_BEAR_D4_W16),
            builder = |c, p| {
                c.enable_poseidon1_perm::<p1::BabyBearD4Width16, _>(
                    generate_poseidon1_trace::<BbE4, p1::BabyBearD4Width16>,
                    p.clone());
            }),
        spec!("kb-d4-p1", "KoalaBear, quartic challenge, Poseidon1 width 16 packed D=4",
            KoalaBear, KbE4, 16, 8, Poseidon1Config,
            perm = p3_koala_bear::Poseidon1KoalaBear<16> : default_koalabear_poseidon1_16(),
            cc = CircuitChallenger::<16, 8, Poseidon1Config>::new(Poseidon1Config::KOALA_BEAR_D4_W16),
            builder = |c, p| {
                c.enable_poseidon1_perm::<p1::KoalaBearD4Width16, _>(
                    generate_poseidon1_trace::<KbE4, p1::KoalaBearD4Width16>,
                    p.clone());
            }),
    ]
}

// =======================================================================================
// Exploration

struct RawViol {
    cfg: &'static str,
    rc: bool,
    clause: &'static str,
    hist: Vec<Act>,
    detail: String,
}

#[derive(Default)]
struct Shared {
    viols: Mutex<Vec<RawViol>>,
    outcomes: Histo,
    cases: AtomicU64,
    values_compared: AtomicU64,
    unmapped: AtomicU64,
    perm_actions: AtomicU64,
    distinct_samples: Mutex<HashSet<u64>>,
    samples: Mutex<Vec<String>>,
    truncated: AtomicBool,
}

impl Shared {
    fn record(&self, cfg: &'static str, rc: bool, hist: &[Act], r: &CaseResult) {
        self.cases.fetch_add(1, Ordering::Relaxed);
        self.values_compared.fetch_add(r.values_compared, Ordering::Relaxed);
        self.unmapped.fetch_add(r.unmapped, Ordering::Relaxed);
        self.perm_actions.fetch_add(r.perm_actions, Ordering::Relaxed);
        self.outcomes.add(r.outcome);
        if !r.sampled.is_empty() {
            let mut g = self.distinct_samples.lock().unwrap();
            g.extend(r.sampled.iter().copied());
        }
        for (clause, detail) in &r.viols {
            self.viols.lock().unwrap().push(RawViol {
                cfg,
                rc,
                clause,
                hist: hist.to_vec(),
                detail: detail.clone(),
            });
        }
    }
}

#[derive(Clone, Debug)]
struct JobStat {
    cfg: &'static str,
    rc: bool,
    mode: Mode,
    states: u64,
    transitions: u64,
    terminal_transitions: u64,
    levels: u32,
    longest_history: usize,
    complete: bool,
    wall_s: f64,
}
impl JobStat {
    fn to_json(&self) -> Value {
        json!({
            "config": self.cfg, "recompose_table": self.rc, "mode": self.mode.tag(),
            "states": self.states, "transitions": self.transitions,
            "terminal_transitions_wrong_pow": self.terminal_transitions,
            "levels": self.levels, "longest_history": self.longest_history,
            "complete": self.complete, "wall_s": (self.wall_s * 100.0).round() / 100.0,
        })
    }
}

/// BFS to a fixpoint on the canonical key.
fn bfs(ctx: &Ctx, cfg: &dyn DynCfg, rc: bool, mode: Mode, sh: &Shared) -> JobStat {
    let t0 = Instant::now();
    let alphabet = mode.alphabet();
    let name = cfg.name();
    let root = cfg.run_case(rc, &[], ctx.seed);
    let mut seen: HashSet<String> = HashSet::new();
    seen.insert(root.key.clone().unwrap());
    let mut frontier: Vec<Vec<Act>> = vec![vec![]];
    let mut st = JobStat {
        cfg: name, rc, mode, states: 1, transitions: 0, terminal_transitions: 0,
        levels: 0, longest_history: 0, complete: false, wall_s: 0.0,
    };
    loop {
        if frontier.is_empty() {
            st.complete = true;
            break;
        }
        if ctx.out_of_time() {
            break;
        }
        let tasks: Vec<(usize, Act)> = (0..frontier.len())
            .flat_map(|i| alphabet.iter().map(move |a| (i, *a)))
            .collect();
        let results: Vec<Option<(Vec<Act>, CaseResult)>> = tasks
            .par_iter()
            .map(|(i, a)| {
                if ctx.out_of_time() {
                    return None;
                }
                let mut h = frontier[*i].clone();
                h.push(*a);
                let r = cfg.run_case(rc, &h, ctx.seed);
                Some((h, r))
            })
            .collect();
        let mut next = vec![];
        let mut partial = false;
        for r in results {
            let Some((h, r)) = r else {
                partial = true;
                continue;
            };
            if r.disabled {
                continue; // action not enabled in this state: no transition
            }
            st.transitions += 1;
            if r.terminal {
                st.terminal_transitions += 1;
            }
            sh.record(name, rc, &h, &r);
            if let Some(k) = &r.key
                && seen.insert(k.clone())
            {
                st.states += 1;
                st.longest_history = st.longest_history.max(h.len());
                if r.sampled.len() >= 2 && st.states % 37 == 5 {
                    let mut g = sh.samples.lock().unwrap();
                    if g.len() < 12 {
                        g.push(format!("{name}/rc={}/{}: {}", rc as u8, mode.tag(), r.summary));
                    }
                }
                next.push(h);
            }
        }
        st.levels += 1;
        if partial {
            break;
        }
        frontier = next;
    }
    if !st.complete {
        sh.truncated.store(true, Ordering::Relaxed);
    }
    st.wall_s = t0.elapsed().as_secs_f64();
    st
}

/// Every history of length 1..=depth over the alphabet of `mode` (`Undedup` or `Surface`), each
/// as its own circuit, no de-duplication.
fn undedup(ctx: &Ctx, cfg: &dyn DynCfg, rc: bool, mode: Mode, depth: usize, sh: &Shared) -> JobStat {
    let t0 = Instant::now();
    let alphabet = mode.alphabet();
    let name = cfg.name();
    let mut st = JobStat {
        cfg: name, rc, mode, states: 1, transitions: 0, terminal_transitions: 0,
        levels: 0, longest_history: 0, complete: false, wall_s: 0.0,
    };
    let mut level: Vec<Vec<Act>> = vec![vec![]];
    let mut partial = false;
    for dpt in 1..=depth {
        let hs: Vec<Vec<Act>> = level
            .iter()
            .filter(|h| h.last().is_none_or(|a| !a.is_terminal()))
            .flat_map(|h| {
                alphabet.iter().map(move |a| {
                    let mut x = h.clone();
                    x.push(*a);
                    x
                })
            })
            .collect();
        let results: Vec<Option<CaseResult>> = hs
            .par_iter()
            .map(|h| (!ctx.out_of_time()).then(|| cfg.run_case(rc, h, ctx.seed)))
            .collect();
        for (h, r) in hs.iter().zip(results.iter()) {
            let Some(r) = r else {
                partial = true;
                continue;
            };
            if r.disabled {
                continue;
            }
            st.transitions += 1;
            st.states += 1; // every history is its own state here
            if r.terminal {
                st.terminal_transitions += 1;
            }
            sh.record(name, rc, h, r);
        }
        if partial {
            break;
        }
        st.levels += 1;
        st.longest_history = dpt;
        // one written-out case per pass; for the surface pass one that goes through slice-level
        // calls (an empty observe_slice between two samples, then a vector sample)
        let pick: Option<&CaseResult> = if mode == Mode::Surface {
            let want = [Act::Sample, Act::ObsSlice(Sl::E), Act::SampleExtVec(2)];
            (dpt == 3)
                .then(|| hs.iter().position(|h| h[..] == want).and_then(|i| results[i].as_ref()))
                .flatten()
        } else {
            (dpt == 2).then(|| results.iter().flatten().find(|r| r.sampled.len() >= 2)).flatten()
        };
        if let Some(r) = pick {
            sh.samples.lock().unwrap().push(format!("{name}/rc={}/{}: {}", rc as u8, mode.tag(), r.summary));
        }
        level = hs
            .into_iter()
            .zip(results)
            .filter(|(_, r)| r.as_ref().is_some_and(|r| !r.disabled))
            .map(|(h, _)| h)
            .collect();
    }
    st.complete = !partial;
    if partial {
        sh.truncated.store(true, Ordering::Relaxed);
    }
    st.wall_s = t0.elapsed().as_secs_f64();
    st
}

// =======================================================================================
// Reporting

fn viol_key(cfg: &str, rc: bool, clause: &str, hist: &[Act]) -> String {
    format!("cfg={cfg};recompose={};clause={clause};hist={}", if rc { "on" } else { "off" }, show(hist))
}

/// 1-minimal history: drop single actions while the same clause stays violated.
fn minimise(cfg: &dyn DynCfg, rc: bool, clause: &str, hist: &[Act], seed: u64) -> (Vec<Act>, String) {
    let violates = |h: &[Act]| -> Option<String> {
        if h.is_empty() || h[..h.len() - 1].iter().any(|a| a.is_terminal()) {
            return None;
        }
        let r = cfg.run_case(rc, h, seed);
        r.viols.iter().find(|(c, _)| *c == clause).map(|(_, d)| d.clone())
    };
    let mut cur = hist.to_vec();
    let mut detail = violates(&cur).unwrap_or_default();
    'outer: loop {
        for i in 0..cur.len() {
            let mut cand = cur.clone();
            cand.remove(i);
            if let Some(d) = violates(&cand) {
                cur = cand;
                detail = d;
                continue 'outer;
            }
        }
        break;
    }
    (cur, detail)
}

/// Inventory of the public call surface of the in-circuit challenger
/// (`recursion/src/challenger/circuit.rs`, `recursion/src/traits/challenger.rs`) and the action(s)
/// that drive each method. Methods with a default implementation are listed because an
/// implementation may override them.
const CALL_SURFACE: &[&str] = &[
    "CircuitChallenger::new / new_babybear / new_babybear_base / new_koalabear / new_koalabear_base / new_goldilocks / new_babybear_poseidon1_base / new_koalabear_poseidon1_base / new_goldilocks_poseidon1: the configurations",
    "CircuitChallenger::init (inherent, pub): init",
    "RecursiveChallenger::observe: op oc os oz",
    "RecursiveChallenger::observe_slice (default impl): OS0 OSp OSc OSpp OScc OSpc",
    "RecursiveChallenger::sample: s",
    "RecursiveChallenger::observe_ext: xp xc xs xe",
    "RecursiveChallenger::observe_ext_slice (default impl): XS0 XSp XSc XSpp XScc XSpc",
    "RecursiveChallenger::sample_ext: sx",
    "RecursiveChallenger::sample_ext_vec (default impl): SXV0 SXV1 SXV2",
    "RecursiveChallenger::sample_bits: b0 b1 b3",
    "RecursiveChallenger::check_pow_witness: w0 wNp wNc WNpK WNcK",
    "RecursiveChallenger::clear: clr",
];

/// Which alphabet × depth was fully enumerated, per mode (min over the runs of that mode).
fn fully_enumerated(stats: &[JobStat]) -> Value {
    let mut out = vec![];
    for m in [Mode::Public, Mode::Constant, Mode::Mixed, Mode::Undedup, Mode::Surface] {
        let runs: Vec<&JobStat> = stats.iter().filter(|s| s.mode == m).collect();
        if runs.is_empty() {
            continue;
        }
        let complete = runs.iter().filter(|s| s.complete).count();
        let depth = if m.dedup() {
            format!(
                "fixpoint of the canonical-key BFS in {complete}/{} runs (every action of the alphabet from every reachable canonical state; longest shortest-history {})",
                runs.len(),
                runs.iter().map(|s| s.longest_history).max().unwrap_or(0)
            )
        } else {
            format!(
                "all histories of length <= d, d = {}..{} depending on the configuration ({complete}/{} runs complete)",
                runs.iter().map(|s| s.longest_history).min().unwrap_or(0),
                runs.iter().map(|s| s.longest_history).max().unwrap_or(0),
                runs.len()
            )
        };
        out.push(json!({"alphabet": m.tag(), "actions": m.alphabet().len(), "runs": runs.len(), "enumerated": depth}));
    }
    Value::Array(out)
}

struct Plan {
    cfg: usize,
    rc: bool,
    /// BFS modes to run to a fixpoint
    modes: Vec<Mode>,
    /// depth of the un-de-duplicated pass (0 = none)
    undedup_depth: usize,
    /// depth of the un-de-duplicated "slice surface" pass (0 = none)
    surface_depth: usize,
}

fn main() {
    let ctx = Ctx::from_args("C05", "model_checking");
    vpcore::install_quiet_panic_hook();
    let report = Report::new();
    let cfgs = configs();
    let by_name = |n: &str| cfgs.iter().position(|c| c.name() == n);

    // ------------------------------------------------------------------ replay
    if let Some(path) = &ctx.replay {
        let r = vpcore::load_replay(path);
        let name = r["cfg"].as_str().unwrap_or("");
        let rc = r["recompose"].as_bool().unwrap_or(true);
        let hist = r["history"]
            .as_str()
            .and_then(parse_hist)
            .unwrap_or_else(|| machinery_error("bad replay: history"));
        let ci = by_name(name).unwrap_or_else(|| machinery_error("bad replay: unknown cfg"));
        println!("replaying {name} recompose={rc} history=[{}]", show(&hist));
        let res = cfgs[ci].run_case(rc, &hist, ctx.seed);
        println!("  outcome: {}  {}", res.outcome, res.summary);
        for (c, d) in &res.viols {
            println!("  {c}: {d}");
            report.violation(
                viol_key(name, rc, c, &hist),
                format!("{name} [{}]: {c}: {d}", show(&hist)),
                json!({"cfg": name, "recompose": rc, "history": show(&hist), "clause": c, "detail": d}),
            );
        }
        let cov = json!({"states": 1, "transitions": hist.len(), "traces_validated_against_impl": 1,
            "samples": [res.summary], "replay": true});
        finish(&ctx, cov, vec![], &report);
    }

    // ------------------------------------------------------------------ plan
    let all_modes = vec![Mode::Public, Mode::Constant, Mode::Mixed];
    let mut plans: Vec<Plan> = vec![];
    let only = ctx.opt("cfg").map(|s| s.to_string());
    if ctx.quick() {
        // every configuration with the recompose table on; the table off for one configuration per
        // `duplexing_*` code path of the circuit challenger (ext/base × Poseidon2/Poseidon1)
        // (the first seven cover every code path; the rest are the remaining field/permutation twins)
        for (n, rc, deep) in [
            ("bb-d4-p2", true),
            ("bb-d4-p2", false),
            ("kb-d1-p2", true),
            ("kb-d1-p1", true),
            ("kb-d1q-p2", true),
            ("gl-d2-p1", true),
            ("gl-d2-p2", false),
            ("kb-d4-p2", true),
            ("bb-d1-p2", true),
            ("bb-d4-p1", true),
            ("bb-d4-p1", false),
            ("kb-d1-p2", false),
            ("gl-d2-p2", true),
            ("bb-d1-p1", true),
            ("kb-d4-p1", true),
        ]
        .into_iter()
        .enumerate()
        .map(|(i, (n, rc))| (n, rc, i < 7))
        {
            plans.push(Plan { cfg: by_name(n).unwrap(), rc, modes: all_modes.clone(), undedup_depth: if deep { 4 } else { 3 }, surface_depth: 3 });
        }
    } else {
        for (i, c) in cfgs.iter().enumerate() {
            for rc in [true, false] {
                let deep = rc && matches!(c.name(), "bb-d4-p2" | "kb-d1-p2" | "gl-d2-p1");
                plans.push(Plan { cfg: i, rc, modes: all_modes.clone(), undedup_depth: if deep { 5 } else { 4 }, surface_depth: 4 });
            }
        }
    }
    if let Some(o) = &only {
        plans.retain(|p| cfgs[p.cfg].name() == o);
    }
    if let Some(dv) = ctx.opt("depth").and_then(|s| s.parse::<usize>().ok()) {
        for p in &mut plans {
            p.undedup_depth = dv;
        }
    }
    if let Some(dv) = ctx.opt("surface-depth").and_then(|s| s.parse::<usize>().ok()) {
        for p in &mut plans {
            p.surface_depth = dv;
        }
    }

    // jobs: (plan index, mode, depth; depth 0 = BFS to a fixpoint). Biggest first; all run on one
    // rayon pool.
    let mut jobs: Vec<(usize, Mode, usize)> = vec![];
    let mut flat: Vec<(usize, Mode, usize)> = vec![];
    for (pi, p) in plans.iter().enumerate() {
        if p.undedup_depth > 0 {
            flat.push((pi, Mode::Undedup, p.undedup_depth));
        }
        if p.surface_depth > 0 {
            flat.push((pi, Mode::Surface, p.surface_depth));
        }
    }
    // estimated size = |alphabet|^depth
    flat.sort_by_key(|(_, m, d)| std::cmp::Reverse((m.alphabet().len() as u64).pow(*d as u32)));
    jobs.extend(flat);
    for (pi, p) in plans.iter().enumerate() {
        for m in [Mode::Mixed, Mode::Public, Mode::Constant] {
            if p.modes.contains(&m) {
                jobs.push((pi, m, 0));
            }
        }
    }
    let sh = Shared::default();
    let stats: Vec<JobStat> = jobs
        .par_iter()
        .map(|(pi, m, depth)| {
            let p = &plans[*pi];
            let cfg = cfgs[p.cfg].as_ref();
            if m.dedup() {
                bfs(&ctx, cfg, p.rc, *m, &sh)
            } else {
                undedup(&ctx, cfg, p.rc, *m, *depth, &sh)
            }
        })
        .collect();

    // ------------------------------------------------------------------ violations → minimal keys
    let raw = std::mem::take(&mut *sh.viols.lock().unwrap());
    let mut groups: BTreeMap<(&'static str, bool, &'static str), Vec<&RawViol>> = BTreeMap::new();
    for v in &raw {
        groups.entry((v.cfg, v.rc, v.clause)).or_default().push(v);
    }
    for ((cfg, rc, clause), vs) in &groups {
        let first = vs
            .iter()
            .min_by_key(|v| (v.hist.len(), show(&v.hist)))
            .unwrap();
        let ci = by_name(cfg).unwrap();
        let (min_h, detail) = minimise(cfgs[ci].as_ref(), *rc, clause, &first.hist, ctx.seed);
        let detail = if detail.is_empty() { first.detail.clone() } else { detail };
        let key = viol_key(cfg, *rc, clause, &min_h);
        for _ in 0..vs.len() {
            report.violation(
                key.clone(),
                format!("{cfg} recompose={rc} history [{}]: {clause}: {detail}", show(&min_h)),
                json!({"cfg": cfg, "recompose": rc, "history": show(&min_h), "clause": clause,
                       "detail": detail, "violating_histories": vs.len(),
                       "first_found": show(&first.hist)}),
            );
        }
    }

    // ------------------------------------------------------------------ evidence
    let bfs_stats: Vec<&JobStat> = stats.iter().filter(|s| s.mode.dedup()).collect();
    let und_stats: Vec<&JobStat> = stats.iter().filter(|s| s.mode == Mode::Undedup).collect();
    let sur_stats: Vec<&JobStat> = stats.iter().filter(|s| s.mode == Mode::Surface).collect();
    let states: u64 = stats.iter().map(|s| s.states).sum();
    let transitions: u64 = stats.iter().map(|s| s.transitions).sum();
    let exhaustive = stats.iter().all(|s| s.complete) && !sh.truncated.load(Ordering::Relaxed);
    let distinct = sh.distinct_samples.lock().unwrap().len();
    println!(
        "C05: {} configurations×recompose, {} BFS runs (fixpoint reached in {}), {} un-de-duplicated passes, {} slice-surface passes",
        plans.len(),
        bfs_stats.len(),
        bfs_stats.iter().filter(|s| s.complete).count(),
        und_stats.len(),
        sur_stats.len()
    );
    for s in &stats {
        println!(
            "  {:10} rc={} {:8} states {:6} transitions {:7} (wrong-PoW {:5}) levels {:2} longest {:2} complete {} {:.1}s",
            s.cfg, s.rc as u8, s.mode.tag(), s.states, s.transitions, s.terminal_transitions,
            s.levels, s.longest_history, s.complete, s.wall_s
        );
    }
    println!(
        "  cases {} values compared {} (targets without a witness slot: {}) native permuting actions {} distinct sampled values {} outcomes {}",
        sh.cases.load(Ordering::Relaxed),
        sh.values_compared.load(Ordering::Relaxed),
        sh.unmapped.load(Ordering::Relaxed),
        sh.perm_actions.load(Ordering::Relaxed),
        distinct,
        sh.outcomes.to_json()
    );
    let samples = sh.samples.lock().unwrap().clone();
    let cov = json!({
        "states": states,
        "bfs_canonical_states": bfs_stats.iter().map(|s| s.states).sum::<u64>(),
        "undedup_histories": und_stats.iter().map(|s| s.states).sum::<u64>(),
        "surface_histories": sur_stats.iter().map(|s| s.states).sum::<u64>(),
        "call_surface": CALL_SURFACE,
        "fully_enumerated": fully_enumerated(&stats),
        "transitions": transitions,
        "traces_validated_against_impl": transitions,
        "samples": samples,
        "exhaustive": exhaustive,
        "bound": "BFS to a fixpoint on the canonical key per (configuration, recompose, mode) over the alphabets public / constant / mixed, which contain every public method of the in-circuit challenger (per-element, slice-level with 0/1/2 elements, sample_ext_vec(0/1/2), explicit init); plus every history up to the stated depth without de-duplication over the alphabets undedup (per-element + value-dependent constants) and surface (per-element core + all slice-level actions)",
        "alphabet": {
            "public": Mode::Public.alphabet().iter().map(|a| a.token()).collect::<Vec<_>>(),
            "constant": Mode::Constant.alphabet().iter().map(|a| a.token()).collect::<Vec<_>>(),
            "mixed": Mode::Mixed.alphabet().iter().map(|a| a.token()).collect::<Vec<_>>(),
            "undedup": Mode::Undedup.alphabet().iter().map(|a| a.token()).collect::<Vec<_>>(),
            "surface": Mode::Surface.alphabet().iter().map(|a| a.token()).collect::<Vec<_>>(),
            "legend": "op/oc/os/oz observe public|const tag|const small(=length-tag values)|const 0; xp/xc observe_ext; s sample; sx sample_ext; bN sample_bits(N); wNp/wNc check_pow_witness(N bits, natively ground witness, public|const); WNpK/WNcK witness for which the native sample_bits(N) is K≠0, i.e. rejected natively (terminal); clr clear; init the inherent CircuitChallenger::init called explicitly (native: nothing); OS<args> observe_slice and XS<args> observe_ext_slice with args 0 = empty slice, p|c = one public|constant element, pp|cc|pc = two elements (native: CanObserve::observe_slice / observe_algebra_slice, i.e. the per-element observes in order, empty = no-op); SXVn sample_ext_vec(n), n = 0|1|2 (native: n × sample_algebra_element)",
        },
        "configurations": plans.iter().map(|p| json!({"config": cfgs[p.cfg].describe(), "recompose_table": p.rc, "undedup_depth": p.undedup_depth, "surface_depth": p.surface_depth})).collect::<Vec<_>>(),
        "runs": stats.iter().map(|s| s.to_json()).collect::<Vec<_>>(),
        "cases_executed": sh.cases.load(Ordering::Relaxed),
        "values_compared": sh.values_compared.load(Ordering::Relaxed),
        "targets_without_witness_slot": sh.unmapped.load(Ordering::Relaxed),
        "native_permuting_actions": sh.perm_actions.load(Ordering::Relaxed),
        "distinct_sampled_values": distinct,
        "outcomes": sh.outcomes.to_json(),
        "oracle": "native p3_challenger::DuplexChallenger 0.6.3: every sampled value, and after every step the whole sponge state / input buffer / output buffer, read from the run's witness",
    });
    let assumptions = vec![
        "p3-challenger 0.6.3 DuplexChallenger is the specification; `clear` means a fresh native challenger and PoW means `bits==0 || (observe(w); sample_bits(bits)==0)` exactly as in the repository's tests".to_string(),
        "de-duplication: equal (buffer lengths, flags, const-ness masks, capped permutation count) ⇒ equal futures given checked value equality of the whole state; whole-circuit optimiser effects on long circuits are not covered by that argument (C02/C03) and are exercised only by the histories actually run".to_string(),
        "observed values are base-field elements (embedded), which is the documented precondition of observe(); values are fixed tags rotated by VERIF_SEED".to_string(),
        "only challenger operations are in the circuit (no foreign Poseidon rows between D=1 challenger permutations)".to_string(),
    ];
    finish(&ctx, cov, assumptions, &report);
}
