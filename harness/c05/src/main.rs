fn main() {
    eprintln!("MACHINERY-ERROR: check c05 not built yet");
    std::process::exit(2);
}
