//! C06 — "Sampled challenges are bound to the entire transcript"  (fault enumeration)
//!
//! ## What is enumerated
//! For every challenger configuration of the tier and every state of the C05 product automaton
//! (native `DuplexChallenger` × real `CircuitChallenger`; C05's canonical key refined by "a
//! sample_bits happened") reachable within the depth bound over the alphabet
//!     op  observe(public base element)      xp  observe_ext(public extension element)
//!     s   sample                            sx  sample_ext                 b3  sample_bits(3)
//! plus the TARGET RE-USE actions (only inside histories of length <= 2 quick / <= 3 thorough
//! for the two default configurations, 2 for the others; the state key is refined by which of
//! them happened)
//!     ro  observe again the target of the most recent op   (same target twice in one block)
//!     rx  observe_ext again the target of the most recent xp
//!     os  observe the target returned by the most recent s
//! the BFS-shortest history reaching the state, followed by one more `sample`, is turned into
//! a circuit by the REAL `CircuitChallenger` on a REAL `CircuitBuilder`: observed values are
//! public inputs; every sampled target `t` (base sample, every sampled bit, extension sample)
//! is made a *public output*, in one of two EXPOSURE MODES:
//!   x7      `e = K·t` (`mul` by the constant K = 7, `connect` to a fresh public input): the
//!           sample stays an ordinary bus-read operand of an ALU row;
//!   direct  `connect(t, fresh public input)`: the sampled slot itself is the public slot. The
//!           row producing the sample (D=1: an exposed permutation rate output; D>1: a
//!           decomposition hint output / a recomposition) becomes a SECOND writer of a slot the
//!           Public row already created — the way challenges are exposed or compared in practice.
//! Mode x7 runs the full history set; mode direct the histories of depth <= 2 (quick) /
//! <= min(configuration depth, 4) (thorough), base delta unit only. The circuit is compiled by
//! the real `build()`, run by the real runner, and its honest traces are proved and verified
//! (fixture validation, `vpe3::Fixture`).
//!
//! On the honest traces EVERY single deviation of a value the verifier does not fix is applied
//! (engine E3, `vpe3`), one at a time:
//!   F2  every witness slot (+1 at its definition, everything downstream recomputed, public
//!       outputs re-chosen by the prover): observed publics, constants, every permutation
//!       output (exposed rate limbs and hidden capacity limbs), every decomposition hint
//!       output (coefficients, bits), every ALU result (length-tagged capacity element, ALU
//!       recomposition chains), every recompose-row output;
//!   F4  every input port of every ALU / permutation / recompose row reads value+1 row-locally,
//!       the row's result is recomputed and propagated;
//!   F3  every public slot +1 in every row that mentions it, nothing recomputed;
//!   F1  every cell of the Public table +1 (hook H4), nothing recomputed (quick: the limb-0 cell
//!       of every row and F3 on observed publics only; thorough: every limb, every public);
//!   P   (configurations whose permutation table chains the capacity in-table, D=1): the
//!       permutation closure deviates on its k-th call in capacity limb j (every k, every
//!       j in 8..16); the real executor chains the deviated output into the next row and
//!       everything downstream is recomputed — the prover "altering / resetting the sponge
//!       state between two permutations" for the part of the state that never lives in a
//!       witness slot (the rate limbs do, class F2 covers them). In mode direct every limb
//!       j in 0..16: a sampled rate output is aliased to its public slot there, whose first
//!       writer is the public input (F2 on it is absorbed by re-choosing the public value), so
//!       the closure is what deviates it, and the prover publishes the value that implies;
//!   F5  every input limb of every permutation row that has NO witness slot (`vpe3`'s
//!       `enumerate_f5`): on a `new_start` row an un-fed limb is the executor's implicit zero
//!       (plus the absorb-length tag on D=1 rows) — role `unfed-input[sponge-start,rate |
//!       capacity@row0 | capacity]`; on a chained row it is the previous row's output — role
//!       `inherited-input[sponge]`. The limb takes value+1, the row is RE-EXECUTED by the
//!       repository's executor from the deviated state (the committed row carries the deviated
//!       input and its true permutation), outputs are chained / exposed / propagated, public
//!       outputs re-chosen. This is the prover "choosing a part of the sponge state" that the
//!       challenger assumes to be zero: initial capacity, zero padding of a partial absorb;
//!   PI  every state limb of every permutation row whose witness slot feeds SEVERAL limbs of
//!       that row (a re-observed target, the shared zero constant of padding / initial
//!       capacity): that ONE input limb is incremented in the state the closure permutes and
//!       in the recorded row, the slot keeps its value, outputs are propagated (F4 on such a
//!       port deviates the shared scratch slot, i.e. all those limbs together) — role
//!       `input-limb[shared-slot,first|repeat]`;
//!   H   the honest trace itself (no deviation).
//! Thorough additionally applies F2–F5 with the top basis element as delta for histories of
//! length ≤ 3. (F1 on permutation / recompose cells cannot change the verdict of this oracle:
//! with the Public table untouched the committed statement stays true — not enumerated.)
//!
//! ## Oracle (independent of vpe3's predicate)
//! The *committed statement* of a trace is what its Public table says: the observed values
//! (rows of the observed public inputs) and the sampled challenges (rows of the public
//! outputs, divided by K). The history is replayed on `p3_challenger::DuplexChallenger` with
//! the committed observed values:
//!     violation  ⇔  the real prover+verifier ACCEPT the trace
//!                   ∧ some committed sampled challenge ≠ the native one        [challenge!=native]
//! A trace that commits a non-base-field value for an observed *base element* states something
//! the native challenger cannot even be asked (the documented precondition of `observe`): it
//! is outside the property, counted (`out_of_domain`) and never reported. (That such
//! statements are accepted is recorded under C04 / C12.)
//! A deviation that yields a different but consistent statement, or leaves the statement
//! untouched, is not a violation whatever the verifier says, so by default only deviations
//! whose committed statement is INCONSISTENT ("candidates") are sent to the prover
//! (`--opt prove=all` proves every deviation). Cross-check: whenever this oracle reports a
//! violation of a deviated trace, `vpe3::predicate` should fail too (counted in the evidence;
//! it legitimately holds when the circuit itself no longer states the relation, e.g. mutant m1).
//! If the circuit challenger disagrees with the native one already on the honest run (a
//! C05-type defect), the fixture commits what the circuit computes and the H evaluation
//! reports it (`…:honest`).
//!
//! ## Keys
//! `unbound:<family>:<clause>:<class>:<table>:<port role>:<what the deviated value carries>`
//! — family = permutation packing (d4 | d1perm) + recompose table + coefficient-lookups flag
//! + `@direct` in the direct exposure mode (mode x7 keeps the bare family name);
//! "carries" = provenance of the deviated slot in challenger terms (observed, const,
//! rate-out[bus], capacity-out[hidden], coeff-of(…), bit-of(…), recomposed, alu.<kind>; for F5
//! `implicit-zero[no-slot]` / `chained-state[no-slot]`, the port role names the row mode and
//! whether the limb is rate, capacity of table row 0, or capacity of a later row);
//! never a history, an op index, a limb or a field.
//!
//! ## Order and budget
//! Histories are processed level by level (shortest first, configurations interleaved) from a
//! work queue; when the wall-clock budget is used up (`Ctx::used()` ≥ 0.93 quick / 0.92
//! thorough) the longest histories are dropped and the evidence says `exhaustive:false`.

use std::cell::Cell;
use std::collections::{BTreeMap, HashSet};
use std::marker::PhantomData;
use std::sync::Mutex;
use std::sync::atomic::{AtomicBool, AtomicUsize, Ordering};

use p3_challenger::{CanObserve, CanSample, CanSampleBits, DuplexChallenger, FieldChallenger};
use p3_circuit::ops::{Op, Poseidon2Config, generate_poseidon2_trace, generate_recompose_trace};
use p3_circuit::{Circuit, CircuitBuilder, Expr, ExprId, Traces, WitnessId};
use p3_circuit_prover::TablePacking;
use p3_field::{BasedVectorSpace, Field, PrimeCharacteristicRing, PrimeField64};
use p3_recursion::CircuitChallenger;
use p3_recursion::traits::RecursiveChallenger;
use p3_symmetric::{CryptographicPermutation, Permutation};
use vpcore::rayon::prelude::*;
use vpcore::serde_json::{Value, json};
use vpcore::{Ctx, Histo, Report, finish, machinery_error, quiet_catch};
use vpe3::fixture::Definer;
use vpe3::{Backend, BbD4, Deviation, Fault, Fixture, Inputs, KbD4, KbD5, Port, Verdict};

// =======================================================================================
// Deviating permutation closure (class P)

thread_local! {
    /// (call k, output limb j, permutation calls per execution of the circuit)
    static PLAN: Cell<Option<(usize, usize, usize, bool)>> = const { Cell::new(None) };
    static CALLS: Cell<usize> = const { Cell::new(0) };
}

/// The permutation handed to `enable_poseidon2_perm*`: the honest permutation unless a plan is
/// installed on the calling thread, in which case the k-th call of each execution returns
/// `perm(x)` with limb j incremented. (The forging executor may execute the circuit several
/// times to re-choose public outputs; every execution calls every permutation op once, in
/// order, so the call index is taken modulo the number of permutation ops.)
#[derive(Clone)]
struct DevPerm<P>(P);

impl<F: PrimeCharacteristicRing + Clone, P: Permutation<[F; 16]>> Permutation<[F; 16]> for DevPerm<P> {
    fn permute_mut(&self, x: &mut [F; 16]) {
        let Some((k, j, n, on_input)) = PLAN.get() else {
            self.0.permute_mut(x);
            return;
        };
        let c = CALLS.get();
        CALLS.set(c + 1);
        let hit = c % n.max(1) == k;
        // class PI: the k-th call permutes a state whose INPUT limb j is incremented (the
        // executor has already recorded its own, honest, input limbs; the caller edits the
        // recorded row to match)
        if hit && on_input {
            x[j] += F::ONE;
        }
        self.0.permute_mut(x);
        if hit && !on_input {
            x[j] += F::ONE;
        }
    }
}
impl<F: PrimeCharacteristicRing + Clone, P: CryptographicPermutation<[F; 16]>> CryptographicPermutation<[F; 16]>
    for DevPerm<P>
{
}

// =======================================================================================
// Configurations

type Bb = p3_baby_bear::BabyBear;
type Kb = p3_koala_bear::KoalaBear;

/// A vpe3 backend + what the challenger needs: the native permutation, a builder with the
/// (deviation-capable) permutation table and optionally the recompose tables, the matching
/// `CircuitChallenger`.
trait Cfg: Backend {
    type Perm: CryptographicPermutation<[Self::BF; 16]> + Clone + Send + Sync + 'static;
    /// packing degree of the permutation table (4: capacity travels through witness slots;
    /// 1: capacity is chained inside the table)
    const PERM_D: usize;
    fn perm() -> Self::Perm;
    fn builder(recompose: bool) -> CircuitBuilder<Self::EF>;
    fn challenger() -> CircuitChallenger<16, 8, Poseidon2Config>;
}

impl Cfg for KbD4 {
    type Perm = p3_koala_bear::Poseidon2KoalaBear<16>;
    const PERM_D: usize = 4;
    fn perm() -> Self::Perm {
        p3_koala_bear::default_koalabear_poseidon2_16()
    }
    fn builder(recompose: bool) -> CircuitBuilder<Self::EF> {
        let mut b = CircuitBuilder::<Self::EF>::new();
        b.enable_poseidon2_perm::<p3_poseidon2_circuit_air::KoalaBearD4Width16, _>(
            generate_poseidon2_trace::<Self::EF, p3_poseidon2_circuit_air::KoalaBearD4Width16>,
            DevPerm(Self::perm()),
        );
        if recompose {
            b.enable_recompose::<Kb>(generate_recompose_trace::<Kb, Self::EF>);
        }
        b
    }
    fn challenger() -> CircuitChallenger<16, 8, Poseidon2Config> {
        CircuitChallenger::<16, 8, Poseidon2Config>::new_koalabear()
    }
}

impl Cfg for BbD4 {
    type Perm = p3_baby_bear::Poseidon2BabyBear<16>;
    const PERM_D: usize = 4;
    fn perm() -> Self::Perm {
        p3_baby_bear::default_babybear_poseidon2_16()
    }
    fn builder(recompose: bool) -> CircuitBuilder<Self::EF> {
        let mut b = CircuitBuilder::<Self::EF>::new();
        b.enable_poseidon2_perm::<p3_poseidon2_circuit_air::BabyBearD4Width16, _>(
            generate_poseidon2_trace::<Self::EF, p3_poseidon2_circuit_air::BabyBearD4Width16>,
            DevPerm(Self::perm()),
        );
        if recompose {
            b.enable_recompose::<Bb>(generate_recompose_trace::<Bb, Self::EF>);
        }
        b
    }
    fn challenger() -> CircuitChallenger<16, 8, Poseidon2Config> {
        CircuitChallenger::<16, 8, Poseidon2Config>::new_babybear()
    }
}

impl Cfg for KbD5 {
    type Perm = p3_koala_bear::Poseidon2KoalaBear<16>;
    const PERM_D: usize = 1;
    fn perm() -> Self::Perm {
        p3_koala_bear::default_koalabear_poseidon2_16()
    }
    fn builder(recompose: bool) -> CircuitBuilder<Self::EF> {
        let mut b = CircuitBuilder::<Self::EF>::new();
        b.enable_poseidon2_perm_base::<p3_poseidon2_circuit_air::KoalaBearD1Width16, _>(
            generate_poseidon2_trace::<Self::EF, p3_poseidon2_circuit_air::KoalaBearD1Width16>,
            p3_test_utils::LiftPermToQuintic::<Kb, _, 16>::new(DevPerm(Self::perm())),
        );
        if recompose {
            b.enable_recompose::<Kb>(generate_recompose_trace::<Kb, Self::EF>);
        }
        b
    }
    fn challenger() -> CircuitChallenger<16, 8, Poseidon2Config> {
        CircuitChallenger::<16, 8, Poseidon2Config>::new_koalabear_base()
    }
}

// =======================================================================================
// Alphabet, histories

#[derive(Clone, Copy, PartialEq, Eq, Hash, Debug)]
enum Act {
    Obs,
    ObsExt,
    Sample,
    SampleExt,
    Bits3,
    /// observe AGAIN the target of the most recent `op` (same target at two transcript positions)
    ReObs,
    /// observe_ext again the target of the most recent `xp`
    ReObsExt,
    /// observe the target returned by the most recent `s`
    ObsSample,
    /// `RecursiveChallenger::clear` (native: a fresh challenger, as in C05)
    Clear,
}
const ALPHABET: [Act; 5] = [Act::Obs, Act::Sample, Act::ObsExt, Act::SampleExt, Act::Bits3];
/// Actions that re-use an existing target; only inside histories of length <= the re-observe
/// depth bound (see `bfs_states`).
/// `clr` is bounded the same way (it returns the challenger to its initial automaton state, so
/// longer histories through it repeat shorter ones over a fresh transcript).
const REUSE: [Act; 4] = [Act::ReObs, Act::ReObsExt, Act::ObsSample, Act::Clear];

impl Act {
    fn token(&self) -> &'static str {
        match self {
            Act::Obs => "op",
            Act::ObsExt => "xp",
            Act::Sample => "s",
            Act::SampleExt => "sx",
            Act::Bits3 => "b3",
            Act::Clear => "clr",
            Act::ReObs => "ro",
            Act::ReObsExt => "rx",
            Act::ObsSample => "os",
        }
    }
    fn parse(t: &str) -> Option<Act> {
        Some(match t {
            "op" => Act::Obs,
            "xp" => Act::ObsExt,
            "s" => Act::Sample,
            "sx" => Act::SampleExt,
            "b3" => Act::Bits3,
            "clr" => Act::Clear,
            "ro" => Act::ReObs,
            "rx" => Act::ReObsExt,
            "os" => Act::ObsSample,
            _ => return None,
        })
    }
}
impl Act {
    fn reuse(&self) -> bool {
        REUSE.contains(self)
    }
    /// a re-use action needs the target it re-uses
    fn applicable(&self, h: &[Act]) -> bool {
        match self {
            Act::ReObs => h.contains(&Act::Obs),
            Act::ReObsExt => h.contains(&Act::ObsExt),
            Act::ObsSample => h.contains(&Act::Sample),
            Act::Clear => !h.is_empty(),
            _ => true,
        }
    }
}
fn show(h: &[Act]) -> String {
    h.iter().map(|a| a.token()).collect::<Vec<_>>().join(",")
}
fn parse_hist(s: &str) -> Option<Vec<Act>> {
    if s.is_empty() {
        return Some(vec![]);
    }
    s.split(',').map(Act::parse).collect()
}

/// What a public input of the circuit is.
#[derive(Clone, Copy, Debug, PartialEq, Eq)]
enum Role {
    /// observed base element of step k
    Obs,
    /// observed extension element of step k
    ObsExt,
    /// K · (sampled value): base sample / extension sample / bit i
    Out,
}

/// The tagging constant of public outputs (exposure mode `x7`).
const K: u64 = 7;

/// How a sampled target `t` is made a public output of the circuit.
#[derive(Clone, Copy, PartialEq, Eq, Debug, PartialOrd, Ord)]
enum Mode {
    /// `e = 7·t` through a `mul` row, `connect(7·t, public)`: the sample stays an ordinary
    /// bus-read operand of an ALU row
    X7,
    /// `connect(t, public)`: the sampled slot itself IS the public slot (aliased); the row that
    /// produces the sample (permutation rate output / decomposition hint / recomposition) is a
    /// second creator of an already created slot
    Direct,
}
impl Mode {
    fn k(&self) -> u64 {
        match self {
            Mode::X7 => K,
            Mode::Direct => 1,
        }
    }
    fn tag(&self) -> &'static str {
        match self {
            Mode::X7 => "x7",
            Mode::Direct => "direct",
        }
    }
    fn parse(s: &str) -> Option<Mode> {
        match s {
            "x7" => Some(Mode::X7),
            "direct" => Some(Mode::Direct),
            _ => None,
        }
    }
}

fn tag_value<BF: PrimeField64>(seed: u64, k: usize, j: usize) -> BF {
    // non-zero, pairwise distinct for k < 60, j < 8, far from the small integers the challenger
    // itself uses (0, length tags 1..=8); VERIF_SEED only rotates the values.
    BF::from_u64(1000 + 97 * k as u64 + 11 * j as u64 + 7919 * (seed % 997))
}

fn emb<B: Backend>(x: B::BF) -> B::EF {
    B::EF::from(x)
}

struct Replayed<B: Backend> {
    /// canonical key of the C05 automaton state after the history
    key: String,
    circuit: Option<Circuit<B::EF>>,
    publics: Vec<B::EF>,
    roles: Vec<Role>,
    native_perms: usize,
}

/// Replays `hist` on the native challenger (to learn the honest public values) and on the real
/// `CircuitChallenger` (to build the circuit); computes the C05 canonical state key.
fn replay<B: Cfg>(
    hist: &[Act],
    rc: bool,
    ctl: bool,
    seed: u64,
    build: bool,
    mode: Mode,
) -> Result<Replayed<B>, String> {
    let mut nat = DuplexChallenger::<B::BF, B::Perm, 16, 8>::new(B::perm());
    let mut b = B::builder(rc);
    if ctl {
        b.set_recompose_coeff_ctl_for_decompose_links(true);
    }
    let mut cc = B::challenger();
    let mut publics: Vec<B::EF> = vec![];
    let mut roles: Vec<Role> = vec![];
    let mut native_perms = 0usize;
    let mut sample_ext_seen = false;
    let mut sample_bits_seen = false;
    let kc_val = emb::<B>(B::BF::from_u64(K));
    let mut kc: Option<ExprId> = None;
    let mut expose = |b: &mut CircuitBuilder<B::EF>,
                      publics: &mut Vec<B::EF>,
                      roles: &mut Vec<Role>,
                      t: ExprId,
                      v: B::EF| {
        match mode {
            Mode::X7 => {
                let k = *kc.get_or_insert_with(|| b.define_const(kc_val));
                let y = b.mul(t, k);
                let e = b.public_input();
                b.connect(y, e);
                publics.push(v * kc_val);
            }
            Mode::Direct => {
                let e = b.public_input();
                b.connect(t, e);
                publics.push(v);
            }
        }
        roles.push(Role::Out);
    };
    let mut last_obs: Option<(ExprId, B::BF)> = None;
    let mut last_obs_ext: Option<(ExprId, B::EF)> = None;
    let mut last_sample: Option<(ExprId, B::BF)> = None;
    let mut reuse_seen = [false; 3];
    for (step, a) in hist.iter().enumerate() {
        let before = nat.sponge_state;
        match a {
            Act::Obs => {
                let v = tag_value::<B::BF>(seed, step, 0);
                nat.observe(v);
                let t = b.public_input();
                publics.push(emb::<B>(v));
                roles.push(Role::Obs);
                RecursiveChallenger::<B::BF, B::EF>::observe(&mut cc, &mut b, t);
                last_obs = Some((t, v));
            }
            Act::ObsExt => {
                let v = B::EF::from_basis_coefficients_fn(|j| tag_value::<B::BF>(seed, step, j + 1));
                nat.observe_algebra_element(v);
                let t = b.public_input();
                publics.push(v);
                roles.push(Role::ObsExt);
                RecursiveChallenger::<B::BF, B::EF>::observe_ext(&mut cc, &mut b, t);
                last_obs_ext = Some((t, v));
            }
            Act::ReObs => {
                let (t, v) = last_obs.ok_or("ro without a previous op")?;
                reuse_seen[0] = true;
                nat.observe(v);
                RecursiveChallenger::<B::BF, B::EF>::observe(&mut cc, &mut b, t);
            }
            Act::ReObsExt => {
                let (t, v) = last_obs_ext.ok_or("rx without a previous xp")?;
                reuse_seen[1] = true;
                nat.observe_algebra_element(v);
                RecursiveChallenger::<B::BF, B::EF>::observe_ext(&mut cc, &mut b, t);
            }
            Act::ObsSample => {
                let (t, v) = last_sample.ok_or("os without a previous s")?;
                reuse_seen[2] = true;
                nat.observe(v);
                RecursiveChallenger::<B::BF, B::EF>::observe(&mut cc, &mut b, t);
            }
            Act::Sample => {
                let exp: B::BF = nat.sample();
                let t = RecursiveChallenger::<B::BF, B::EF>::sample(&mut cc, &mut b);
                expose(&mut b, &mut publics, &mut roles, t, emb::<B>(exp));
                last_sample = Some((t, exp));
            }
            Act::SampleExt => {
                let exp: B::EF = nat.sample_algebra_element();
                sample_ext_seen = true;
                let t = RecursiveChallenger::<B::BF, B::EF>::sample_ext(&mut cc, &mut b);
                expose(&mut b, &mut publics, &mut roles, t, exp);
            }
            Act::Clear => {
                nat = DuplexChallenger::<B::BF, B::Perm, 16, 8>::new(B::perm());
                RecursiveChallenger::<B::BF, B::EF>::clear(&mut cc, &mut b);
            }
            Act::Bits3 => {
                let exp: usize = nat.sample_bits(3);
                sample_bits_seen = true;
                let ts = RecursiveChallenger::<B::BF, B::EF>::sample_bits(&mut cc, &mut b, 3)
                    .map_err(|e| format!("sample_bits: {e:?}"))?;
                if ts.len() != 3 {
                    return Err(format!("sample_bits(3) returned {} targets", ts.len()));
                }
                for (i, t) in ts.into_iter().enumerate() {
                    expose(&mut b, &mut publics, &mut roles, t, B::EF::from_bool((exp >> i) & 1 == 1));
                }
            }
        }
        if nat.sponge_state != before && !matches!(a, Act::Clear) {
            native_perms += 1;
        }
    }
    // canonical key = the C05 key (see harness/c05: buffer lengths on both sides, flags,
    // const-ness masks of the state / buffer targets, capped permutation count, sample_ext bit)
    // REFINED by "a sample_bits happened": for the challenger state `sample_bits` is `sample`,
    // so C05's key never needs a history containing it, but its bit decomposition (hint +
    // boolean checks + recomposition) is one of the things C06 quantifies over. A refinement
    // only adds histories. Likewise refined by "which target re-use actions happened" (ro / rx /
    // os): the challenger state does not know whether two buffered targets are the SAME
    // target, the permutation row built from them does.
    let (cs, ci, co, init, dup) = cc.verif_snapshot();
    let is_const: Vec<bool> = b.verif_snapshot().0.iter().map(|n| matches!(n, Expr::Const(_))).collect();
    let mask = |ts: &[ExprId]| -> String {
        ts.iter()
            .map(|t| if is_const.get(t.0 as usize).copied().unwrap_or(false) { 'c' } else { 'w' })
            .collect()
    };
    let key = format!(
        "n{}:{} c{}:{} st{} i{} d{} m{}/{}/{} p{} e{} b{} r{}{}{}",
        nat.input_buffer.len(),
        nat.output_buffer.len(),
        ci.len(),
        co.len(),
        cs.len(),
        init as u8,
        dup as u8,
        mask(&cs),
        mask(&ci),
        mask(&co),
        native_perms.min(3),
        sample_ext_seen as u8,
        sample_bits_seen as u8,
        reuse_seen[0] as u8,
        reuse_seen[1] as u8,
        reuse_seen[2] as u8
    );
    let circuit = if build { Some(b.build().map_err(|e| format!("build: {e:?}"))?) } else { None };
    Ok(Replayed { key, circuit, publics, roles, native_perms })
}

// =======================================================================================
// Oracle

#[derive(Clone, Debug)]
struct Judgement {
    /// None = the committed statement is consistent with the native transcript
    clause: Option<&'static str>,
    detail: String,
    /// a committed observed "base element" is not in the base field: the native transcript of
    /// that statement does not exist, the property says nothing about it
    out_of_domain: bool,
    /// the committed publics differ from the honest ones
    observed_changed: bool,
    sampled_changed: bool,
}

fn fu<BF: PrimeField64>(x: &BF) -> u64 {
    x.as_canonical_u64()
}
fn show_ef<B: Backend>(x: &B::EF) -> String {
    let c: Vec<u64> = x.as_basis_coefficients_slice().iter().map(fu).collect();
    format!("{c:?}")
}

/// The C06 oracle on the Public table of `traces`.
fn judge<B: Cfg>(
    k: u64,
    hist: &[Act],
    roles: &[Role],
    pub_row: &[usize],
    honest_publics: &[B::EF],
    traces: &Traces<B::EF>,
) -> Result<Judgement, String> {
    let committed: Vec<B::EF> = pub_row
        .iter()
        .map(|r| traces.public_trace.values.get(*r).copied().ok_or("public row missing"))
        .collect::<Result<_, _>>()?;
    let kc = emb::<B>(B::BF::from_u64(k));
    let kinv = kc.try_inverse().ok_or("K not invertible")?;
    let mut nat = DuplexChallenger::<B::BF, B::Perm, 16, 8>::new(B::perm());
    let mut pos = 0usize;
    let mut mismatch: Option<String> = None;
    let mut non_base: Option<String> = None;
    let mut next = |want: Role| -> Result<(usize, B::EF), String> {
        let p = pos;
        if roles.get(p) != Some(&want) {
            return Err(format!("public {p} is not {want:?}"));
        }
        pos += 1;
        Ok((p, committed[p]))
    };
    // target re-use: the committed value of a re-observed target is the committed value of the
    // public input it is; a re-observed SAMPLE is the native sample (a committed sample that
    // differs from it is a mismatch already)
    let mut last_obs: Option<B::BF> = None;
    let mut last_obs_ext: Option<B::EF> = None;
    let mut last_sample: Option<B::BF> = None;
    for (step, a) in hist.iter().enumerate() {
        match a {
            Act::Obs => {
                let (p, v) = next(Role::Obs)?;
                let c = v.as_basis_coefficients_slice();
                if c[1..].iter().any(|x| !x.is_zero()) && non_base.is_none() {
                    non_base = Some(format!(
                        "step {step}: committed observed value (public {p}) {} is not a base-field element",
                        show_ef::<B>(&v)
                    ));
                }
                nat.observe(c[0]);
                last_obs = Some(c[0]);
            }
            Act::ObsExt => {
                let (_, v) = next(Role::ObsExt)?;
                nat.observe_algebra_element(v);
                last_obs_ext = Some(v);
            }
            Act::ReObs => nat.observe(last_obs.ok_or("ro without a previous op")?),
            Act::ReObsExt => nat.observe_algebra_element(last_obs_ext.ok_or("rx without a previous xp")?),
            Act::ObsSample => nat.observe(last_sample.ok_or("os without a previous s")?),
            Act::Sample => {
                let exp: B::BF = nat.sample();
                last_sample = Some(exp);
                let (p, v) = next(Role::Out)?;
                if v != emb::<B>(exp) * kc && mismatch.is_none() {
                    mismatch = Some(format!(
                        "step {step} sample: committed challenge (public {p} / {k}) {} but native({}) = {}",
                        show_ef::<B>(&(v * kinv)),
                        "committed observations",
                        fu(&exp)
                    ));
                }
            }
            Act::SampleExt => {
                let exp: B::EF = nat.sample_algebra_element();
                let (p, v) = next(Role::Out)?;
                if v != exp * kc && mismatch.is_none() {
                    mismatch = Some(format!(
                        "step {step} sample_ext: committed challenge (public {p} / {k}) {} but native = {}",
                        show_ef::<B>(&(v * kinv)),
                        show_ef::<B>(&exp)
                    ));
                }
            }
            Act::Clear => nat = DuplexChallenger::<B::BF, B::Perm, 16, 8>::new(B::perm()),
            Act::Bits3 => {
                let exp: usize = nat.sample_bits(3);
                for i in 0..3 {
                    let (p, v) = next(Role::Out)?;
                    if v != B::EF::from_bool((exp >> i) & 1 == 1) * kc && mismatch.is_none() {
                        mismatch = Some(format!(
                            "step {step} sample_bits(3): committed bit {i} (public {p} / {k}) {} but native bits = {exp:03b}",
                            show_ef::<B>(&(v * kinv))
                        ));
                    }
                }
            }
        }
    }
    if pos != roles.len() {
        return Err("public inputs left over".into());
    }
    let mut observed_changed = false;
    let mut sampled_changed = false;
    for (p, r) in roles.iter().enumerate() {
        if committed[p] != honest_publics[p] {
            match r {
                Role::Out => sampled_changed = true,
                _ => observed_changed = true,
            }
        }
    }
    let out_of_domain = non_base.is_some();
    let (clause, detail) = match (non_base, mismatch) {
        (Some(d), _) => (None, d),
        (None, Some(d)) => (Some("challenge!=native"), d),
        (None, None) => (None, String::new()),
    };
    Ok(Judgement { clause, detail, out_of_domain, observed_changed, sampled_changed })
}

// =======================================================================================
// Deviations

#[derive(Clone, Debug, PartialEq)]
enum Dev {
    Honest,
    Fault(Fault),
    Perm { call: usize, limb: usize },
    /// class PI: INPUT base limb `limb` of permutation call `call` is incremented in the state
    /// that is permuted and in the recorded row, the slot feeding it keeps its value
    PermIn { call: usize, limb: usize },
}
impl Dev {
    fn to_json(&self) -> Value {
        match self {
            Dev::Honest => json!({"kind": "honest"}),
            Dev::Fault(f) => json!({"kind": "fault", "fault": f.to_json()}),
            Dev::Perm { call, limb } => json!({"kind": "perm", "call": call, "limb": limb}),
            Dev::PermIn { call, limb } => json!({"kind": "perm-in", "call": call, "limb": limb}),
        }
    }
    fn from_json(v: &Value) -> Option<Dev> {
        Some(match v.get("kind")?.as_str()? {
            "honest" => Dev::Honest,
            "fault" => Dev::Fault(Fault::from_json(v.get("fault")?)?),
            "perm" => Dev::Perm {
                call: v.get("call")?.as_u64()? as usize,
                limb: v.get("limb")?.as_u64()? as usize,
            },
            "perm-in" => Dev::PermIn {
                call: v.get("call")?.as_u64()? as usize,
                limb: v.get("limb")?.as_u64()? as usize,
            },
            _ => return None,
        })
    }
}

#[derive(Clone, Debug)]
enum Status {
    /// forged traces equal the honest traces
    Noop,
    /// the deviation cannot be carried out (executor refused / division by zero)
    Inapplicable(String),
    /// committed statement consistent with the native transcript: verdict irrelevant, not proved
    ConsistentNotProved,
    /// an observed base element is committed as a non-base-field value: outside the property
    OutOfDomain,
    Proved(Verdict),
}

struct Eval {
    class: String,
    table: String,
    role: String,
    prov: String,
    status: Status,
    j: Option<Judgement>,
    pred_fails: Option<bool>,
    pred_txt: String,
}
impl Eval {
    fn candidate(&self) -> bool {
        self.j.as_ref().is_some_and(|j| j.clause.is_some())
    }
    fn accepted(&self) -> bool {
        matches!(&self.status, Status::Proved(v) if v.accepted())
    }
    fn violation(&self) -> bool {
        self.candidate() && self.accepted()
    }
    fn outcome(&self) -> String {
        let c = if self.candidate() { "UNBOUND-CANDIDATE" } else { "consistent" };
        match &self.status {
            Status::Noop => "noop(trace unchanged)".into(),
            Status::Inapplicable(_) => "inapplicable".into(),
            Status::ConsistentNotProved => "consistent(not proved)".into(),
            Status::OutOfDomain => "out-of-domain(observed value not in the base field, not proved)".into(),
            Status::Proved(v) => format!("{c} -> {}", v.short()),
        }
    }
    fn to_json(&self) -> Value {
        json!({
            "class": self.class, "table": self.table, "role": self.role, "carries": self.prov,
            "outcome": self.outcome(),
            "verdict": match &self.status { Status::Proved(v) => v.long(), other => format!("{other:?}") },
            "oracle_clause": self.j.as_ref().and_then(|j| j.clause),
            "oracle_detail": self.j.as_ref().map(|j| j.detail.clone()),
            "vpe3_predicate": self.pred_txt,
        })
    }
}

/// One (configuration, history) with its validated fixture.
struct Fx<B: Cfg> {
    family: String,
    cfg_name: String,
    rc: bool,
    ctl: bool,
    mode: Mode,
    seed: u64,
    /// history including the final `sample`
    hist: Vec<Act>,
    fx: Fixture<B>,
    roles: Vec<Role>,
    pub_row: Vec<usize>,
    /// indices into `circuit.ops` of the permutation rows, in execution order
    perm_ops: Vec<usize>,
    prove_all: bool,
}

/// Thorough tier: every limb cell of the Public table (F1), F3 on every public slot, every
/// slot-less permutation input limb (F5; quick: first and last limb of every (row, role) group).
/// Quick tier: limb-0 cells only (a non-base observed value is out of the property's domain,
/// a non-base sampled output is the same forgery as its limb-0 variant), F3 on observed publics.
static FULL_PUBLIC_FAULTS: AtomicBool = AtomicBool::new(true);

trait DynFx: Send + Sync {
    fn devs(&self, units: &[usize]) -> Vec<Dev>;
    fn eval(&self, d: &Dev) -> Eval;
    fn key(&self, e: &Eval) -> String;
    fn what(&self, d: &Dev, e: &Eval) -> String;
    fn replay_json(&self, d: &Dev) -> Value;
    fn describe(&self) -> Value;
    fn hist_len(&self) -> usize;
    fn degree(&self) -> usize;
    fn label(&self) -> String;
    fn family(&self) -> &str;
}

fn alu_kind_name(k: p3_circuit::AluOpKind) -> &'static str {
    use p3_circuit::AluOpKind as A;
    match k {
        A::Add => "Add",
        A::Mul => "Mul",
        A::BoolCheck => "BoolCheck",
        A::MulAdd => "MulAdd",
        A::HornerAcc => "HornerAcc",
    }
}

impl<B: Cfg> Fx<B> {
    fn new(
        cfg_name: &str,
        hist: &[Act],
        rc: bool,
        ctl: bool,
        mode: Mode,
        seed: u64,
        prove_all: bool,
    ) -> Result<Self, String> {
        let r = replay::<B>(hist, rc, ctl, seed, true, mode)?;
        let circuit = r.circuit.ok_or("no circuit")?;
        // public position -> row of the Public table (rows are the Public ops in op order)
        let mut pub_row = vec![usize::MAX; r.publics.len()];
        let mut row = 0usize;
        let mut perm_ops = vec![];
        let pos_type = vpe3::backend::poseidon_op_type::<B>();
        for (oi, op) in circuit.ops.iter().enumerate() {
            match op {
                Op::Public { public_pos, .. } => {
                    if *public_pos < pub_row.len() {
                        pub_row[*public_pos] = row;
                    }
                    row += 1;
                }
                Op::NonPrimitiveOpWithExecutor { executor, .. } => {
                    if Some(executor.op_type()) == pos_type.as_ref() {
                        perm_ops.push(oi);
                    }
                }
                _ => {}
            }
        }
        if pub_row.iter().any(|r| *r == usize::MAX) {
            return Err("a public input has no row in the Public table".into());
        }
        if perm_ops.len() != r.native_perms {
            return Err(format!(
                "circuit has {} permutation rows, the native transcript permutes {} times",
                perm_ops.len(),
                r.native_perms
            ));
        }
        // the exposure mode is part of the family (and so of every key); mode x7 keeps the
        // historical family names
        let family = format!(
            "{}{}{}{}",
            if B::PERM_D == 1 { "d1perm".to_string() } else { format!("d{}", B::PERM_D) },
            if rc { "+recompose" } else { "" },
            if ctl { "+coeffctl" } else { "" },
            if mode == Mode::Direct { "@direct" } else { "" }
        );
        let name = format!("{cfg_name}@{}[{}]", mode.tag(), show(hist));
        // The public outputs were computed from the NATIVE transcript. If the circuit challenger
        // disagrees with the native one (a C05-type defect) the runner reports a conflict on a
        // public output; the honest prover would then simply commit the values the circuit
        // computes. Re-choose the public outputs that way, so that the fixture is the honest
        // proof of the circuit and the H evaluation reports "accepted, challenge != native".
        let mut inputs = Inputs { public: r.publics, private: vec![], siblings: vec![] };
        if !quiet_catch(|| vpe3::run_real(&circuit, &inputs)).is_ok_and(|r| r.is_ok()) {
            let dev = Deviation { adapt_publics: true, ..Deviation::none() };
            if let Ok(Ok(ex)) = quiet_catch(|| vpe3::execute(&circuit, &inputs, &dev)) {
                for (p, role) in r.roles.iter().enumerate() {
                    if *role == Role::Out {
                        inputs.public[p] = ex.inputs.public[p];
                    }
                }
            }
        }
        let fx = Fixture::<B>::new(&name, circuit, inputs, TablePacking::default())?;
        let me = Fx {
            family,
            cfg_name: cfg_name.to_string(),
            rc,
            ctl,
            mode,
            seed,
            hist: hist.to_vec(),
            fx,
            roles: r.roles,
            pub_row,
            perm_ops,
            prove_all,
        };
        // the honest statement must be consistent unless the repository is broken (then the
        // honest evaluation reports it); the oracle itself must be evaluable
        me.judge(&me.fx.honest)?;
        Ok(me)
    }

    fn judge(&self, t: &Traces<B::EF>) -> Result<Judgement, String> {
        match quiet_catch(|| judge::<B>(self.mode.k(), &self.hist, &self.roles, &self.pub_row, &self.fx.inputs.public, t)) {
            Ok(r) => r,
            Err(p) => Err(format!("oracle panicked: {p}")),
        }
    }

    /// What the value of a slot is, in challenger terms (part of violation keys).
    fn prov(&self, slot: u32, depth: usize) -> String {
        if depth > 6 {
            return "…".into();
        }
        let ops = &self.fx.circuit.ops;
        match self.fx.definers.get(slot as usize).cloned().flatten() {
            None => "undefined".into(),
            Some(Definer::PublicInput) => {
                match self.fx.circuit.public_rows.iter().position(|s| s.0 == slot).and_then(|p| self.roles.get(p)) {
                    Some(Role::Obs) => "observed".into(),
                    Some(Role::ObsExt) => "observed-ext".into(),
                    Some(Role::Out) => "sample-out".into(),
                    None => "public?".into(),
                }
            }
            Some(Definer::PrivateInput) => "private".into(),
            Some(Definer::Const(_)) => "const".into(),
            Some(Definer::Rewrite) => "rewrite".into(),
            Some(Definer::Hint(oi)) => match &ops[oi] {
                Op::Hint { inputs, outputs, .. } => {
                    let kind = if B::D > 1 && outputs.len() == B::D { "coeff" } else { "bit" };
                    let inner = inputs.first().map(|s| self.prov(s.0, depth + 1)).unwrap_or_default();
                    format!("{kind}-of({inner})")
                }
                _ => "hint?".into(),
            },
            Some(Definer::Alu(oi, _)) => match &ops[oi] {
                Op::Alu { kind, .. } => format!("alu.{}", alu_kind_name(*kind)),
                _ => "alu?".into(),
            },
            Some(Definer::Npo(oi, g, exposed)) => match &ops[oi] {
                Op::NonPrimitiveOpWithExecutor { executor, .. } => {
                    let t = executor.op_type().as_str().to_string();
                    if t.starts_with("recompose") {
                        "recomposed".into()
                    } else {
                        let rate = B::poseidon_config().map(|c| c.rate_ext()).unwrap_or(0);
                        format!(
                            "{}-out[{}]",
                            if g < rate { "rate" } else { "capacity" },
                            if exposed { "bus" } else { "hidden" }
                        )
                    }
                }
                _ => "npo?".into(),
            },
        }
    }

    fn port_slot(&self, op: usize, port: Port) -> Option<WitnessId> {
        match self.fx.circuit.ops.get(op)? {
            Op::Alu { a, b, c, out, intermediate_out, .. } => match port {
                Port::A => Some(*a),
                Port::B => Some(*b),
                Port::C => *c,
                Port::Out => Some(*out),
                Port::Acc => *intermediate_out,
                Port::In(..) => None,
            },
            Op::NonPrimitiveOpWithExecutor { inputs, .. } => match port {
                Port::In(g, e) => inputs.get(g)?.get(e).copied(),
                _ => None,
            },
            _ => None,
        }
    }

    /// State limbs of permutation op `oi` whose witness slot ALSO feeds another state limb of the
    /// same row (the same target absorbed at two positions of one block: a re-observed target,
    /// the shared zero constant of the padding / initial capacity): `(limb, slot, first)`, limb
    /// in units of the permutation packing, `first` = no lower limb reads that slot.
    fn shared_input_limbs(&self, oi: usize) -> Vec<(usize, WitnessId, bool)> {
        let (Some(cfg), Some(Op::NonPrimitiveOpWithExecutor { inputs, .. })) =
            (B::poseidon_config(), self.fx.circuit.ops.get(oi))
        else {
            return vec![];
        };
        let limbs = if cfg.d() == 1 { cfg.width() } else { cfg.width_ext() };
        let slot_of = |g: usize| match inputs.get(g).map(|x| x.as_slice()) {
            Some([s]) => Some(*s),
            _ => None,
        };
        let mut v = vec![];
        for g in 0..limbs.min(inputs.len()) {
            let Some(s) = slot_of(g) else { continue };
            if (0..limbs).any(|h| h != g && slot_of(h) == Some(s)) {
                v.push((g, s, !(0..g).any(|h| slot_of(h) == Some(s))));
            }
        }
        v
    }

    /// (class, table, role, carried value) of a deviation.
    fn site(&self, d: &Dev) -> (String, String, String, String) {
        match d {
            Dev::Honest => ("H".into(), "-".into(), "-".into(), "-".into()),
            Dev::PermIn { call, limb } => {
                let t = vpe3::backend::poseidon_op_type::<B>()
                    .map(|t| vpe3::backend::key_table(t.as_str()))
                    .unwrap_or_default();
                let pd = B::poseidon_config().map(|c| c.d()).unwrap_or(1).max(1);
                let hit = self
                    .perm_ops
                    .get(*call)
                    .and_then(|oi| self.shared_input_limbs(*oi).into_iter().find(|(g, _, _)| *g == *limb / pd));
                match hit {
                    Some((_, slot, first)) => (
                        "PI".into(),
                        t,
                        format!("input-limb[shared-slot,{}]", if first { "first" } else { "repeat" }),
                        self.prov(slot.0, 0),
                    ),
                    None => ("PI".into(), t, "input-limb".into(), "?".into()),
                }
            }
            Dev::Perm { call, limb } => {
                let t = vpe3::backend::poseidon_op_type::<B>()
                    .map(|t| vpe3::backend::key_table(t.as_str()))
                    .unwrap_or_default();
                // a rate limb (direct mode only) also says what its witness slot is: its own
                // exposed slot (`rate-out[bus]`) or a slot some earlier row already created
                // (`sample-out`: aliased to the public output by `connect`)
                let slot = self.perm_ops.get(*call).and_then(|oi| match self.fx.circuit.ops.get(*oi) {
                    Some(Op::NonPrimitiveOpWithExecutor { outputs, .. }) => {
                        outputs.get(*limb).and_then(|g| g.first()).copied()
                    }
                    _ => None,
                });
                let prov = match (*limb < 8, slot) {
                    (true, Some(s)) => format!("rate-out[closure]->{}", self.prov(s.0, 0)),
                    (true, None) => "rate-out[closure]->no-slot".to_string(),
                    (false, _) => "capacity-out[closure]".to_string(),
                };
                ("P".into(), t, "output-limb".into(), prov)
            }
            Dev::Fault(f) => {
                let s = self.fx.site(f);
                let prov = match f {
                    Fault::F2 { slot, .. } | Fault::F3 { slot, .. } => self.prov(*slot, 0),
                    // F5: the limb has no witness slot; what it carries is fixed by the row mode
                    // (the role already says rate / capacity / first table row)
                    Fault::F4 { .. } if f.as_f5().is_some() => {
                        if s.role.starts_with("unfed-input") {
                            "implicit-zero[no-slot]".into()
                        } else if s.role.starts_with("inherited-input") {
                            "chained-state[no-slot]".into()
                        } else {
                            "?".into()
                        }
                    }
                    Fault::F4 { op, port, .. } => {
                        self.port_slot(*op, *port).map(|s| self.prov(s.0, 0)).unwrap_or_else(|| "?".into())
                    }
                    Fault::F1 { row, .. } => self
                        .fx
                        .honest
                        .public_trace
                        .index
                        .get(*row)
                        .map(|s| self.prov(s.0, 0))
                        .unwrap_or_else(|| "padding".into()),
                    Fault::F2Sibling { .. } => "sibling".into(),
                };
                (s.class.to_string(), vpe3::backend::key_table(&s.table), s.role, prov)
            }
        }
    }
}

impl<B: Cfg> DynFx for Fx<B> {
    fn hist_len(&self) -> usize {
        self.hist.len()
    }
    fn degree(&self) -> usize {
        B::D
    }
    fn family(&self) -> &str {
        &self.family
    }
    fn label(&self) -> String {
        format!("{}/{} [{}]", self.cfg_name, self.family, show(&self.hist))
    }

    fn devs(&self, units: &[usize]) -> Vec<Dev> {
        let mut v = vec![Dev::Honest];
        // the tagging constant K belongs to the harness' exposure of the samples, not to the
        // challenger: neither its slot nor the ports reading it are deviated
        let k_slot: Option<u32> = self.fx.circuit.ops.iter().find_map(|op| match op {
            Op::Const { out, val } if self.mode == Mode::X7 && *val == emb::<B>(B::BF::from_u64(K)) => Some(out.0),
            _ => None,
        });
        let full = FULL_PUBLIC_FAULTS.load(Ordering::Relaxed);
        for f in self.fx.enumerate(units) {
            let keep = match &f {
                Fault::F2 { slot, .. } if Some(*slot) == k_slot => false,
                // the compensated form (an unused operand cell of the defining ALU row absorbs
                // the difference) is a property of the ALU AIR, enumerated by C04 on its own
                // circuits in every tier; here only in the thorough tier
                Fault::F2 { unit, .. } if *unit >= vpe3::faults::COMP && !full => false,
                Fault::F4 { op, port, .. } if self.port_slot(*op, *port).map(|s| s.0) == k_slot && k_slot.is_some() => {
                    false
                }
                Fault::F2 { .. } | Fault::F2Sibling { .. } | Fault::F4 { .. } => true,
                Fault::F3 { slot, .. } => {
                    // quick: F3 on a public OUTPUT is the same forgery as F1 on its limb-0 cell
                    // plus the exposure row; only the observed publics are kept
                    matches!(self.fx.definers.get(*slot as usize).cloned().flatten(), Some(Definer::PublicInput))
                        && (full || self.prov(*slot, 0) != "sample-out")
                }
                Fault::F1 { table, col, .. } => {
                    let limb = col % B::D;
                    self.fx.cellmap.tables.get(*table).map(|t| t.as_str()) == Some("public") && (full || limb == 0)
                }
            };
            if keep {
                v.push(Dev::Fault(f));
            }
        }
        // F5: every permutation row x every input limb WITHOUT a witness slot (un-fed limb of a
        // new_start row = the executor's implicit zero / absorb-length tag; un-fed limb of a
        // chained row = the previous row's output) x delta unit of the permutation packing
        // (quick: the first and the last slot-less limb of every (row, role) group — the limbs of
        // one group are treated alike by executor and AIR; thorough: every limb)
        let f5 = self.fx.enumerate_f5(units);
        let mut span: BTreeMap<(usize, String), (usize, usize)> = BTreeMap::new();
        for f in &f5 {
            if let Some((op, limb, _)) = f.as_f5() {
                let e = span.entry((op, self.fx.site(f).role)).or_insert((limb, limb));
                *e = (e.0.min(limb), e.1.max(limb));
            }
        }
        for f in f5 {
            let Some((op, limb, _)) = f.as_f5() else { continue };
            let ends = span.get(&(op, self.fx.site(&f).role)).copied().unwrap_or((limb, limb));
            if full || limb == ends.0 || limb == ends.1 {
                v.push(Dev::Fault(f));
            }
        }
        // PI: every state limb of every permutation row whose slot feeds several limbs of that
        // row (F4 on such a port deviates the shared scratch slot, i.e. all those limbs at once;
        // here ONE limb deviates) x delta unit (quick: the first and the last limb of every
        // same-slot group; thorough: every limb)
        let pd = B::poseidon_config().map(|c| c.d()).unwrap_or(1).max(1);
        for (call, oi) in self.perm_ops.iter().enumerate() {
            let sh = self.shared_input_limbs(*oi);
            for (g, slot, _) in &sh {
                let same: Vec<usize> = sh.iter().filter(|(_, s, _)| s == slot).map(|(h, _, _)| *h).collect();
                if !(full || same.first() == Some(g) || same.last() == Some(g)) {
                    continue;
                }
                let mut seen = vec![];
                for &u in units {
                    let u = u.min(pd - 1);
                    if !seen.contains(&u) {
                        seen.push(u);
                        v.push(Dev::PermIn { call, limb: g * pd + u });
                    }
                }
            }
        }
        if B::PERM_D == 1 {
            for call in 0..self.perm_ops.len() {
                // rate limbs have witness slots (class F2 covers them); the capacity limbs of a
                // D=1 row only live in the table's chain. In the direct exposure mode a sampled
                // rate output is ALIASED to its public slot (the public input is the slot's first
                // writer, so F2 on that slot is absorbed by the re-chosen public value): the
                // closure deviates in every output limb, the prover publishes the value the
                // deviation implies
                let first = if self.mode == Mode::Direct { 0 } else { 8 };
                for limb in first..16 {
                    v.push(Dev::Perm { call, limb });
                }
            }
        }
        v
    }

    fn eval(&self, d: &Dev) -> Eval {
        let (class, table, role, prov) = self.site(d);
        let mut e = Eval {
            class,
            table,
            role,
            prov,
            status: Status::Noop,
            j: None,
            pred_fails: None,
            pred_txt: String::new(),
        };
        // (traces to prove, private data used, cell edits, committed view)
        let forged = match d {
            Dev::Honest => {
                // proved and accepted when the fixture was validated
                e.j = self.judge(&self.fx.honest).ok();
                e.status = Status::Proved(Verdict::Accepted);
                e.pred_fails = Some(false);
                return e;
            }
            Dev::Fault(f) => self.fx.apply(f),
            Dev::Perm { call, limb } => {
                PLAN.set(Some((*call, *limb, self.perm_ops.len(), false)));
                CALLS.set(0);
                let r = self.fx.forge(&Deviation { adapt_publics: true, ..Deviation::none() });
                PLAN.set(None);
                r.map(|ex| (ex.traces.clone(), self.fx.inputs.clone(), vec![], ex.traces))
            }
            Dev::PermIn { call, limb } => {
                PLAN.set(Some((*call, *limb, self.perm_ops.len(), true)));
                CALLS.set(0);
                let r = self.fx.forge(&Deviation { adapt_publics: true, ..Deviation::none() });
                PLAN.set(None);
                r.and_then(|ex| {
                    // the executor recorded the input limbs it read from the slots; the row the
                    // prover commits carries the state that was really permuted
                    let mut t = ex.traces;
                    if !vpe3::fields::add::<B>(&mut t, &vpe3::fields::Loc::PosIn { row: *call, j: *limb }, B::BF::ONE) {
                        return Err("permutation row input cell not found".to_string());
                    }
                    Ok((t.clone(), self.fx.inputs.clone(), vec![], t))
                })
            }
        };
        let (traces, inputs, edits, committed) = match forged {
            Ok(x) => x,
            Err(msg) => {
                e.status = Status::Inapplicable(msg);
                return e;
            }
        };
        match self.judge(&committed) {
            Ok(j) => e.j = Some(j),
            Err(msg) => {
                e.status = Status::Inapplicable(format!("oracle: {msg}"));
                return e;
            }
        }
        if edits.is_empty() && vpe3::fields::same_scalars::<B>(&traces, &self.fx.honest).is_ok() {
            e.status = Status::Noop;
            return e;
        }
        if e.j.as_ref().is_some_and(|j| j.out_of_domain) {
            e.status = Status::OutOfDomain;
            return e;
        }
        if !e.candidate() && !self.prove_all {
            e.status = Status::ConsistentNotProved;
            return e;
        }
        let verdict = self.fx.accept(&traces, &edits);
        if verdict.accepted() {
            // cross-check with vpe3's reference predicate (only needed for accepted traces)
            let pred = self.fx.predicate(&inputs, &committed);
            e.pred_fails = Some(pred.fails());
            e.pred_txt = match &pred {
                vpe3::Pred::Fails(c) => format!("fails: {}", c.kind),
                other => other.short().to_string(),
            };
        }
        e.status = Status::Proved(verdict);
        e
    }

    fn key(&self, e: &Eval) -> String {
        let clause = e.j.as_ref().and_then(|j| j.clause).unwrap_or("-");
        if e.class == "H" {
            format!("unbound:{}:{clause}:honest", self.family)
        } else {
            format!("unbound:{}:{clause}:{}:{}:{}:{}", self.family, e.class, e.table, e.role, e.prov)
        }
    }

    fn what(&self, d: &Dev, e: &Eval) -> String {
        format!(
            "{} (exposure {}) history [{}]: deviation {} ({} {} {} carrying {}) is ACCEPTED by prove_all_tables+verify_all_tables, but {}",
            self.cfg_name,
            self.mode.tag(),
            show(&self.hist),
            d.to_json(),
            e.class,
            e.table,
            e.role,
            e.prov,
            e.j.as_ref().map(|j| j.detail.clone()).unwrap_or_default()
        )
    }

    fn replay_json(&self, d: &Dev) -> Value {
        json!({"cfg": self.cfg_name, "recompose": self.rc, "coeff_ctl": self.ctl, "mode": self.mode.tag(),
               "history": show(&self.hist), "dev": d.to_json(), "seed": self.seed})
    }

    fn describe(&self) -> Value {
        let mut d = vpe3::Case::describe(&self.fx);
        d["history"] = json!(show(&self.hist));
        d["family"] = json!(self.family);
        d["exposure_mode"] = json!(self.mode.tag());
        d["permutation_rows"] = json!(self.perm_ops.len());
        d["public_inputs"] = json!(self.roles.len());
        d
    }
}

// =======================================================================================
// Configuration instances (type-erased)

trait DynCfg: Send + Sync {
    fn name(&self) -> &str;
    /// (depth bound in the thorough tier, depth up to which the top basis element is also used)
    fn thorough_depth(&self) -> usize;
    fn describe(&self) -> String;
    fn state_key(&self, hist: &[Act], seed: u64) -> Result<String, String>;
    fn fixture(&self, hist: &[Act], mode: Mode, seed: u64, prove_all: bool) -> Result<Box<dyn DynFx>, String>;
}

struct Inst<B: Cfg> {
    name: String,
    rc: bool,
    ctl: bool,
    tdepth: usize,
    _p: PhantomData<fn() -> B>,
}

impl<B: Cfg> DynCfg for Inst<B> {
    fn name(&self) -> &str {
        &self.name
    }
    fn thorough_depth(&self) -> usize {
        self.tdepth
    }
    fn describe(&self) -> String {
        format!(
            "{}: backend {} (circuit degree {}), Poseidon2 W16 table packing D={}, recompose table {}, coefficient lookups for decompose links {}",
            self.name,
            B::NAME,
            B::D,
            B::PERM_D,
            if self.rc { "on" } else { "off" },
            if self.ctl { "on" } else { "off" }
        )
    }
    fn state_key(&self, hist: &[Act], seed: u64) -> Result<String, String> {
        match quiet_catch(|| replay::<B>(hist, self.rc, self.ctl, seed, false, Mode::X7)) {
            Ok(r) => r.map(|r| r.key),
            Err(p) => Err(format!("panic: {p}")),
        }
    }
    fn fixture(&self, hist: &[Act], mode: Mode, seed: u64, prove_all: bool) -> Result<Box<dyn DynFx>, String> {
        match quiet_catch(|| Fx::<B>::new(&self.name, hist, self.rc, self.ctl, mode, seed, prove_all)) {
            Ok(r) => r.map(|f| Box::new(f) as Box<dyn DynFx>),
            Err(p) => Err(format!("panic: {p}")),
        }
    }
}

fn inst<B: Cfg>(name: &str, rc: bool, ctl: bool, tdepth: usize) -> Box<dyn DynCfg> {
    Box::new(Inst::<B> { name: name.to_string(), rc, ctl, tdepth, _p: PhantomData })
}

fn all_instances() -> Vec<Box<dyn DynCfg>> {
    vec![
        // the first two are the quick tier (depth 3): what every D>1 / quintic recursion backend uses
        inst::<KbD4>("kb-d4+rc", true, false, 5),
        inst::<KbD5>("kb-d5-base+rc+ctl", true, true, 5),
        // table combinations no backend uses by default, and the BabyBear twins
        inst::<KbD4>("kb-d4", false, false, 4),
        inst::<KbD5>("kb-d5-base+rc", true, false, 4),
        inst::<KbD5>("kb-d5-base", false, false, 4),
        inst::<BbD4>("bb-d4+rc", true, false, 3),
        inst::<BbD4>("bb-d4", false, false, 3),
    ]
}

/// BFS over the C05 automaton restricted to `depth`: the shortest history of every canonical
/// state, in BFS order. (Equal keys ⇒ equal futures is C05's argument; here the key only
/// selects which histories get a circuit, so a coarser or finer key changes coverage, never a
/// verdict.)
///
/// The target re-use actions (`ro`, `rx`, `os`) only occur inside histories of length
/// <= `rdepth`: a history containing one is not extended beyond that length. Their keys carry
/// the re-use flags, so they never displace a history over the base alphabet.
fn bfs_states(cfg: &dyn DynCfg, depth: usize, rdepth: usize, seed: u64) -> Result<(Vec<Vec<Act>>, usize), String> {
    let mut seen: HashSet<String> = HashSet::new();
    seen.insert(cfg.state_key(&[], seed)?);
    let mut out: Vec<Vec<Act>> = vec![vec![]];
    let mut frontier: Vec<Vec<Act>> = vec![vec![]];
    let mut transitions = 0usize;
    for _ in 0..depth {
        let cands: Vec<Vec<Act>> = frontier
            .iter()
            .flat_map(|h| {
                let short = h.len() < rdepth;
                let has_reuse = h.iter().any(|a| a.reuse());
                ALPHABET
                    .iter()
                    .filter(move |_| !has_reuse || short)
                    .chain(REUSE.iter().filter(move |a| short && a.applicable(h)))
                    .map(move |a| {
                        let mut x = h.clone();
                        x.push(*a);
                        x
                    })
            })
            .collect();
        let keys: Vec<Result<String, String>> = cands.par_iter().map(|h| cfg.state_key(h, seed)).collect();
        let mut next = vec![];
        for (h, k) in cands.into_iter().zip(keys) {
            transitions += 1;
            if seen.insert(k?) {
                out.push(h.clone());
                next.push(h);
            }
        }
        frontier = next;
    }
    Ok((out, transitions))
}

// =======================================================================================

fn main() {
    vpcore::install_quiet_panic_hook();
    let mut ctx = Ctx::from_args("C06", "fault_enumeration");
    // A full quick run takes about 35 s on an idle 16-core machine; the default 45 s budget leaves
    // too little room on a busy one (the deepest histories are the first to go). 55 s unless the
    // caller chose a budget.
    if ctx.quick() && ctx.budget == std::time::Duration::from_secs(45) && !std::env::args().any(|a| a == "--budget-s") {
        ctx.budget = std::time::Duration::from_secs(55);
    }
    let ctx = ctx;
    let report = Report::new();
    let insts = all_instances();

    // ---------------------------------------------------------------- replay of one case
    if let Some(path) = &ctx.replay {
        let r = vpcore::load_replay(path);
        let name = r["cfg"].as_str().unwrap_or("").to_string();
        let hist = r["history"]
            .as_str()
            .and_then(parse_hist)
            .unwrap_or_else(|| machinery_error("replay: unreadable history"));
        let dev = Dev::from_json(&r["dev"]).unwrap_or_else(|| machinery_error("replay: unreadable deviation"));
        let seed = r["seed"].as_u64().unwrap_or(ctx.seed);
        // replays stored before the exposure modes existed are mode x7
        let mode = r["mode"].as_str().and_then(Mode::parse).unwrap_or(Mode::X7);
        let cfg = insts
            .iter()
            .find(|c| c.name() == name)
            .unwrap_or_else(|| machinery_error(&format!("replay: unknown configuration {name}")));
        let fx = cfg
            .fixture(&hist, mode, seed, true)
            .unwrap_or_else(|e| machinery_error(&format!("replay: fixture: {e}")));
        let e = fx.eval(&dev);
        println!("replay {} {}: {}", fx.label(), dev.to_json(), e.to_json());
        if e.violation() {
            report.violation(fx.key(&e), fx.what(&dev, &e), fx.replay_json(&dev));
        }
        let cov = json!({"evaluations": 1, "distinct_nontrivial": e.candidate() as u64,
            "rule": "replay of one stored deviation", "samples": [e.to_json()], "replay": true});
        finish(&ctx, cov, vec![], &report);
    }

    // ---------------------------------------------------------------- tier
    let depth_opt: Option<usize> = ctx.opt("depth").and_then(|s| s.parse().ok());
    let depth_of = |c: &dyn DynCfg| depth_opt.unwrap_or(if ctx.quick() { 3 } else { c.thorough_depth() });
    let selected: Vec<&Box<dyn DynCfg>> = match ctx.opt("cfg") {
        Some(o) => insts.iter().filter(|c| c.name() == o).collect(),
        None if ctx.quick() => insts.iter().take(2).collect(),
        None => insts.iter().collect(),
    };
    if selected.is_empty() {
        machinery_error("no configuration selected");
    }
    let prove_all = ctx.opt("prove") == Some("all");
    FULL_PUBLIC_FAULTS.store(!ctx.quick(), Ordering::Relaxed);
    // soft cap: leave room for the proofs in flight and the evidence (quick: 55 s * 0.93 = 51 s; one history takes < 1 s)
    let cap = if ctx.quick() { 0.93 } else { 0.92 };
    let over = || ctx.used() >= cap;

    // states of the automaton per configuration
    let mut per_cfg: Vec<Value> = vec![];
    // exposure modes: every configuration in mode x7 (full depth) and in mode direct (quick:
    // histories of depth <= 2; thorough: depth <= min(configuration depth, 4)); a variant =
    // (configuration, mode)
    let modes: Vec<Mode> = match ctx.opt("modes") {
        Some("x7") => vec![Mode::X7],
        Some("direct") => vec![Mode::Direct],
        _ => vec![Mode::X7, Mode::Direct],
    };
    let ddepth_opt: Option<usize> = ctx.opt("ddepth").and_then(|s| s.parse().ok());
    let direct_depth_of =
        |c: &dyn DynCfg| ddepth_opt.unwrap_or(if ctx.quick() { 2 } else { 4 }).min(depth_of(c));
    // target re-use actions inside histories of length <= rdepth (quick 2; thorough 3 for the two
    // configurations the recursion backends use, 2 for the other table combinations)
    let rdepth_opt: Option<usize> = ctx.opt("rdepth").and_then(|s| s.parse().ok());
    let rdepth_of = |c: &dyn DynCfg| {
        rdepth_opt.unwrap_or(if !ctx.quick() && matches!(c.name(), "kb-d4+rc" | "kb-d5-base+rc+ctl") { 3 } else { 2 })
    };
    let rdepth = selected.iter().map(|c| rdepth_of(c.as_ref())).max().unwrap_or(2);
    let mut variants: Vec<(usize, Mode)> = vec![]; // (index into `selected`, mode)
    let mut plan: Vec<(usize, Vec<Act>)> = vec![]; // (variant index, history without the final sample)
    let mut total_states = 0usize;
    let mut total_transitions = 0usize;
    for (ci, cfg) in selected.iter().enumerate() {
        let (hs, tr) = bfs_states(cfg.as_ref(), depth_of(cfg.as_ref()), rdepth_of(cfg.as_ref()), ctx.seed)
            .unwrap_or_else(|e| machinery_error(&format!("{}: automaton exploration: {e}", cfg.name())));
        total_states += hs.len();
        total_transitions += tr;
        let dd = direct_depth_of(cfg.as_ref());
        per_cfg.push(json!({"config": cfg.describe(), "automaton_states_within_depth": hs.len(),
            "automaton_transitions_executed": tr, "depth": depth_of(cfg.as_ref()),
            "exposure_modes": modes.iter().map(|m| m.tag()).collect::<Vec<_>>(),
            "depth_in_mode_direct": dd, "target_reuse_depth": rdepth_of(cfg.as_ref()),
            "histories_in_mode_direct": if modes.contains(&Mode::Direct) { hs.iter().filter(|h| h.len() <= dd).count() } else { 0 }}));
        for m in &modes {
            let vi = variants.len();
            variants.push((ci, *m));
            for h in &hs {
                if *m == Mode::X7 || h.len() <= dd {
                    plan.push((vi, h.clone()));
                }
            }
        }
    }

    let depth = selected.iter().map(|c| depth_of(c.as_ref())).max().unwrap_or(0);
    if ctx.opt("dry").is_some() {
        for (vi, (ci, m)) in variants.iter().enumerate() {
            let per_level: Vec<usize> =
                (0..=depth).map(|l| plan.iter().filter(|(c, h)| *c == vi && h.len() == l).count()).collect();
            println!("{}@{}: states per level {:?}", selected[*ci].name(), m.tag(), per_level);
        }
        std::process::exit(0);
    }
    let histo = Histo::new();
    let site_histo = Histo::new();
    let samples: Mutex<Vec<Value>> = Mutex::new(vec![]);
    let timed_out = AtomicBool::new(false);
    let (mut evaluations, mut candidates, mut proved, mut accepted_unbound) = (0u64, 0u64, 0u64, 0u64);
    let (mut changed_consistent, mut noops, mut inapplicable, mut crosscheck_bad) = (0u64, 0u64, 0u64, 0u64);
    let mut out_of_domain = 0u64;
    let (mut cand_observed_changed, mut cand_sampled_changed) = (0u64, 0u64);
    let mut histories_done = 0usize;
    let mut histories_partial = 0usize;
    let mut fixtures_json: Vec<Value> = vec![];
    let mut skipped_cfg: BTreeMap<String, String> = BTreeMap::new();
    let mut skipped_count: BTreeMap<String, u64> = BTreeMap::new();
    let mut distinct_statements: HashSet<String> = HashSet::new();
    // class -> family -> [evaluated, changed the trace, inconsistent statement decided, accepted]
    let mut by_class: BTreeMap<String, BTreeMap<String, [u64; 4]>> = BTreeMap::new();

    // level by level (shortest histories first, all configurations interleaved): a cut by the
    // wall-clock budget removes the longest histories, never a configuration
    'levels: for level in 0..=depth {
        // configurations interleaved (k-th state of every configuration, then the (k+1)-th ...)
        let mut todo: Vec<(usize, &(usize, Vec<Act>))> = vec![];
        let mut rank: BTreeMap<usize, usize> = BTreeMap::new();
        for p in plan.iter().filter(|(_, h)| h.len() == level) {
            let r = rank.entry(p.0).or_insert(0);
            todo.push((*r, p));
            *r += 1;
        }
        todo.sort_by_key(|(r, p)| (*r, p.0));
        let todo: Vec<&(usize, Vec<Act>)> = todo.into_iter().map(|(_, p)| p).collect();
        if todo.is_empty() {
            continue;
        }
        if over() {
            timed_out.store(true, Ordering::Relaxed);
            break 'levels;
        }
        let built: Vec<(usize, Vec<Act>, Result<Box<dyn DynFx>, String>)> = todo
            .par_iter()
            .map(|(vi, h)| {
                let mut full = h.clone();
                full.push(Act::Sample);
                let (ci, mode) = variants[*vi];
                let fx = selected[ci].fixture(&full, mode, ctx.seed, prove_all);
                (*vi, full, fx)
            })
            .collect();
        let mut fxs: Vec<Box<dyn DynFx>> = vec![];
        for (vi, h, fx) in built {
            let (ci, mode) = variants[vi];
            match fx {
                Ok(f) => fxs.push(f),
                Err(e) => {
                    // A configuration whose HONEST challenger circuit does not prove is outside
                    // C06 (completeness is C10's subject). Only tolerated for the non-default
                    // table combinations; for the configurations every backend uses it is a
                    // machinery error.
                    // (The direct exposure mode is a harness-chosen circuit shape, not something
                    // a backend relies on: a shape whose honest circuit does not prove is
                    // likewise listed and skipped.)
                    let mut name = selected[ci].name().to_string();
                    let tolerated = mode == Mode::Direct
                        || !matches!(name.as_str(), "kb-d4+rc" | "bb-d4+rc" | "kb-d5-base+rc+ctl");
                    if mode == Mode::Direct {
                        name.push_str("@direct");
                    }
                    if tolerated {
                        *skipped_count.entry(name.clone()).or_insert(0) += 1;
                        skipped_cfg.entry(name).or_insert_with(|| format!("[{}]: {e}", show(&h)));
                    } else {
                        machinery_error(&format!("fixture {name} [{}]: {e}", show(&h)));
                    }
                }
            }
        }
        let units: Vec<Vec<usize>> = fxs
            .iter()
            .map(|f| {
                // (mode direct: base unit only — the deviation positions are what the mode adds)
                if ctx.quick() || f.degree() == 1 || level > 3 || f.family().ends_with("@direct") {
                    vec![0]
                } else {
                    vec![0, f.degree() - 1]
                }
            })
            .collect();
        // tasks in order; a work queue keeps the processing order close to the list order
        let mut tasks: Vec<(usize, Dev)> = vec![];
        for (i, f) in fxs.iter().enumerate() {
            for d in f.devs(&units[i]) {
                tasks.push((i, d));
            }
        }
        let next = AtomicUsize::new(0);
        let results: Vec<Mutex<Option<Eval>>> = (0..tasks.len()).map(|_| Mutex::new(None)).collect();
        let nthreads = vpcore::rayon::current_num_threads().max(1);
        (0..nthreads).into_par_iter().for_each(|_| {
            loop {
                let i = next.fetch_add(1, Ordering::Relaxed);
                if i >= tasks.len() {
                    break;
                }
                if over() {
                    timed_out.store(true, Ordering::Relaxed);
                    break;
                }
                let (fi, d) = &tasks[i];
                let e = match quiet_catch(|| fxs[*fi].eval(d)) {
                    Ok(e) => e,
                    Err(p) => {
                        PLAN.set(None);
                        let mut e = fxs[*fi].eval(&Dev::Honest);
                        e.class = "panic".into();
                        e.j = None;
                        e.status = Status::Inapplicable(format!("harness panic: {p}"));
                        e
                    }
                };
                *results[i].lock().unwrap() = Some(e);
            }
        });
        // sequential accounting in enumeration order
        let mut done_per_fx = vec![0usize; fxs.len()];
        let mut total_per_fx = vec![0usize; fxs.len()];
        for (i, (fi, d)) in tasks.iter().enumerate() {
            total_per_fx[*fi] += 1;
            let Some(e) = results[i].lock().unwrap().take() else { continue };
            done_per_fx[*fi] += 1;
            evaluations += 1;
            let f = &fxs[*fi];
            histo.add(&format!("{} | {} | {}", f.family(), e.class, e.outcome()));
            if !matches!(e.status, Status::Noop) {
                site_histo.add(&format!(
                    "{} | {} {} {} carrying {} | {}",
                    f.family(), e.class, e.table, e.role, e.prov, e.outcome()
                ));
            }
            {
                let c = by_class.entry(e.class.clone()).or_default().entry(f.family().to_string()).or_insert([0; 4]);
                c[0] += 1;
                c[1] += !matches!(e.status, Status::Noop | Status::Inapplicable(_)) as u64;
                c[2] += (e.candidate() && matches!(e.status, Status::Proved(_))) as u64;
                c[3] += e.violation() as u64;
            }
            match &e.status {
                Status::Noop => noops += 1,
                Status::Inapplicable(_) => inapplicable += 1,
                Status::ConsistentNotProved => changed_consistent += 1,
                Status::OutOfDomain => out_of_domain += 1,
                Status::Proved(_) => {
                    if e.class != "H" {
                        proved += 1;
                    }
                    if !e.candidate() && e.class != "H" {
                        changed_consistent += 1;
                    }
                }
            }
            if e.candidate() && matches!(e.status, Status::Proved(_)) {
                candidates += 1;
                if let Some(j) = &e.j {
                    cand_observed_changed += j.observed_changed as u64;
                    cand_sampled_changed += j.sampled_changed as u64;
                }
                if let Some(j) = &e.j {
                    distinct_statements.insert(format!("{}|{}", f.label(), j.detail));
                }
            }
            if e.violation() {
                accepted_unbound += 1;
                if e.class != "H" && e.pred_fails == Some(false) {
                    crosscheck_bad += 1;
                    eprintln!(
                        "CROSS-CHECK: oracle violation but vpe3 predicate does not fail: {} {}",
                        f.label(),
                        d.to_json()
                    );
                }
                if ctx.opt("list") == Some("accepted") {
                    eprintln!("ACCEPTED-UNBOUND {} {} {}", f.label(), d.to_json(), f.key(&e));
                }
                report.violation_sized(f.key(&e), f.what(d, &e), f.replay_json(d), f.hist_len());
            }
            let mut s = samples.lock().unwrap();
            let want = (e.violation() && s.len() < 6)
                || (e.candidate() && !e.accepted() && s.iter().filter(|x| x["kind"] == "rejected").count() < 4)
                || (matches!(e.status, Status::ConsistentNotProved)
                    && s.iter().filter(|x| x["kind"] == "consistent").count() < 2);
            if want && s.len() < 14 {
                let kind = if e.violation() {
                    "accepted-unbound"
                } else if e.candidate() {
                    "rejected"
                } else {
                    "consistent"
                };
                s.push(json!({"kind": kind, "case": f.label(), "deviation": d.to_json(), "result": e.to_json()}));
            }
        }
        for (i, f) in fxs.iter().enumerate() {
            if done_per_fx[i] == total_per_fx[i] {
                histories_done += 1;
            } else if done_per_fx[i] > 0 {
                histories_partial += 1;
            }
            let mut dsc = f.describe();
            dsc["deviations_enumerated"] = json!(total_per_fx[i]);
            dsc["deviations_evaluated"] = json!(done_per_fx[i]);
            if fixtures_json.len() < 400 {
                fixtures_json.push(json!({"case": f.label(), "ops": dsc["ops"], "slots": dsc["slots"],
                    "permutation_rows": dsc["permutation_rows"], "deviations_enumerated": total_per_fx[i],
                    "deviations_evaluated": done_per_fx[i]}));
            }
        }
        eprintln!(
            "level {level}: {} histories, {} deviations, elapsed {:.1}s",
            fxs.len(),
            tasks.len(),
            ctx.elapsed_s()
        );
        if timed_out.load(Ordering::Relaxed) {
            break 'levels;
        }
    }

    // histories whose honest circuit does not prove are outside the property ("whenever a
    // proof is accepted") and outside the stated space; they are listed in the evidence
    let exhaustive = !timed_out.load(Ordering::Relaxed);
    for (c, first) in &skipped_cfg {
        let first: String = first.chars().take(400).collect();
        println!(
            "  note: {c}: {} histories skipped, the HONEST circuit does not run/prove (outside C06; first: {first})",
            skipped_count.get(c).copied().unwrap_or(0)
        );
    }
    println!(
        "C06: {} configurations, {} automaton states (depth <= {depth}), {} histories fully enumerated, {} evaluations, {} unbound-challenge candidates proved, {} accepted (violations before known-finding matching), cross-check failures {}",
        selected.len(), total_states, histories_done, evaluations, candidates, accepted_unbound, crosscheck_bad
    );
    let cov = json!({
        "evaluations": evaluations,
        "distinct_nontrivial": candidates,
        "rule": "one evaluation = one single deviation (H honest / F2 slot with forward propagation / F4 row-local port deviation with propagation / F3 public slot in all rows without propagation / F1 Public-table cell / PI one input limb of a permutation row whose slot feeds several limbs of the row deviated in the permuted state and the recorded row / F5 slot-less input limb of a permutation row deviated, the row re-executed by the repository's executor and its outputs propagated / P permutation closure deviating on call k limb j with in-table chaining; mode direct: every limb incl. the rate limbs aliased to public outputs) applied to the honest traces of the circuit the real CircuitChallenger builds for one (history, exposure mode); deviations are pairwise distinct by construction (every slot, port, cell, (call, limb) once per delta unit). Non-trivial = the deviation really changes the committed statement into an INCONSISTENT one (a committed sampled challenge differs from the native challenge of the committed observed values) AND the real prover+verifier decided it: a sound transcript must reject exactly these. Deviations that leave the trace unchanged (noop) or yield a consistent statement are counted separately and (unless --opt prove=all) not proved, because their verdict cannot change the oracle's answer",
        "samples": *samples.lock().unwrap(),
        "exhaustive": exhaustive,
        "depth_bound": depth,
        "alphabet": ALPHABET.iter().chain(REUSE.iter()).map(|a| a.token()).collect::<Vec<_>>(),
        "alphabet_legend": "op observe(public base element); xp observe_ext(public extension element); s sample; sx sample_ext; b3 sample_bits(3); target re-use and clear (only inside histories of length <= reuse_depth_bound): clr clear (native: a fresh challenger); ro observe again the target of the most recent op; rx observe_ext again the target of the most recent xp; os observe the target returned by the most recent s; every history is followed by one more s",
        "reuse_depth_bound": rdepth,
        "histories_with_target_reuse": plan.iter().filter(|(_, h)| h.iter().any(|a| a.reuse())).count(),
        "configurations": per_cfg,
        "histories_skipped_honest_circuit_does_not_prove": skipped_count,
        "histories_skipped_first_error": skipped_cfg,
        "automaton_states": total_states,
        "automaton_transitions": total_transitions,
        "histories_planned": plan.len(),
        "histories_fully_enumerated": histories_done,
        "histories_partially_enumerated": histories_partial,
        "deviations_proved_and_verified": proved,
        "unbound_candidates_decided": candidates,
        "unbound_candidates_accepted": accepted_unbound,
        "unbound_candidates_with_a_changed_observed_value": cand_observed_changed,
        "unbound_candidates_with_a_changed_sampled_challenge": cand_sampled_changed,
        "distinct_inconsistent_statements": distinct_statements.len(),
        "changed_but_consistent_statements": changed_consistent,
        "out_of_domain_statements_observed_value_not_base_field": out_of_domain,
        "noop_deviations_equal_to_honest": noops,
        "inapplicable_deviations": inapplicable,
        "oracle_violation_but_vpe3_predicate_holds": crosscheck_bad,
        "by_class": by_class.iter().map(|(c, fams)| {
            let tot = fams.values().fold([0u64; 4], |a, x| [a[0] + x[0], a[1] + x[1], a[2] + x[2], a[3] + x[3]]);
            let row = |x: &[u64; 4]| json!({"evaluated": x[0], "trace_changed": x[1], "inconsistent_statement_decided": x[2], "accepted": x[3]});
            let mut o = row(&tot);
            o["per_family"] = Value::Object(fams.iter().map(|(k, x)| (k.clone(), row(x))).collect());
            (c.clone(), o)
        }).collect::<vpcore::serde_json::Map<String, Value>>(),
        "histogram_family_class_outcome": histo.to_json(),
        "histogram_family_site_outcome": site_histo.to_json(),
        "cases": fixtures_json,
        "delta_units": if ctx.quick() { json!([0]) } else { json!("histories of length <= 3: base unit and top basis element; longer: base unit") },
        "oracle": "native p3_challenger::DuplexChallenger replayed on the observed values committed in the Public table; committed sampled challenge = public output / 7 (mode x7) or the public output itself (mode direct)",
        "exposure_modes": {
            "x7": "public = 7 * sample through a mul row (all histories of the depth bound)",
            "direct": "connect(sample, public): the sampled slot is aliased to the public slot (histories of depth <= 2 quick / <= min(depth, 4) thorough; base delta unit; class P deviates every output limb 0..16); families are suffixed @direct",
            "modes_run": modes.iter().map(|m| m.tag()).collect::<Vec<_>>(),
            "variants": variants.iter().map(|(ci, m)| format!("{}@{}", selected[*ci].name(), m.tag())).collect::<Vec<_>>(),
        },
    });
    if crosscheck_bad > 0 {
        eprintln!("WARNING: {crosscheck_bad} oracle violations on which vpe3's predicate holds — investigate the harness");
    }
    finish(
        &ctx,
        cov,
        vec![
            "STARK/LogUp soundness: 'the verifier accepts' is read as 'AIR constraints and bus hold'; a violation is only reported when the real prover+verifier really accepted the deviated trace".into(),
            "p3-challenger 0.6.3 DuplexChallenger is the native transcript; the committed statement of a trace is its Public table (observed inputs; sampled outputs: K·sample with K = 7 in exposure mode x7, the sample itself in mode direct)".into(),
            "single deviations of size +1 (quick: base unit; thorough: also the top basis element); positions are enumerated, values are not; multi-deviation forgeries (e.g. rewriting all observed publics at once) are not needed to show unboundness and are not enumerated".into(),
            "the automaton key is C05's (buffer lengths, flags, const-ness masks, capped permutation count); it only selects which histories are turned into circuits".into(),
            "only challenger operations are in the circuit (no foreign permutation rows between two challenger permutations of the D=1 chain)".into(),
            "F1 on permutation / recompose cells is not enumerated: with the Public table untouched the committed statement stays true, so no verdict of this oracle can change".into(),
        ],
        &report,
    );
}
