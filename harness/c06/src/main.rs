fn main() {
    eprintln!("MACHINERY-ERROR: check c06 not built yet");
    std::process::exit(2);
}
