//! C07 — in-circuit FRI verification agrees with native FRI verification.
//!
//! Enumerated (explicit finite lists, see `shapes.rs`): FRI parameter sets {log_blowup 1,2} ×
//! {log_final_poly_len 0,1,2} × {max_log_arity 1,2,3} × {queries 1,2} × {commit PoW 0,1} ×
//! {query PoW 0,2} crossed with every admissible multiset of ≤ 3 trace log-heights from {2..5}
//! and widths {1,2,9}, driven
//!  (a) through batch-STARK proofs whose tables have those heights (vpe4 fixtures: the FRI
//!      verifier as it is really used — several commitment rounds, two opening points for traces,
//!      one for quotient chunks, preprocessed round), MMCS ON, the tallest table always carrying
//!      preprocessed columns (so no round is shorter than the global maximum: known finding F2);
//!  (b) through the PCS-level driver `pcs.rs` (commit / open with `TwoAdicFriPcs`, circuit =
//!      `RecursivePcs::get_challenges_circuit` + `verify_circuit`), four opening-point layouts,
//!      plus height-1 matrices the STARK path cannot produce.
//! Per shape: the honest opening; single-element faults (leaf ← leaf+1 mod p; `log_arity` ± 1) of
//! every leaf under `opening_proof`, every claimed evaluation, every commitment word — either
//! all leaves, or the first and last leaf of every leaf class per query; and (b only) a
//! malicious FRI prover: hash- and transcript-consistent proofs with one deviated codeword
//! position of one commit-phase layer / final-polynomial coefficient / failing PoW witness /
//! wrong claimed evaluation.
//! Oracle: native verdict (p3-batch-stark `verify_batch`, p3-fri `TwoAdicFriPcs::verify`) ==
//! circuit verdict (circuit built for the object's shape with the repository API, run with the
//! real runner). Either direction of disagreement is a violation.

mod pcs;
mod shapes;

use std::collections::{BTreeMap, BTreeSet};
use std::sync::Mutex;
use std::sync::atomic::{AtomicU64, Ordering};
use std::time::Instant;

use vpcore::rayon::prelude::*;
use vpcore::serde_json::{Value, json};
use vpcore::{Ctx, Histo, Report, finish, machinery_error};
use vpe4::{Fixture, Leaf, LeafKind, Seg, Verdict, leaves, parse_path, path_string, with_leaf};

use crate::pcs::{Dev, PcsCase, PcsShape};
use crate::shapes::*;

// ------------------------------------------------------------------------------------------
// the two kinds of subject

trait Subject: Sync {
    fn name(&self) -> String;
    fn driver(&self) -> &'static str;
    fn honest(&self) -> &Value;
    fn modulus(&self) -> u64;
    fn native(&self, t: &Value) -> Verdict;
    fn circuit(&self, t: &Value) -> Verdict;
    fn circuit_fresh(&self, t: &Value) -> Verdict;
    fn release(&self);
    /// size used to pick the smallest replay among the cases of one violation key
    fn size(&self) -> usize;
    fn shape_json(&self) -> Value;
}

struct StarkSubject {
    shape: StarkShape,
    fx: Fixture,
}

impl Subject for StarkSubject {
    fn name(&self) -> String {
        self.shape.name()
    }
    fn driver(&self) -> &'static str {
        "stark"
    }
    fn honest(&self) -> &Value {
        &self.fx.honest
    }
    fn modulus(&self) -> u64 {
        self.fx.modulus
    }
    fn native(&self, t: &Value) -> Verdict {
        self.fx.native_verify(t)
    }
    fn circuit(&self, t: &Value) -> Verdict {
        self.fx.circuit_verify(t)
    }
    fn circuit_fresh(&self, t: &Value) -> Verdict {
        self.fx.circuit_verify_fresh(t)
    }
    fn release(&self) {
        self.fx.release_thread_engine()
    }
    fn size(&self) -> usize {
        let p = &self.shape.params;
        self.shape.tables.iter().map(|(_, h)| 1usize << h).sum::<usize>() * 16
            + p.num_queries * 8
            + p.max_log_arity * 4
            + p.log_final_poly_len * 2
            + p.commit_pow_bits
            + p.query_pow_bits
    }
    fn shape_json(&self) -> Value {
        self.shape.to_json()
    }
}

impl Subject for PcsCase {
    fn name(&self) -> String {
        self.name.clone()
    }
    fn driver(&self) -> &'static str {
        "pcs"
    }
    fn honest(&self) -> &Value {
        &self.honest
    }
    fn modulus(&self) -> u64 {
        pcs::MODULUS
    }
    fn native(&self, t: &Value) -> Verdict {
        self.native_verify(t)
    }
    fn circuit(&self, t: &Value) -> Verdict {
        self.circuit_verify(t)
    }
    fn circuit_fresh(&self, t: &Value) -> Verdict {
        self.circuit_verify_fresh(t)
    }
    fn release(&self) {
        self.release_thread_engine()
    }
    fn size(&self) -> usize {
        let p = &self.shape.params;
        self.shape.rounds.iter().flatten().map(|m| (1usize << m.log_h) * m.width * if m.two_points { 2 } else { 1 }).sum::<usize>()
            * 16
            + p.num_queries * 8
            + p.max_log_arity * 4
            + p.log_final_poly_len * 2
            + p.commit_pow_bits
            + p.query_pow_bits
    }
    fn shape_json(&self) -> Value {
        self.shape.to_json()
    }
}

// ------------------------------------------------------------------------------------------
// judging

#[derive(Clone, Copy, PartialEq, Eq, Debug)]
enum Outcome {
    AgreeReject,
    BothAccept,
    NotAProof,
    /// native accepts, circuit rejects
    FalseReject,
    /// native rejects, circuit accepts
    FalseAccept,
}

/// Canonical violation key: driver + fault class + direction + the two verdict kinds. The shape is
/// NOT part of the key (the smallest violating shape is kept as the replay). The two classes that
/// exist only to pin down a known finding are keyed without the verdict kinds (one defect, one key).
fn key_of(driver: &str, class: &str, o: Outcome, n: &Verdict, c: &Verdict) -> String {
    if class == "honest:round_below_global_max_height" || class == "mal:arity_jumps_over_zero_rollin" {
        format!("{driver}|{class}|{}", direction(o))
    } else {
        format!("{driver}|{class}|{}|native={}|circuit={}", direction(o), n.tag(), c.tag())
    }
}

fn direction(o: Outcome) -> &'static str {
    match o {
        Outcome::FalseReject => "native_accept_circuit_reject",
        Outcome::FalseAccept => "native_reject_circuit_accept",
        _ => "",
    }
}

/// A disagreement seen with the cached circuit is re-judged with a circuit built from scratch for
/// exactly this tree, so the per-skeleton cache can never create a violation.
fn judge(s: &dyn Subject, tree: &Value, cache_mismatch: &AtomicU64) -> (Outcome, Verdict, Verdict) {
    let n = s.native(tree);
    if n.not_a_proof() {
        return (Outcome::NotAProof, n.clone(), n);
    }
    let mut c = s.circuit(tree);
    if c.not_a_proof() {
        return (Outcome::NotAProof, n, c);
    }
    if n.accepts() != c.accepts() {
        let fresh = s.circuit_fresh(tree);
        if fresh.accepts() != c.accepts() {
            cache_mismatch.fetch_add(1, Ordering::Relaxed);
        }
        c = fresh;
    }
    let o = match (n.accepts(), c.accepts()) {
        (true, true) => Outcome::BothAccept,
        (false, false) => Outcome::AgreeReject,
        (true, false) => Outcome::FalseReject,
        (false, true) => Outcome::FalseAccept,
    };
    (o, n, c)
}

// ------------------------------------------------------------------------------------------
// leaves under test

/// Is this leaf part of the FRI statement / opening proof? (STARK trees also hold public values,
/// `degree_bits`, preprocessed metadata … which belong to C01 / C15.)
fn in_scope(driver: &str, l: &Leaf) -> bool {
    if driver == "pcs" {
        return true;
    }
    let p = path_string(&l.path);
    p.starts_with("/proof/opening_proof/")
        || p.starts_with("/proof/opened_values/")
        || p.starts_with("/proof/commitments/")
        || p.starts_with("/common/preprocessed/commitment/")
}

/// Leaf class *per query*: array indices abstracted except the index of the query proof.
fn class_per_query(path: &[Seg]) -> String {
    let mut s = String::new();
    let mut prev_is_queries = false;
    for seg in path {
        s.push('/');
        match seg {
            Seg::Key(k) => {
                s.push_str(k);
                prev_is_queries = k == "query_proofs";
            }
            Seg::Idx(i) => {
                if prev_is_queries {
                    s.push_str(&i.to_string());
                } else {
                    s.push('*');
                }
                prev_is_queries = false;
            }
        }
    }
    s
}

#[derive(Clone, Copy, PartialEq, Eq, Debug)]
enum LeafMode {
    /// first and last leaf of every per-query class
    Representatives,
    All,
}

fn select(all: &[Leaf], driver: &str, mode: LeafMode) -> Vec<usize> {
    let scoped: Vec<usize> = (0..all.len()).filter(|&i| in_scope(driver, &all[i])).collect();
    if mode == LeafMode::All {
        return scoped;
    }
    let mut first_last: BTreeMap<String, (usize, usize)> = BTreeMap::new();
    for &i in &scoped {
        let k = class_per_query(&all[i].path);
        first_last.entry(k).and_modify(|e| e.1 = i).or_insert((i, i));
    }
    let mut v: BTreeSet<usize> = BTreeSet::new();
    for (_, (a, b)) in first_last {
        v.insert(a);
        v.insert(b);
    }
    v.into_iter().collect()
}

/// leaf ← leaf + 1 (mod p) for field leaves; `log_arity` ← ± 1
fn fault_values(l: &Leaf, modulus: u64) -> Vec<(&'static str, u64)> {
    match l.kind {
        LeafKind::Field => vec![("plus_one", if l.value >= modulus - 1 { 0 } else { l.value + 1 })],
        LeafKind::Structural => {
            let mut v = vec![("plus_one", l.value + 1)];
            if l.value > 0 {
                v.push(("minus_one", l.value - 1));
            }
            v
        }
    }
}

// ------------------------------------------------------------------------------------------
// bookkeeping

#[derive(Default, Clone)]
struct ClassRow {
    evals: u64,
    native_reject: u64,
    both_accept: u64,
    circuit_panic: u64,
    not_a_proof: u64,
}

#[derive(Default)]
struct Totals {
    evaluations: AtomicU64,
    nontrivial: AtomicU64,
    honest: AtomicU64,
    leaf_faults: AtomicU64,
    malicious: AtomicU64,
    malicious_native_reject: AtomicU64,
    forge_failed: AtomicU64,
    skipped: AtomicU64,
    shapes_done: AtomicU64,
    shapes_skipped: AtomicU64,
    cache_mismatch: AtomicU64,
    classes: Mutex<BTreeMap<String, ClassRow>>,
    schedules: Mutex<BTreeMap<String, u64>>,
    samples: Mutex<Vec<Value>>,
    both_accept_samples: Mutex<Vec<Value>>,
    panics: Mutex<BTreeMap<String, u64>>,
}

struct Env<'a> {
    ctx: &'a Ctx,
    report: &'a Report,
    verdicts: &'a Histo,
    /// native rejection reasons of the malicious-prover class (which check caught it)
    mal_reasons: &'a Histo,
    totals: &'a Totals,
}

fn record(env: &Env, s: &dyn Subject, class: &str, what: &str, case: Value, o: Outcome, n: &Verdict, c: &Verdict) {
    let t = env.totals;
    t.evaluations.fetch_add(1, Ordering::Relaxed);
    env.verdicts.add(&format!("{}|{}|{}", s.driver(), n.tag(), c.tag()));
    {
        let mut g = t.classes.lock().unwrap();
        let row = g.entry(format!("{}:{}", s.driver(), class)).or_default();
        row.evals += 1;
        match o {
            Outcome::NotAProof => row.not_a_proof += 1,
            Outcome::BothAccept => row.both_accept += 1,
            Outcome::AgreeReject | Outcome::FalseAccept => row.native_reject += 1,
            Outcome::FalseReject => {}
        }
        if c.is_panic() {
            row.circuit_panic += 1;
        }
    }
    if n.rejects() {
        t.nontrivial.fetch_add(1, Ordering::Relaxed);
    }
    let case_json = || {
        let mut j = case.clone();
        j["driver"] = json!(s.driver());
        j["shape"] = s.shape_json();
        j["shape_name"] = json!(s.name());
        j["class"] = json!(class);
        j["native"] = n.to_json();
        j["circuit"] = c.to_json();
        j
    };
    match o {
        Outcome::FalseAccept | Outcome::FalseReject => {
            let key = key_of(s.driver(), class, o, n, c);
            env.report.violation_sized(
                key,
                format!("{} {}: native {} but circuit {}", s.name(), what, n.tag(), c.tag()),
                case_json(),
                s.size(),
            );
        }
        Outcome::BothAccept => {
            let mut b = t.both_accept_samples.lock().unwrap();
            if b.len() < 40 && class != "honest" {
                b.push(case_json());
            }
        }
        Outcome::AgreeReject => {
            if c.is_panic() || n.is_panic() {
                // noted, not judged here (C15 owns the no-panic clause)
                let who = if c.is_panic() { format!("circuit {}", c.tag()) } else { format!("native {}", n.tag()) };
                *t.panics.lock().unwrap().entry(format!("{} @ {}:{}", who, s.driver(), class)).or_insert(0) += 1;
            }
            let mut sm = t.samples.lock().unwrap();
            if sm.len() < 400 {
                sm.push(case_json());
            }
        }
        Outcome::NotAProof => {}
    }
}

/// Honest object, then the selected leaf faults. Returns false if the honest baseline failed
/// (reported) so that nothing else is judged for this shape.
fn sweep_leaves(env: &Env, s: &dyn Subject, mode: LeafMode) -> bool {
    let t = env.totals;
    let (o, n, c) = judge(s, s.honest(), &t.cache_mismatch);
    t.honest.fetch_add(1, Ordering::Relaxed);
    match o {
        Outcome::BothAccept => record(env, s, "honest", "honest opening", json!({"honest": true}), o, &n, &c),
        Outcome::FalseReject => {
            record(env, s, "honest", "honest opening", json!({"honest": true}), o, &n, &c);
            return false;
        }
        _ => machinery_error(&format!(
            "{}: honest object not accepted natively (native {}, circuit {})",
            s.name(),
            n.tag(),
            c.tag()
        )),
    }
    let all = leaves(s.honest());
    for i in select(&all, s.driver(), mode) {
        let leaf = &all[i];
        for (fault, nv) in fault_values(leaf, s.modulus()) {
            if env.ctx.out_of_time() {
                t.skipped.fetch_add(1, Ordering::Relaxed);
                continue;
            }
            let tree = with_leaf(s.honest(), &leaf.path, nv);
            let (o, n, c) = judge(s, &tree, &t.cache_mismatch);
            t.leaf_faults.fetch_add(1, Ordering::Relaxed);
            let p = path_string(&leaf.path);
            record(
                env,
                s,
                &leaf.class,
                &format!("leaf {p} {}→{nv}", leaf.value),
                json!({"path": p, "fault": fault, "old_value": leaf.value, "new_value": nv}),
                o,
                &n,
                &c,
            );
        }
    }
    true
}

fn sweep_malicious(env: &Env, s: &PcsCase, all_positions: bool) {
    let t = env.totals;
    for dev in s.deviations(all_positions) {
        if env.ctx.out_of_time() {
            t.skipped.fetch_add(1, Ordering::Relaxed);
            continue;
        }
        let tree = match s.forge(&dev) {
            Ok(tr) => tr,
            Err(e) => {
                t.forge_failed.fetch_add(1, Ordering::Relaxed);
                env.verdicts.add(&format!("forge_failed:{}", e.chars().take(60).collect::<String>()));
                continue;
            }
        };
        let (o, n, c) = judge(s, &tree, &t.cache_mismatch);
        t.malicious.fetch_add(1, Ordering::Relaxed);
        if n.rejects() {
            t.malicious_native_reject.fetch_add(1, Ordering::Relaxed);
        }
        env.mal_reasons.add(&format!("{} -> native {}", dev.class(), n.tag()));
        record(env, s, &dev.class(), &format!("malicious prover {}", dev.show()), json!({"dev": dev.to_json()}), o, &n, &c);
    }
}

fn note_schedule(env: &Env, driver: &str, honest: &Value, prefix: &str) {
    let la: Vec<u64> = honest
        .pointer(&format!("{prefix}/query_proofs/0/commit_phase_openings"))
        .and_then(|v| v.as_array())
        .map(|a| a.iter().filter_map(|o| o["log_arity"].as_u64()).collect())
        .unwrap_or_default();
    *env.totals.schedules.lock().unwrap().entry(format!("{driver}:{la:?}")).or_insert(0) += 1;
}

fn run_pcs_shape(env: &Env, shape: &PcsShape, mode: LeafMode, all_positions: bool) {
    if env.ctx.out_of_time() {
        env.totals.shapes_skipped.fetch_add(1, Ordering::Relaxed);
        return;
    }
    let case = PcsCase::new(shape, env.ctx.seed).unwrap_or_else(|e| machinery_error(&format!("cannot build PCS case: {e}")));
    note_schedule(env, "pcs", &case.honest, "/proof");
    if sweep_leaves(env, &case, mode) {
        sweep_malicious(env, &case, all_positions);
    }
    case.release();
    env.totals.shapes_done.fetch_add(1, Ordering::Relaxed);
}

fn run_stark_shape(env: &Env, shape: &StarkShape, mode: LeafMode) {
    if env.ctx.out_of_time() {
        env.totals.shapes_skipped.fetch_add(1, Ordering::Relaxed);
        return;
    }
    let fx = shape.fixture().unwrap_or_else(|e| machinery_error(&format!("cannot build STARK fixture {}: {e}", shape.name())));
    let s = StarkSubject { shape: shape.clone(), fx };
    note_schedule(env, "stark", s.honest(), "/proof/opening_proof");
    sweep_leaves(env, &s, mode);
    s.release();
    env.totals.shapes_done.fetch_add(1, Ordering::Relaxed);
}

// ------------------------------------------------------------------------------------------
// replay

fn replay(ctx: &Ctx, path: &std::path::Path) -> ! {
    let r = vpcore::load_replay(path);
    let report = Report::new();
    let cm = AtomicU64::new(0);
    let driver = r["driver"].as_str().unwrap_or("");
    let (pcs_case, stark_subject);
    let s: &dyn Subject = match driver {
        "pcs" => {
            let shape = PcsShape::from_json(&r["shape"]).unwrap_or_else(|| machinery_error("replay: bad pcs shape"));
            pcs_case = PcsCase::new(&shape, ctx.seed).unwrap_or_else(|e| machinery_error(&e));
            &pcs_case
        }
        "stark" => {
            let shape = StarkShape::from_json(&r["shape"]).unwrap_or_else(|| machinery_error("replay: bad stark shape"));
            let fx = shape.fixture().unwrap_or_else(|e| machinery_error(&e));
            stark_subject = StarkSubject { shape, fx };
            &stark_subject
        }
        _ => machinery_error("replay: no driver"),
    };
    let tree = if r["honest"].as_bool().unwrap_or(false) {
        s.honest().clone()
    } else if !r["dev"].is_null() {
        let dev = Dev::from_json(&r["dev"]).unwrap_or_else(|| machinery_error("replay: bad deviation"));
        let shape = PcsShape::from_json(&r["shape"]).unwrap();
        PcsCase::new(&shape, ctx.seed)
            .and_then(|c| c.forge(&dev))
            .unwrap_or_else(|e| machinery_error(&format!("replay: forging failed: {e}")))
    } else {
        let p = parse_path(r["path"].as_str().unwrap_or(""));
        let nv = r["new_value"].as_u64().unwrap_or_else(|| machinery_error("replay: no new_value"));
        with_leaf(s.honest(), &p, nv)
    };
    let (o, n, c) = judge(s, &tree, &cm);
    let class = r["class"].as_str().unwrap_or("honest");
    println!("replaying {} {class} -> native {} | circuit {} => {:?}", s.name(), n.tag(), c.tag(), o);
    if matches!(o, Outcome::FalseAccept | Outcome::FalseReject) {
        report.violation(key_of(s.driver(), class, o, &n, &c), format!("native {} but circuit {}", n.tag(), c.tag()), r.clone());
    }
    let cov = json!({"evaluations": 1, "distinct_nontrivial": 2, "rule": "replay of one stored case (native + circuit verdict)",
                     "samples": [{"shape": s.name(), "class": class, "native": n.to_json(), "circuit": c.to_json()}], "replay": true});
    finish(ctx, cov, vec![], &report)
}

// ------------------------------------------------------------------------------------------

fn main() {
    let ctx = Ctx::from_args("C07", "fault_enumeration");
    vpcore::install_quiet_panic_hook();
    if let Some(p) = &ctx.replay {
        replay(&ctx, &p.clone());
    }
    let report = Report::new();
    let verdicts = Histo::new();
    let mal_reasons = Histo::new();
    let totals = Totals::default();
    let env = Env { ctx: &ctx, report: &report, verdicts: &verdicts, mal_reasons: &mal_reasons, totals: &totals };
    let quick = ctx.quick();
    let only = ctx.opt("only").map(|s| s.to_string());
    let want = |part: &str| only.as_deref().map(|o| o.split(',').any(|x| x == part)).unwrap_or(true);

    let params = all_params();
    let mixes = all_mixes();
    let core = core_pairs();

    // ---- shape lists
    // core: all leaves, all malicious deviations (quick: every fourth core pair, one layout each)
    let mut pcs_core: Vec<PcsShape> = vec![];
    let mut stark_core: Vec<StarkShape> = vec![];
    for (k, (p, mix)) in core.iter().enumerate() {
        if quick && k % 4 != 0 {
            continue;
        }
        if quick {
            pcs_core.push(pcs_shape(p, mix, k, k / 4));
        } else {
            for layout in 0..N_LAYOUTS {
                pcs_core.push(pcs_shape(p, mix, k, layout));
            }
        }
        stark_core.push(stark_shape("bb", p, mix, k));
    }
    // other field / extension / hash families (the FRI circuit packs caps and siblings differently
    // for D = 4, D = 5 over a base-field permutation, D = 2 width 8): a few core pairs each
    let mut stark_families: Vec<StarkShape> = vec![];
    for (k, (p, mix)) in core.iter().enumerate() {
        let fam = ["kb", "kbq", "gl"][k % 3];
        if quick && k % 8 != 1 {
            continue;
        }
        stark_families.push(stark_shape(fam, p, mix, k));
    }

    // broad sweep over every parameter set × every admissible height mix (4176 pairs).
    //   PCS level — quick: one layout per pair (rotating), class representatives + reduced deviation set;
    //               thorough: all four layouts; the rotating one with ALL leaves and ALL deviations,
    //               the other three with representatives + reduced deviations.
    //   STARK     — quick: every parameter set × `STARK_PER` mixes (window rotating through the admissible
    //               mixes, so every mix occurs), class representatives; thorough: every pair, ALL leaves
    //               for a rotating window of `STARK_ALL_PER` mixes per parameter set, representatives else.
    const STARK_PER: usize = 17;
    let mut pcs_broad: Vec<(PcsShape, LeafMode, bool)> = vec![];
    const STARK_ALL_PER: usize = 8;
    let mut stark_broad: Vec<(StarkShape, LeafMode)> = vec![];
    let mut planned_pairs = 0u64;
    // mix-major order, three-matrix mixes first: any prefix of the list (what a slow machine still
    // gets through) contains every parameter set, and the mixes lost at the tail are the
    // single-matrix ones (no roll-ins)
    for (mix_no, mix) in mixes.iter().enumerate().rev() {
        for (pi, p) in params.iter().enumerate() {
            if !admissible(p, mix) {
                continue;
            }
            planned_pairs += 1;
            // position of the mix among the admissible mixes of this parameter set
            let n_adm = mixes.iter().filter(|m| admissible(p, m)).count();
            let mi = mixes[..mix_no].iter().filter(|m| admissible(p, m)).count();
            let s = pi * 7 + mi;
            if quick {
                pcs_broad.push((pcs_shape(p, mix, s, s), LeafMode::Representatives, false));
                // window of STARK_PER mixes per parameter set, rotating so that every mix occurs
                let off = (mi + n_adm - (pi * STARK_PER) % n_adm) % n_adm;
                if off < STARK_PER {
                    stark_broad.push((stark_shape("bb", p, mix, s), LeafMode::Representatives));
                }
            } else {
                for layout in 0..N_LAYOUTS {
                    if layout == s % N_LAYOUTS {
                        pcs_broad.push((pcs_shape(p, mix, s, layout), LeafMode::All, true));
                    } else {
                        pcs_broad.push((pcs_shape(p, mix, s, layout), LeafMode::Representatives, false));
                    }
                }
                // all leaves for a rotating window of STARK_ALL_PER mixes per parameter set
                let off = (mi + n_adm - (pi * STARK_ALL_PER) % n_adm) % n_adm;
                let mode = if off < STARK_ALL_PER { LeafMode::All } else { LeafMode::Representatives };
                stark_broad.push((stark_shape("bb", p, mix, s), mode));
            }
        }
    }
    let pcs_extra = pcs_extra_shapes();

    let planned = json!({
        "parameter_sets": params.len(), "height_mixes": mixes.len(), "admissible_(params,mix)_pairs": planned_pairs,
        "pcs_core_shapes(all leaves, all deviations)": pcs_core.len(),
        "stark_core_shapes(all leaves)": stark_core.len(),
        "stark_other_family_shapes(kb, kbq, gl; quick: representatives, thorough: all leaves)": stark_families.len(),
        "pcs_broad_shapes": pcs_broad.len(),
        "pcs_broad_shapes_with_all_leaves_and_all_deviations": pcs_broad.iter().filter(|x| x.2).count(),
        "stark_broad_shapes": stark_broad.len(),
        "stark_broad_shapes_with_all_leaves": stark_broad.iter().filter(|x| x.1 == LeafMode::All).count(),
        "pcs_extra_shapes(final polynomials of 8..32 coefficients; wide folds max_log_arity 4..7; height-1 matrices; constant matrices at an intermediate height)": pcs_extra.len(),
    });
    eprintln!("[C07] planned {planned}");

    // ---- sweeps. One ordered work list, handed out in order (`par_bridge`): core first, then the
    // extra shapes, then the two broad sweeps interleaved in proportion — so a slow machine loses
    // breadth at the tail of BOTH drivers, never the core, and every prefix spans all parameter sets.
    enum Work<'a> {
        Pcs(&'a PcsShape, LeafMode, bool),
        Stark(&'a StarkShape, LeafMode),
    }
    let mut work: Vec<Work> = vec![];
    if want("pcs_core") {
        work.extend(pcs_core.iter().map(|sh| Work::Pcs(sh, LeafMode::All, true)));
    }
    if want("stark_core") {
        work.extend(stark_core.iter().map(|sh| Work::Stark(sh, LeafMode::All)));
    }
    if want("pcs_extra") {
        work.extend(pcs_extra.iter().map(|sh| Work::Pcs(sh, LeafMode::Representatives, !quick)));
    }
    if want("stark_families") {
        work.extend(stark_families.iter().map(|sh| Work::Stark(sh, if quick { LeafMode::Representatives } else { LeafMode::All })));
    }
    {
        let np = if want("pcs_broad") { pcs_broad.len() } else { 0 };
        let ns = if want("stark_broad") { stark_broad.len() } else { 0 };
        let (mut ip, mut is) = (0usize, 0usize);
        while ip < np || is < ns {
            // advance the list that is proportionally behind
            if is >= ns || (ip < np && ip * ns <= is * np) {
                let (sh, mode, all_pos) = &pcs_broad[ip];
                work.push(Work::Pcs(sh, *mode, *all_pos));
                ip += 1;
            } else {
                work.push(Work::Stark(&stark_broad[is].0, stark_broad[is].1));
                is += 1;
            }
        }
    }
    let (cpu_pcs, cpu_stark) = (AtomicU64::new(0), AtomicU64::new(0));
    work.iter().par_bridge().for_each(|w| {
        let t = Instant::now();
        match w {
            Work::Pcs(sh, mode, all_pos) => {
                run_pcs_shape(&env, sh, *mode, *all_pos);
                cpu_pcs.fetch_add(t.elapsed().as_micros() as u64, Ordering::Relaxed);
            }
            Work::Stark(sh, mode) => {
                run_stark_shape(&env, sh, *mode);
                cpu_stark.fetch_add(t.elapsed().as_micros() as u64, Ordering::Relaxed);
            }
        }
    });
    let sweep_wall = ctx.elapsed_s();

    // ---- known-finding probe (one canonical shape, honest opening only): F2 of C01 seen at the
    // PCS level — a commitment round whose tallest matrix is shorter than the global maximum.
    let mut f2_probe = json!("not run");
    if want("probes") && !ctx.out_of_time() {
        let shape = PcsShape {
            params: pcs::Params { log_blowup: 1, log_final_poly_len: 0, max_log_arity: 1, num_queries: 1, commit_pow_bits: 0, query_pow_bits: 0 },
            rounds: vec![
                vec![pcs::MatSpec::new(3, 2, false)],
                vec![pcs::MatSpec::new(2, 2, false)],
            ],
        };
        let case = PcsCase::new(&shape, ctx.seed).unwrap_or_else(|e| machinery_error(&format!("cannot build F2 probe: {e}")));
        let (o, n, c) = judge(&case, &case.honest, &totals.cache_mismatch);
        totals.honest.fetch_add(1, Ordering::Relaxed);
        f2_probe = json!({"shape": case.name, "native": n.to_json(), "circuit": c.to_json(), "outcome": format!("{o:?}")});
        match o {
            Outcome::BothAccept | Outcome::FalseReject => record(
                &env,
                &case,
                "honest:round_below_global_max_height",
                "honest opening, second commitment round shorter than the global maximum height",
                json!({"honest": true}),
                o,
                &n,
                &c,
            ),
            _ => machinery_error(&format!("F2 probe: honest object not accepted natively ({})", n.tag())),
        }
        case.release();
    }

    // ---- out-of-scope probes (recorded, never judged): parameters the circuit API does not take.
    // `FriVerifierParams` has neither `max_log_arity` nor `num_queries`; C07 quantifies over honest
    // proofs of the SAME parameter set plus single-element faults, so a proof made for another
    // parameter set is C15's subject (structural / parameter alterations).
    let mut foreign = vec![];
    if want("probes") && !ctx.out_of_time() {
        let base = pcs::Params { log_blowup: 1, log_final_poly_len: 0, max_log_arity: 1, num_queries: 2, commit_pow_bits: 0, query_pow_bits: 0 };
        let rounds = vec![vec![pcs::MatSpec::new(5, 2, false)]];
        let verifier_case = PcsCase::new(&PcsShape { params: base.clone(), rounds: rounds.clone() }, ctx.seed)
            .unwrap_or_else(|e| machinery_error(&e));
        for (what, pp) in [
            ("proof made with max_log_arity 3, verifier parameters say 1", pcs::Params { max_log_arity: 3, ..base.clone() }),
            ("proof made with num_queries 1, verifier parameters say 2", pcs::Params { num_queries: 1, ..base.clone() }),
        ] {
            let prover_case = PcsCase::new(&PcsShape { params: pp, rounds: rounds.clone() }, ctx.seed).unwrap_or_else(|e| machinery_error(&e));
            let n = verifier_case.native_verify(&prover_case.honest);
            let c = verifier_case.circuit_verify_fresh(&prover_case.honest);
            foreign.push(json!({"probe": what, "native": n.to_json(), "circuit": c.to_json()}));
        }
        verifier_case.release();
    }

    // ---- evidence
    let ld = |a: &AtomicU64| a.load(Ordering::Relaxed);
    let skipped = ld(&totals.skipped) + ld(&totals.shapes_skipped);
    let classes = totals.classes.lock().unwrap().clone();
    let class_json: BTreeMap<String, Value> = classes
        .iter()
        .map(|(k, r)| (k.clone(), json!([r.evals, r.native_reject, r.both_accept, r.circuit_panic, r.not_a_proof])))
        .collect();
    let classes_with_reject = classes.values().filter(|r| r.native_reject > 0).count();
    let both_accept_total: u64 = classes.iter().filter(|(k, _)| !k.ends_with(":honest")).map(|(_, r)| r.both_accept).sum();
    // samples: one per (driver, class) first, then fill
    let mut samples: Vec<Value> = vec![];
    {
        let all = totals.samples.lock().unwrap();
        let mut seen = BTreeSet::new();
        for s in all.iter() {
            let k = format!("{}:{}", s["driver"], s["class"]);
            if seen.insert(k) && samples.len() < 12 {
                let mut s = s.clone();
                if let Some(m) = s.as_object_mut() {
                    m.remove("shape");
                }
                samples.push(s);
            }
        }
    }
    if samples.is_empty() && only.is_none() {
        machinery_error("no agreed rejection recorded: nothing non-trivial was evaluated");
    }
    let both_samples: Vec<Value> = totals
        .both_accept_samples
        .lock()
        .unwrap()
        .iter()
        .take(12)
        .map(|s| {
            let mut s = s.clone();
            if let Some(m) = s.as_object_mut() {
                m.remove("shape");
            }
            s
        })
        .collect();
    let cov = json!({
        "evaluations": ld(&totals.evaluations),
        "distinct_nontrivial": ld(&totals.nontrivial),
        "rule": "one evaluation = one object (honest opening, one single-leaf fault of it, or one proof of the malicious FRI prover) \
                 judged by BOTH the native verifier and the verification circuit; distinct = distinct (shape, leaf path, fault) / \
                 (shape, deviation); non-trivial = the native verifier REJECTS the object, so the circuit's rejection is a real check \
                 (objects both sides accept — e.g. a deviated codeword position no query reaches, a PoW witness fault with 0 PoW bits — \
                 are counted under both_accept)",
        "exhaustive": skipped == 0 && only.is_none(),
        "space": "see planned_shapes; per shape: honest + leaf faults (core: every in-scope leaf; other shapes: first and last leaf of every \
                  leaf class per query; field leaves +1 mod p, log_arity ±1) + PCS-level malicious prover deviations (core: every codeword \
                  position of every commit-phase layer incl. the last folded vector, every final-poly coefficient, every PoW witness, every \
                  claimed evaluation; other shapes: 4 positions per layer, first/last column per opening)",
        "planned_shapes": planned,
        "shapes_done": ld(&totals.shapes_done),
        "shapes_skipped_out_of_time": ld(&totals.shapes_skipped),
        "cases_skipped_out_of_time": ld(&totals.skipped),
        "honest_objects": ld(&totals.honest),
        "leaf_faults": ld(&totals.leaf_faults),
        "malicious_prover_proofs": ld(&totals.malicious),
        "malicious_prover_proofs_rejected_natively": ld(&totals.malicious_native_reject),
        "malicious_prover_forge_failed": ld(&totals.forge_failed),
        "both_accept_non_honest": both_accept_total,
        "leaf_classes": classes.len(),
        "leaf_classes_with_native_reject": classes_with_reject,
        "arity_schedules_seen[driver:log_arities -> shapes]": *totals.schedules.lock().unwrap(),
        "per_class[evals,native_reject,both_accept,circuit_panic,not_a_proof]": class_json,
        "verdict_histogram[driver|native|circuit]": verdicts.to_json(),
        "malicious_prover_native_outcomes": mal_reasons.to_json(),
        "panics_while_other_side_rejects": *totals.panics.lock().unwrap(),
        "cached_vs_fresh_circuit_mismatch": ld(&totals.cache_mismatch),
        "sweep_wall_s": sweep_wall,
        "thread_seconds[pcs,stark]": [cpu_pcs.load(Ordering::Relaxed) as f64 / 1e6, cpu_stark.load(Ordering::Relaxed) as f64 / 1e6],
        "known_finding_probe_F2": f2_probe,
        "out_of_scope_probes(parameters the circuit API does not take; recorded, not judged)": foreign,
        "both_accept_samples": both_samples,
        "samples": samples,
    });
    let assumptions = vec![
        "native Plonky3 0.6.3 verifiers are the specification: p3-batch-stark verify_batch for the STARK path, <TwoAdicFriPcs as Pcs>::verify (p3_fri::verifier::verify_fri) for the PCS-level path".to_string(),
        "single faults only, fault value +1 mod p (log_arity ±1); malicious prover deviations are +1 of one element".to_string(),
        "circuit verdict = runner outcome on honestly packed inputs (pack_values / Recursive::get_values + set_fri_mmcs_private_data of the object); satisfiability by other private witnesses is C04/C06 territory".to_string(),
        "PCS-level circuit = the PCS part of verify_batch_circuit re-wired by the harness (observe commitments, sample zeta, observe claimed evaluations, get_challenges_circuit, verify_circuit); mis-wiring would show as a rejected honest opening".to_string(),
        "MMCS verification is ON everywhere; shapes with a commitment round shorter than the global maximum height (known finding F2 of C01) are not enumerated: the tallest STARK table always carries preprocessed columns, every PCS-level round contains the tallest matrix".to_string(),
        "the re-implemented (malicious-capable) prover is validated per shape: without a deviation it reproduces p3-fri's proof bit for bit; with one, only the native verifier's verdict counts".to_string(),
        "verification circuits are cached per tree skeleton (lengths + log_arity values); every disagreement is re-judged with a freshly built circuit".to_string(),
        "BabyBear D4 Poseidon2-W16 for the parameter sweep; KoalaBear D4, KoalaBear quintic (D1 permutation) and Goldilocks D2 W8 on core shapes only; cap height 0".to_string(),
    ];
    finish(&ctx, cov, assumptions, &report)
}
