fn main() {
    eprintln!("MACHINERY-ERROR: check c07 not built yet");
    std::process::exit(2);
}
