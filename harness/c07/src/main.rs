mod pcs;
use vpe4::airs::BAir;
use vpe4::{FriSpec, leaves, path_string};

fn main() {
    vpcore::install_quiet_panic_hook();
    let fs = FriSpec { tag: "b1f1a2q2c1w2", log_blowup: 1, log_final_poly_len: 1, max_log_arity: 2, num_queries: 2, commit_pow_bits: 1, query_pow_bits: 2, cap_height: 0 };
    let airs = vec![BAir::Mul { degree: 2, rows: 32, reps: 9 }, BAir::Fib, BAir::AddNoNext];
    let t0 = std::time::Instant::now();
    let fx = vpe4::families::bb::batch_fixture(airs, "m9_5.fib_3.addnn_2", vec![32, 8, 4], fs).unwrap();
    println!("{} made in {:?}", fx.name, t0.elapsed());
    let t0 = std::time::Instant::now();
    println!("native {:?} {:?}", fx.native_verify(&fx.honest), t0.elapsed());
    let t0 = std::time::Instant::now();
    println!("circuit {:?} {:?}", fx.circuit_verify(&fx.honest), t0.elapsed());
    let t0 = std::time::Instant::now();
    println!("circuit {:?} {:?}", fx.circuit_verify(&fx.honest), t0.elapsed());
    let all = leaves(&fx.honest);
    let mut classes = std::collections::BTreeMap::new();
    for l in &all { *classes.entry(l.class.clone()).or_insert(0u64) += 1; }
    println!("{} leaves", all.len());
    for (k, v) in classes { println!("{v:6} {k}"); }
    println!("{}", path_string(&all[0].path));
}
