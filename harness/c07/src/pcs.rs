//! PCS-level driver: a committed set of matrices, opened with `TwoAdicFriPcs` (BabyBear, D = 4,
//! Poseidon2 width 16) and verified
//!   * natively by `<TwoAdicFriPcs as Pcs>::verify` (observes the claimed evaluations, then
//!     `p3_fri::verifier::verify_fri`) — the oracle — and
//!   * in circuit by the repository's `RecursivePcs::get_challenges_circuit` +
//!     `RecursivePcs::verify_circuit` (PoW checks, query-index sampling, `verify_fri_circuit` with
//!     MMCS on), wired exactly like `verifier/batch_stark.rs` wires them: the commitments are
//!     observed, `zeta` is sampled in circuit, the opened values are observed in native order.
//!
//! The object under test is the JSON tree `{commitments, opened_values, proof}`; the opening
//! points are not part of it (both verifiers derive `zeta` from the transcript, `zeta·g` from the
//! matrix's trace domain), exactly as in a STARK.
//!
//! `mal_open` is a re-implementation of `TwoAdicFriPcs::open` + `p3_fri::prover::prove_fri`
//! (whose commit-phase loop is private) over the public MMCS / challenger / folding APIs, with
//! deviation hooks. With `Dev::None` it must reproduce the real prover's proof bit for bit (checked
//! for every shape); with a deviation the proof stays hash- and transcript-consistent, so only
//! the algebraic checks (reduced openings, fold chain with roll-ins, final polynomial, PoW) can
//! reject it. The prover may be arbitrary — the native verifier stays the oracle.

use std::cell::RefCell;
use std::collections::{BTreeMap, HashMap};
use std::marker::PhantomData;

use p3_challenger::{CanObserve, CanSampleBits, FieldChallenger, GrindingChallenger};
use p3_circuit::{Circuit, NonPrimitiveOpId};
use p3_commit::{BatchOpening, Mmcs, Pcs};
use p3_dft::{Radix2DFTSmallBatch, TwoAdicSubgroupDft};
use p3_field::coset::TwoAdicMultiplicativeCoset;
use p3_field::{Field, PrimeCharacteristicRing, TwoAdicField};
use p3_fri::{
    CommitPhaseProofStep, FriFoldingStrategy, FriParameters, FriProof, QueryProof, TwoAdicFriFolding,
    compute_log_arity_for_round,
};
use p3_matrix::Matrix;
use p3_matrix::dense::RowMajorMatrix;
use p3_recursion::pcs::fri::{
    FriProofTargets, FriVerifierParams, InputProofTargets, MerkleCapTargets, RecExtensionValMmcs, RecValMmcs, Witness,
};
use p3_recursion::pcs::set_fri_mmcs_private_data;
use p3_recursion::types::OpenedValuesTargetsWithLookups;
use p3_recursion::{
    CircuitChallenger, ObservableCommitment, OpenedValuesTargets, Poseidon2Config, Recursive, RecursiveChallenger,
    RecursivePcs, Target,
};
use p3_test_utils::baby_bear_params::*;
use p3_util::{log2_strict_usize, reverse_bits_len, reverse_slice_index_bits};
use serde_json::{Value, json};
use vpcore::quiet_catch;
use vpe4::{Verdict, skeleton};
use vpe4::fixture::err_kind;

pub const MODULUS: u64 = 2013265921;

pub type RecVal = RecValMmcs<F, DIGEST_ELEMS, MyHash, MyCompress>;
pub type RecExt = RecExtensionValMmcs<F, Challenge, DIGEST_ELEMS, RecVal>;
pub type InProof = InputProofTargets<F, Challenge, RecVal>;
pub type FriTargets = FriProofTargets<F, Challenge, RecExt, InProof, Witness<F>>;
pub type Comm = MerkleCapTargets<F, DIGEST_ELEMS>;
pub type FriProofT = <MyPcs as Pcs<Challenge, Challenger>>::Proof;
pub type Com = <MyPcs as Pcs<Challenge, Challenger>>::Commitment;
pub type PData = <MyPcs as Pcs<Challenge, Challenger>>::ProverData;
pub type Domain = TwoAdicMultiplicativeCoset<F>;
/// `[round][matrix][point][column]`
pub type Opened = Vec<Vec<Vec<Vec<Challenge>>>>;

#[derive(Clone, Debug, PartialEq, Eq)]
pub struct Params {
    pub log_blowup: usize,
    pub log_final_poly_len: usize,
    pub max_log_arity: usize,
    pub num_queries: usize,
    pub commit_pow_bits: usize,
    pub query_pow_bits: usize,
}

impl Params {
    pub fn tag(&self) -> String {
        format!(
            "b{}f{}a{}q{}c{}w{}",
            self.log_blowup, self.log_final_poly_len, self.max_log_arity, self.num_queries, self.commit_pow_bits,
            self.query_pow_bits
        )
    }
    pub fn to_json(&self) -> Value {
        json!({"log_blowup": self.log_blowup, "log_final_poly_len": self.log_final_poly_len,
               "max_log_arity": self.max_log_arity, "num_queries": self.num_queries,
               "commit_pow_bits": self.commit_pow_bits, "query_pow_bits": self.query_pow_bits})
    }
    pub fn from_json(v: &Value) -> Option<Params> {
        let g = |k: &str| v.get(k).and_then(|x| x.as_u64()).map(|x| x as usize);
        Some(Params {
            log_blowup: g("log_blowup")?,
            log_final_poly_len: g("log_final_poly_len")?,
            max_log_arity: g("max_log_arity")?,
            num_queries: g("num_queries")?,
            commit_pow_bits: g("commit_pow_bits")?,
            query_pow_bits: g("query_pow_bits")?,
        })
    }
}

impl MatSpec {
    pub fn new(log_h: usize, width: usize, two_points: bool) -> Self {
        MatSpec { log_h, width, two_points, constant: false, next_only: false }
    }
    /// opened at the single point `zeta·g` (and not at `zeta`)
    pub fn next_only(log_h: usize, width: usize) -> Self {
        MatSpec { log_h, width, two_points: false, constant: false, next_only: true }
    }
}

/// One committed matrix: trace domain of size `2^log_h` (natural domain, as in a STARK), `width`
/// columns, opened at `zeta` and — if `two_points` — also at `zeta·g` (g = domain generator).
#[derive(Clone, Debug, PartialEq, Eq)]
pub struct MatSpec {
    pub log_h: usize,
    pub width: usize,
    pub two_points: bool,
    /// every column is a constant polynomial (its quotient `(p(z) − p(X))/(z − X)` is identically
    /// zero) — only used by the foreign-schedule probes
    pub constant: bool,
    /// opened at exactly one point, `zeta·g` instead of `zeta` (two single-point matrices of one
    /// height with DIFFERENT points must not share the one-point fast path of `open_input`)
    pub next_only: bool,
}

/// Commitment rounds (one MMCS commitment each) of matrices.
#[derive(Clone, Debug, PartialEq, Eq)]
pub struct PcsShape {
    pub params: Params,
    pub rounds: Vec<Vec<MatSpec>>,
}

impl PcsShape {
    pub fn name(&self) -> String {
        let r: Vec<String> = self
            .rounds
            .iter()
            .map(|ms| {
                ms.iter()
                    .map(|m| format!("{}x{}{}{}{}", m.log_h, m.width, if m.two_points { "n" } else { "" }, if m.constant { "c" } else { "" }, if m.next_only { "g" } else { "" }))
                    .collect::<Vec<_>>()
                    .join(",")
            })
            .collect();
        format!("pcs/bb/{}/[{}]", self.params.tag(), r.join("|"))
    }
    pub fn to_json(&self) -> Value {
        json!({"params": self.params.to_json(),
               "rounds": self.rounds.iter().map(|ms| ms.iter().map(|m| json!([m.log_h, m.width, m.two_points, m.constant, m.next_only])).collect::<Vec<_>>()).collect::<Vec<_>>()})
    }
    pub fn from_json(v: &Value) -> Option<PcsShape> {
        let params = Params::from_json(&v["params"])?;
        let mut rounds = vec![];
        for r in v["rounds"].as_array()? {
            let mut ms = vec![];
            for m in r.as_array()? {
                ms.push(MatSpec {
                    log_h: m.get(0)?.as_u64()? as usize,
                    width: m.get(1)?.as_u64()? as usize,
                    two_points: m.get(2)?.as_bool()?,
                    constant: m.get(3).and_then(|x| x.as_bool()).unwrap_or(false),
                    next_only: m.get(4).and_then(|x| x.as_bool()).unwrap_or(false),
                });
            }
            rounds.push(ms);
        }
        Some(PcsShape { params, rounds })
    }
    pub fn log_max_lde_height(&self) -> usize {
        self.rounds.iter().flatten().map(|m| m.log_h).max().unwrap_or(0) + self.params.log_blowup
    }
}

pub struct Setup {
    pub perm: Perm,
    pub val_mmcs: MyMmcs,
    pub fri: FriParameters<ChallengeMmcs>,
    pub pcs: MyPcs,
    pub fvp: FriVerifierParams,
}

pub fn setup(p: &Params) -> Setup {
    let perm = default_babybear_poseidon2_16();
    let hash = MyHash::new(perm.clone());
    let compress = MyCompress::new(perm.clone());
    let val_mmcs = MyMmcs::new(hash, compress, 0);
    let challenge_mmcs = ChallengeMmcs::new(val_mmcs.clone());
    let fri = FriParameters {
        log_blowup: p.log_blowup,
        log_final_poly_len: p.log_final_poly_len,
        max_log_arity: p.max_log_arity,
        num_queries: p.num_queries,
        commit_proof_of_work_bits: p.commit_pow_bits,
        query_proof_of_work_bits: p.query_pow_bits,
        mmcs: challenge_mmcs,
    };
    let pcs = MyPcs::new(Dft::default(), val_mmcs.clone(), fri.clone());
    let fvp = FriVerifierParams::with_mmcs(
        p.log_blowup,
        p.log_final_poly_len,
        p.commit_pow_bits,
        p.query_pow_bits,
        Poseidon2Config::BABY_BEAR_D4_W16,
    );
    Setup { perm, val_mmcs, fri, pcs, fvp }
}

fn splitmix(mut x: u64) -> u64 {
    x = x.wrapping_add(0x9E3779B97F4A7C15);
    let mut z = x;
    z = (z ^ (z >> 30)).wrapping_mul(0xBF58476D1CE4E5B9);
    z = (z ^ (z >> 27)).wrapping_mul(0x94D049BB133111EB);
    z ^ (z >> 31)
}

/// Deterministic matrix contents (a fixed mixing function of the position; `seed` only rotates the
/// concrete values).
fn matrix(seed: u64, round: usize, mat: usize, m: &MatSpec) -> RowMajorMatrix<F> {
    let rows = 1usize << m.log_h;
    let mut v = Vec::with_capacity(rows * m.width);
    for r in 0..rows {
        for c in 0..m.width {
            let r = if m.constant { 0 } else { r };
            let k = splitmix(seed ^ splitmix(((round as u64) << 48) | ((mat as u64) << 32) | ((r as u64) << 8) | c as u64));
            v.push(F::from_u64(1 + k % (MODULUS - 1)));
        }
    }
    RowMajorMatrix::new(v, m.width)
}

fn domain_of(m: &MatSpec) -> Domain {
    TwoAdicMultiplicativeCoset::new(F::ONE, m.log_h).expect("two-adic domain")
}

fn points_of(m: &MatSpec, zeta: Challenge) -> Vec<Challenge> {
    if m.next_only {
        vec![zeta * Challenge::from(F::two_adic_generator(m.log_h))]
    } else if m.two_points {
        vec![zeta, zeta * Challenge::from(F::two_adic_generator(m.log_h))]
    } else {
        vec![zeta]
    }
}

/// What the prover keeps: the committed data of every round.
pub struct Committed {
    pub commitments: Vec<Com>,
    pub data: Vec<PData>,
    /// transcript after observing the commitments and sampling zeta
    pub challenger: Challenger,
    pub zeta: Challenge,
}

pub fn commit(su: &Setup, shape: &PcsShape, seed: u64) -> Committed {
    let mut ch = Challenger::new(su.perm.clone());
    let mut commitments = vec![];
    let mut data = vec![];
    for (ri, round) in shape.rounds.iter().enumerate() {
        let evals: Vec<(Domain, RowMajorMatrix<F>)> =
            round.iter().enumerate().map(|(mi, m)| (domain_of(m), matrix(seed, ri, mi, m))).collect();
        let (c, d) = <MyPcs as Pcs<Challenge, Challenger>>::commit(&su.pcs, evals);
        ch.observe(c.clone());
        commitments.push(c);
        data.push(d);
    }
    let zeta: Challenge = ch.sample_algebra_element();
    Committed { commitments, data, challenger: ch, zeta }
}

/// The real prover.
pub fn honest_open(su: &Setup, shape: &PcsShape, cm: &Committed) -> (Opened, FriProofT) {
    let mut ch = cm.challenger.clone();
    let open_data: Vec<(&PData, Vec<Vec<Challenge>>)> = shape
        .rounds
        .iter()
        .zip(cm.data.iter())
        .map(|(round, d)| (d, round.iter().map(|m| points_of(m, cm.zeta)).collect()))
        .collect();
    <MyPcs as Pcs<Challenge, Challenger>>::open(&su.pcs, open_data, &mut ch)
}

pub fn tree_of(commitments: &[Com], opened: &Opened, proof: &FriProofT) -> Value {
    json!({
        "commitments": serde_json::to_value(commitments).unwrap(),
        "opened_values": serde_json::to_value(opened).unwrap(),
        "proof": serde_json::to_value(proof).unwrap(),
    })
}

pub type Parsed = (Vec<Com>, Opened, FriProofT);

pub fn parse(tree: &Value) -> Result<Parsed, String> {
    let c: Vec<Com> = serde_json::from_value(tree["commitments"].clone()).map_err(|e| format!("commitments: {e}"))?;
    let o: Opened = serde_json::from_value(tree["opened_values"].clone()).map_err(|e| format!("opened_values: {e}"))?;
    let p: FriProofT = serde_json::from_value(tree["proof"].clone()).map_err(|e| format!("proof: {e}"))?;
    Ok((c, o, p))
}

// ------------------------------------------------------------------------------------------
// malicious prover

/// A prover-side deviation. Everything downstream of the deviated object (commitments, PoW
/// witnesses, challenges, query indices, Merkle openings) is derived honestly from it.
#[derive(Clone, Debug, PartialEq, Eq, Hash)]
pub enum Dev {
    None,
    /// the codeword committed in commit phase `layer` (after the roll-in of phase `layer-1`) gets
    /// `+1` at `pos` *before* it is committed; `layer == number of phases` addresses the last folded
    /// vector, from which the final polynomial is interpolated
    Codeword { layer: usize, pos: usize },
    /// coefficient of the final polynomial `+1` before it is observed
    FinalPoly { coeff: usize },
    /// commit-phase PoW witness of `phase` chosen so that the PoW check FAILS (no grinding); the
    /// transcript continues with it
    CommitPow { phase: usize },
    /// query PoW witness chosen so that the PoW check fails
    QueryPow,
    /// claimed evaluation `+1` before it is observed (alpha, the reduced openings and the whole
    /// FRI proof are derived from the wrong claim)
    OpenedValue { round: usize, mat: usize, point: usize, col: usize },
    /// claimed evaluation `+1` before it is observed (alpha is derived from the wrong claim) but
    /// the reduced openings and the FRI proof are computed from the TRUE evaluations: the only
    /// thing wrong is the claim itself. For a matrix of LDE height `2^log_blowup` (constant
    /// polynomial) nothing but the verifier's "reduced opening must vanish" check sees it.
    ClaimOnly { round: usize, mat: usize, point: usize, col: usize },
    /// foreign folding schedule: commit phase `layer` folds with `log_arity` (≤ max_log_arity,
    /// ≠ the honest prover's choice); a smaller arity gives another valid schedule, a larger one
    /// jumps over an input height whose reduced opening is then never rolled in (dropped by this
    /// prover; later inputs are rolled in as usual). `skips_zero`: every jumped-over matrix is
    /// constant, i.e. the dropped reduced opening is identically zero.
    Arity { layer: usize, log_arity: usize, skips_zero: bool },
}

impl Dev {
    pub fn class(&self) -> String {
        match self {
            Dev::None => "mal:none".into(),
            Dev::Codeword { layer, .. } => format!("mal:codeword/layer{layer}"),
            Dev::FinalPoly { .. } => "mal:final_poly".into(),
            Dev::CommitPow { .. } => "mal:commit_pow".into(),
            Dev::QueryPow => "mal:query_pow".into(),
            Dev::OpenedValue { point, .. } => format!("mal:opened_value/point{point}"),
            Dev::ClaimOnly { point, .. } => format!("mal:claim_only/point{point}"),
            Dev::Arity { skips_zero: true, .. } => "mal:arity_jumps_over_zero_rollin".into(),
            Dev::Arity { .. } => "mal:arity".into(),
        }
    }
    pub fn show(&self) -> String {
        format!("{self:?}")
    }
    pub fn to_json(&self) -> Value {
        match self {
            Dev::None => json!({"none": true}),
            Dev::Codeword { layer, pos } => json!({"codeword": [layer, pos]}),
            Dev::FinalPoly { coeff } => json!({"final_poly": coeff}),
            Dev::CommitPow { phase } => json!({"commit_pow": phase}),
            Dev::QueryPow => json!({"query_pow": true}),
            Dev::OpenedValue { round, mat, point, col } => json!({"opened_value": [round, mat, point, col]}),
            Dev::ClaimOnly { round, mat, point, col } => json!({"claim_only": [round, mat, point, col]}),
            Dev::Arity { layer, log_arity, skips_zero } => json!({"arity": [layer, log_arity, *skips_zero as usize]}),
        }
    }
    pub fn from_json(v: &Value) -> Option<Dev> {
        let g = |a: &Value, i: usize| a.get(i).and_then(|x| x.as_u64()).map(|x| x as usize);
        if v.get("none").is_some() {
            return Some(Dev::None);
        }
        if let Some(a) = v.get("codeword") {
            return Some(Dev::Codeword { layer: g(a, 0)?, pos: g(a, 1)? });
        }
        if let Some(a) = v.get("final_poly") {
            return Some(Dev::FinalPoly { coeff: a.as_u64()? as usize });
        }
        if let Some(a) = v.get("commit_pow") {
            return Some(Dev::CommitPow { phase: a.as_u64()? as usize });
        }
        if v.get("query_pow").is_some() {
            return Some(Dev::QueryPow);
        }
        if let Some(a) = v.get("opened_value") {
            return Some(Dev::OpenedValue { round: g(a, 0)?, mat: g(a, 1)?, point: g(a, 2)?, col: g(a, 3)? });
        }
        if let Some(a) = v.get("claim_only") {
            return Some(Dev::ClaimOnly { round: g(a, 0)?, mat: g(a, 1)?, point: g(a, 2)?, col: g(a, 3)? });
        }
        if let Some(a) = v.get("arity") {
            return Some(Dev::Arity { layer: g(a, 0)?, log_arity: g(a, 1)?, skips_zero: g(a, 2)? != 0 });
        }
        None
    }
}

/// A witness failing the PoW check in the current transcript state (smallest such field element);
/// the challenger is advanced exactly as the verifier's `check_witness` advances it.
fn bad_witness(ch: &mut Challenger, bits: usize) -> F {
    if bits == 0 {
        // no check, nothing observed: any witness is as good as another
        return F::ONE;
    }
    for w in 0..1u64 << 20 {
        let wf = F::from_u64(w);
        let mut probe = ch.clone();
        if !probe.check_witness(bits, wf) {
            *ch = probe;
            return wf;
        }
    }
    panic!("no failing PoW witness found");
}

/// Reduced-opening codewords per LDE log-height, exactly the quantity the native verifier
/// recomputes point-wise: `ro_h[X] = Σ alpha_pow · (p(z) − p(X)) / (z − X)`, alpha powers
/// running per height in the order batch → matrix → point → column.
fn reduced_codewords(
    su: &Setup,
    shape: &PcsShape,
    cm: &Committed,
    opened: &Opened,
    alpha: Challenge,
) -> BTreeMap<usize, Vec<Challenge>> {
    let mut out: BTreeMap<usize, (Challenge, Vec<Challenge>)> = BTreeMap::new();
    for (ri, round) in shape.rounds.iter().enumerate() {
        let mats = su.val_mmcs.get_matrices(&cm.data[ri]);
        for (mi, m) in round.iter().enumerate() {
            let lde = mats[mi];
            let height = lde.height();
            let log_h = log2_strict_usize(height);
            let g = F::two_adic_generator(log_h);
            let (alpha_pow, ro) = out.entry(log_h).or_insert_with(|| (Challenge::ONE, Challenge::zero_vec(height)));
            for (pi, z) in points_of(m, cm.zeta).into_iter().enumerate() {
                let ys = &opened[ri][mi][pi];
                for r in 0..height {
                    let x = F::GENERATOR * g.exp_u64(reverse_bits_len(r, log_h) as u64);
                    let inv = (z - Challenge::from(x)).inverse();
                    let row: Vec<F> = lde.row(r).unwrap().into_iter().collect();
                    let mut ap = *alpha_pow;
                    let mut acc = Challenge::ZERO;
                    for (c, &px) in row.iter().enumerate() {
                        acc += ap * (ys[c] - Challenge::from(px));
                        ap *= alpha;
                    }
                    ro[r] += acc * inv;
                }
                *alpha_pow *= alpha.exp_u64(lde.width() as u64);
            }
        }
    }
    out.into_iter().map(|(h, (_, v))| (h, v)).collect()
}

/// `TwoAdicFriPcs::open` + `prove_fri` with deviation hooks. `honest_opened` are the real
/// prover's evaluations (the claimed values start from them).
pub fn mal_open(
    su: &Setup,
    shape: &PcsShape,
    cm: &Committed,
    honest_opened: &Opened,
    dev: &Dev,
) -> Result<(Opened, FriProofT), String> {
    let mut ch = cm.challenger.clone();
    let mut opened = honest_opened.clone();
    if let Dev::OpenedValue { round, mat, point, col } | Dev::ClaimOnly { round, mat, point, col } = dev {
        let slot = opened
            .get_mut(*round)
            .and_then(|r| r.get_mut(*mat))
            .and_then(|m| m.get_mut(*point))
            .and_then(|p| p.get_mut(*col))
            .ok_or("deviation does not apply")?;
        *slot += Challenge::ONE;
    }
    for round in &opened {
        for mat in round {
            for ys in mat {
                ch.observe_algebra_slice(ys);
            }
        }
    }
    let alpha: Challenge = ch.sample_algebra_element();
    // `ClaimOnly`: the prover keeps folding the true reduced openings
    let codewords = reduced_codewords(su, shape, cm, if matches!(dev, Dev::ClaimOnly { .. }) { honest_opened } else { &opened }, alpha);
    let inputs: Vec<Vec<Challenge>> = codewords.into_iter().rev().map(|(_, v)| v).collect();
    let log_global_max_height = log2_strict_usize(inputs[0].len());
    let params = &su.fri;
    let log_min_height = log2_strict_usize(inputs.last().unwrap().len());
    if params.log_final_poly_len > 0 && log_min_height <= params.log_final_poly_len + params.log_blowup {
        return Err("shape not admitted by the prover (log_min_height <= log_final_poly_len + log_blowup)".into());
    }
    let folding: TwoAdicFriFolding<(), ()> = TwoAdicFriFolding(PhantomData);

    // ---- commit phase (p3_fri::prover::commit_phase with hooks)
    let mut inputs_iter = inputs.into_iter().peekable();
    let mut folded = inputs_iter.next().unwrap();
    let mut commits = vec![];
    let mut data = vec![];
    let mut log_arities = vec![];
    let mut pow_witnesses = vec![];
    let log_final_height = params.log_blowup + params.log_final_poly_len;
    let mut applied = matches!(dev, Dev::None | Dev::OpenedValue { .. } | Dev::ClaimOnly { .. });
    while folded.len() > params.blowup() * params.final_poly_len() {
        let layer = commits.len();
        if let Dev::Codeword { layer: l, pos } = dev {
            if *l == layer {
                *folded.get_mut(*pos).ok_or("deviation does not apply")? += Challenge::ONE;
                applied = true;
            }
        }
        let log_current_height = log2_strict_usize(folded.len());
        let next_input_log_height = inputs_iter.peek().map(|v| log2_strict_usize(v.len()));
        let mut log_arity =
            compute_log_arity_for_round(log_current_height, next_input_log_height, log_final_height, params.max_log_arity);
        if let Dev::Arity { layer: l, log_arity: a, .. } = dev {
            if *l == layer {
                if *a == log_arity || *a == 0 || *a > params.max_log_arity || *a > log_current_height - log_final_height {
                    return Err("deviation does not apply".into());
                }
                log_arity = *a;
                applied = true;
            }
        }
        log_arities.push(log_arity);
        let leaves = RowMajorMatrix::new(folded, 1 << log_arity);
        let (commit, prover_data) = params.mmcs.commit_matrix(leaves);
        ch.observe(commit.clone());
        commits.push(commit);
        let w = if matches!(dev, Dev::CommitPow { phase } if *phase == layer) {
            applied = true;
            bad_witness(&mut ch, params.commit_proof_of_work_bits)
        } else {
            ch.grind(params.commit_proof_of_work_bits)
        };
        pow_witnesses.push(w);
        let beta: Challenge = ch.sample_algebra_element();
        let leaves = params.mmcs.get_matrices(&prover_data).pop().unwrap();
        folded = <TwoAdicFriFolding<(), ()> as FriFoldingStrategy<F, Challenge>>::fold_matrix(
            &folding,
            beta,
            log_arity,
            leaves.as_view(),
        );
        data.push(prover_data);
        // inputs a foreign schedule jumped over are dropped (never rolled in); no-op otherwise
        while inputs_iter.peek().is_some_and(|v| v.len() > folded.len()) {
            inputs_iter.next();
        }
        if let Some(v) = inputs_iter.next_if(|v| v.len() == folded.len()) {
            let beta_pow = beta.exp_power_of_2(log_arity);
            for (c, x) in folded.iter_mut().zip(v) {
                *c += beta_pow * x;
            }
        }
    }
    if let Dev::Codeword { layer: l, pos } = dev {
        if *l == commits.len() {
            *folded.get_mut(*pos).ok_or("deviation does not apply")? += Challenge::ONE;
            applied = true;
        }
    }
    folded.truncate(params.final_poly_len());
    reverse_slice_index_bits(&mut folded);
    let mut final_poly = Radix2DFTSmallBatch::<F>::default().idft_algebra(folded);
    if let Dev::FinalPoly { coeff } = dev {
        *final_poly.get_mut(*coeff).ok_or("deviation does not apply")? += Challenge::ONE;
        applied = true;
    }
    ch.observe_algebra_slice(&final_poly);

    for &la in &log_arities {
        ch.observe(F::from_usize(la));
    }
    let query_pow_witness = if matches!(dev, Dev::QueryPow) {
        applied = true;
        bad_witness(&mut ch, params.query_proof_of_work_bits)
    } else {
        ch.grind(params.query_proof_of_work_bits)
    };
    if !applied {
        return Err("deviation does not apply".into());
    }

    // ---- query phase (prove_fri / open_input / answer_query)
    let mut query_proofs = vec![];
    for _ in 0..params.num_queries {
        let index: usize = ch.sample_bits(log_global_max_height);
        let input_proof: Vec<BatchOpening<F, MyMmcs>> = cm
            .data
            .iter()
            .map(|d| {
                let log_max_height = log2_strict_usize(su.val_mmcs.get_max_height(d));
                su.val_mmcs.open_batch(index >> (log_global_max_height - log_max_height), d)
            })
            .collect();
        let mut current_index = index;
        let mut commit_phase_openings = vec![];
        for (i, commit) in data.iter().enumerate() {
            let log_arity = log_arities[i];
            let arity = 1usize << log_arity;
            let index_in_group = current_index % arity;
            let group_index = current_index >> log_arity;
            let (mut opened_rows, opening_proof) = params.mmcs.open_batch(group_index, commit).unpack();
            let opened_row = opened_rows.pop().unwrap();
            let sibling_values: Vec<Challenge> =
                opened_row.into_iter().enumerate().filter(|(j, _)| *j != index_in_group).map(|(_, v)| v).collect();
            current_index = group_index;
            commit_phase_openings.push(CommitPhaseProofStep { log_arity: log_arity as u8, sibling_values, opening_proof });
        }
        query_proofs.push(QueryProof { input_proof, commit_phase_openings });
    }
    let proof = FriProof {
        commit_phase_commits: commits,
        commit_pow_witnesses: pow_witnesses,
        query_proofs,
        final_poly,
        query_pow_witness,
    };
    Ok((opened, proof))
}

/// Every deviation of the shape, derived from the honest proof's schedule. `all_positions`:
/// every codeword position of every layer; otherwise four positions per layer
/// (0, 1, middle, last).
pub fn deviations(shape: &PcsShape, honest: &FriProofT, opened: &Opened, all_positions: bool) -> Vec<Dev> {
    let mut v = vec![];
    let log_arities: Vec<usize> = honest.query_proofs[0].commit_phase_openings.iter().map(|o| o.log_arity as usize).collect();
    let mut log_len = shape.log_max_lde_height();
    for layer in 0..=log_arities.len() {
        let len = 1usize << log_len;
        let positions: Vec<usize> = if all_positions {
            (0..len).collect()
        } else {
            let mut p = vec![0, 1.min(len - 1), len / 2, len - 1];
            p.sort_unstable();
            p.dedup();
            p
        };
        for pos in positions {
            v.push(Dev::Codeword { layer, pos });
        }
        if layer < log_arities.len() {
            log_len -= log_arities[layer];
        }
    }
    for coeff in 0..honest.final_poly.len() {
        v.push(Dev::FinalPoly { coeff });
    }
    for phase in 0..log_arities.len() {
        v.push(Dev::CommitPow { phase });
    }
    v.push(Dev::QueryPow);
    // foreign schedules: at every layer of the honest schedule, every other admissible arity
    {
        let lb = shape.params.log_blowup;
        let log_final = lb + shape.params.log_final_poly_len;
        let mut cur = shape.log_max_lde_height();
        for (layer, &honest_la) in log_arities.iter().enumerate() {
            for a in 1..=shape.params.max_log_arity.min(cur - log_final) {
                if a == honest_la {
                    continue;
                }
                // LDE heights strictly between cur - a and cur are jumped over
                let jumped: Vec<&MatSpec> =
                    shape.rounds.iter().flatten().filter(|m| m.log_h + lb < cur && m.log_h + lb > cur - a).collect();
                let skips_zero = !jumped.is_empty() && jumped.iter().all(|m| m.constant);
                v.push(Dev::Arity { layer, log_arity: a, skips_zero });
            }
            cur -= honest_la;
        }
    }
    for (ri, round) in opened.iter().enumerate() {
        for (mi, mat) in round.iter().enumerate() {
            for (pi, ys) in mat.iter().enumerate() {
                let cols: Vec<usize> = if all_positions || ys.len() <= 2 { (0..ys.len()).collect() } else { vec![0, ys.len() - 1] };
                for col in cols {
                    v.push(Dev::OpenedValue { round: ri, mat: mi, point: pi, col });
                    v.push(Dev::ClaimOnly { round: ri, mat: mi, point: pi, col });
                }
            }
        }
    }
    v
}

// ------------------------------------------------------------------------------------------
// the two judges

pub struct Built {
    pub circuit: Circuit<Challenge>,
    pub op_ids: Vec<NonPrimitiveOpId>,
}

/// Typed, per-thread half (the circuit holds boxed executors and is not `Sync`).
pub struct PcsEngine {
    pub shape: PcsShape,
    pub su: Setup,
    cache: HashMap<String, Result<Built, Verdict>>,
    pub builds: u64,
    pub cache_hits: u64,
}

impl PcsEngine {
    pub fn new(shape: &PcsShape) -> Self {
        PcsEngine { shape: shape.clone(), su: setup(&shape.params), cache: HashMap::new(), builds: 0, cache_hits: 0 }
    }

    pub fn native(&self, tree: &Value) -> Verdict {
        let (coms, opened, proof) = match parse(tree) {
            Ok(p) => p,
            Err(e) => return Verdict::NotAProof(e),
        };
        let r = quiet_catch(|| {
            let mut ch = Challenger::new(self.su.perm.clone());
            for c in &coms {
                ch.observe(c.clone());
            }
            let zeta: Challenge = ch.sample_algebra_element();
            if coms.len() != self.shape.rounds.len() || opened.len() != self.shape.rounds.len() {
                return Err("StatementShape".to_string());
            }
            let mut cwp = vec![];
            for ((round, c), ov) in self.shape.rounds.iter().zip(coms.iter()).zip(opened.iter()) {
                if ov.len() != round.len() {
                    return Err("StatementShape".to_string());
                }
                let mut mats = vec![];
                for (m, mv) in round.iter().zip(ov.iter()) {
                    let pts = points_of(m, zeta);
                    if mv.len() != pts.len() {
                        return Err("StatementShape".to_string());
                    }
                    mats.push((domain_of(m), pts.into_iter().zip(mv.iter().cloned()).collect::<Vec<_>>()));
                }
                cwp.push((c.clone(), mats));
            }
            <MyPcs as Pcs<Challenge, Challenger>>::verify(&self.su.pcs, cwp, &proof, &mut ch).map_err(|e| err_kind(&e))
        });
        match r {
            Ok(Ok(())) => Verdict::Accept,
            Ok(Err(k)) => Verdict::Reject(k),
            Err(p) => Verdict::Panic(p),
        }
    }

    /// Builds the verification circuit for the statement's shape: the PCS part of
    /// `verify_batch_circuit`, nothing else.
    fn build(&mut self, p: &Parsed) -> Result<Built, Verdict> {
        self.builds += 1;
        let (coms, opened, proof) = p;
        let shape = &self.shape;
        let su = &self.su;
        let r = quiet_catch(|| -> Result<Built, String> {
            if coms.len() != shape.rounds.len() || opened.len() != shape.rounds.len() {
                return Err("build:StatementShape".to_string());
            }
            let mut cb = vpe4::families::bb::new_builder();
            // allocation order = packing order in `pack`
            let fri_t = FriTargets::new(&mut cb, proof);
            let com_t: Vec<Comm> = coms.iter().map(|c| <Comm as Recursive<Challenge>>::new(&mut cb, c)).collect();
            let ov_t: Vec<Vec<Vec<Vec<Target>>>> = opened
                .iter()
                .map(|round| {
                    round
                        .iter()
                        .map(|mat| mat.iter().map(|ys| cb.alloc_public_inputs(ys.len(), "claimed evaluations")).collect())
                        .collect()
                })
                .collect();

            let mut chal = CircuitChallenger::<WIDTH, RATE, Poseidon2Config>::new(Poseidon2Config::BABY_BEAR_D4_W16);
            for c in &com_t {
                RecursiveChallenger::<F, Challenge>::observe_slice(&mut chal, &mut cb, &c.to_observation_targets());
            }
            let zeta = RecursiveChallenger::<F, Challenge>::sample_ext(&mut chal, &mut cb);
            // one shared target per distinct opening point, as in the STARK verifiers (the
            // fast path of `open_input` compares targets)
            let mut next_points: BTreeMap<usize, Target> = BTreeMap::new();
            let mut cwp: Vec<(Comm, Vec<(Domain, Vec<(Target, Vec<Target>)>)>)> = vec![];
            for ((round, c), ov) in shape.rounds.iter().zip(com_t.iter()).zip(ov_t.iter()) {
                if ov.len() != round.len() {
                    return Err("build:StatementShape".to_string());
                }
                let mut mats = vec![];
                for (m, mv) in round.iter().zip(ov.iter()) {
                    let n_points = if m.two_points { 2 } else { 1 };
                    if mv.len() != n_points {
                        return Err("build:StatementShape".to_string());
                    }
                    let mut pts = vec![];
                    if !m.next_only {
                        pts.push((zeta, mv[0].clone()));
                    }
                    if m.two_points || m.next_only {
                        let zn = *next_points.entry(m.log_h).or_insert_with(|| {
                            let g = cb.define_const(Challenge::from(F::two_adic_generator(m.log_h)));
                            cb.mul(zeta, g)
                        });
                        pts.push((zn, mv[if m.next_only { 0 } else { 1 }].clone()));
                    }
                    mats.push((domain_of(m), pts));
                }
                cwp.push((c.clone(), mats));
            }
            // native `TwoAdicFriPcs::verify` observes every claimed evaluation first
            for round in &ov_t {
                for mat in round {
                    for ys in mat {
                        RecursiveChallenger::<F, Challenge>::observe_ext_slice(&mut chal, &mut cb, ys);
                    }
                }
            }
            let unused = OpenedValuesTargetsWithLookups::<MyConfig> {
                opened_values_no_lookups: OpenedValuesTargets {
                    trace_local_targets: vec![],
                    trace_next_targets: vec![],
                    preprocessed_local_targets: None,
                    preprocessed_next_targets: None,
                    quotient_chunks_targets: vec![],
                    random_targets: None,
                    _phantom: PhantomData,
                },
                permutation_local_targets: vec![],
                permutation_next_targets: vec![],
            };
            let challenges = <MyPcs as RecursivePcs<MyConfig, InProof, FriTargets, Comm, Domain>>::get_challenges_circuit::<
                WIDTH,
                RATE,
                Poseidon2Config,
            >(&mut cb, &mut chal, &fri_t, &unused, &su.fvp)
            .map_err(|e| format!("build:challenges/{}", err_kind(&e)))?;
            let op_ids = <MyPcs as RecursivePcs<MyConfig, InProof, FriTargets, Comm, Domain>>::verify_circuit::<
                WIDTH,
                RATE,
                Poseidon2Config,
            >(&su.pcs, &mut cb, &challenges, &mut chal, &cwp, &fri_t, &su.fvp)
            .map_err(|e| format!("build:{}", err_kind(&e)))?;
            let circuit = cb.build().map_err(|e| format!("build:CircuitBuilder/{}", err_kind(&e)))?;
            Ok(Built { circuit, op_ids })
        });
        match r {
            Ok(Ok(b)) => Ok(b),
            Ok(Err(k)) => Err(Verdict::Reject(k)),
            Err(p) => Err(Verdict::Panic(p)),
        }
    }

    fn run(b: &Built, p: &Parsed) -> Verdict {
        let (coms, opened, proof) = p;
        let r = quiet_catch(|| {
            let mut pubs: Vec<Challenge> = FriTargets::get_values(proof);
            for c in coms {
                pubs.extend(<Comm as Recursive<Challenge>>::get_values(c));
            }
            for round in opened {
                for mat in round {
                    for ys in mat {
                        pubs.extend(ys.iter().copied());
                    }
                }
            }
            let privs: Vec<Challenge> = <FriTargets as Recursive<Challenge>>::get_private_values(proof);
            let mut runner = b.circuit.runner();
            if let Err(e) = runner.set_public_inputs(&pubs) {
                return Verdict::Reject(format!("set_public_inputs:{}", err_kind(&e)));
            }
            if let Err(e) = runner.set_private_inputs(&privs) {
                return Verdict::Reject(format!("set_private_inputs:{}", err_kind(&e)));
            }
            if let Err(e) = set_fri_mmcs_private_data::<F, Challenge, ChallengeMmcs, MyMmcs, MyHash, MyCompress, DIGEST_ELEMS>(
                &mut runner,
                &b.op_ids,
                proof,
                Poseidon2Config::BABY_BEAR_D4_W16,
            ) {
                return Verdict::Reject(format!("mmcs_private_data:{e}"));
            }
            match runner.run() {
                Ok(_) => Verdict::Accept,
                Err(e) => Verdict::Reject(format!("run:{}", err_kind(&e))),
            }
        });
        r.unwrap_or_else(Verdict::Panic)
    }

    /// Circuit verdict; the circuit is cached per tree skeleton (lengths + `log_arity`s — all the
    /// circuit construction branches on) unless `fresh`.
    pub fn circuit(&mut self, tree: &Value, fresh: bool) -> Verdict {
        let p = match parse(tree) {
            Ok(p) => p,
            Err(e) => return Verdict::NotAProof(e),
        };
        if fresh {
            return match self.build(&p) {
                Ok(b) => Self::run(&b, &p),
                Err(v) => v,
            };
        }
        let key = skeleton(tree);
        if self.cache.contains_key(&key) {
            self.cache_hits += 1;
        } else {
            let b = self.build(&p);
            self.cache.insert(key.clone(), b);
        }
        match &self.cache[&key] {
            Ok(b) => Self::run(b, &p),
            Err(v) => v.clone(),
        }
    }
}

thread_local! {
    static ENGINES: RefCell<HashMap<String, PcsEngine>> = RefCell::new(HashMap::new());
}

/// `Send + Sync` handle of a PCS-level case: honest statement + per-thread engines.
pub struct PcsCase {
    pub shape: PcsShape,
    pub name: String,
    pub seed: u64,
    pub honest: Value,
    pub log_arities: Vec<usize>,
}

impl PcsCase {
    /// Commits, opens with the REAL prover, and checks that the re-implemented prover without a
    /// deviation reproduces the real proof bit for bit.
    pub fn new(shape: &PcsShape, seed: u64) -> Result<PcsCase, String> {
        let name = shape.name();
        let r = quiet_catch(|| -> Result<(Value, Vec<usize>), String> {
            let su = setup(&shape.params);
            let cm = commit(&su, shape, seed);
            let (opened, proof) = honest_open(&su, shape, &cm);
            let honest = tree_of(&cm.commitments, &opened, &proof);
            let (o2, p2) = mal_open(&su, shape, &cm, &opened, &Dev::None)?;
            let again = tree_of(&cm.commitments, &o2, &p2);
            if again != honest {
                return Err("re-implemented prover (no deviation) differs from p3_fri's proof".into());
            }
            let la = proof.query_proofs[0].commit_phase_openings.iter().map(|o| o.log_arity as usize).collect();
            Ok((honest, la))
        });
        match r {
            Ok(Ok((honest, log_arities))) => Ok(PcsCase { shape: shape.clone(), name, seed, honest, log_arities }),
            Ok(Err(e)) => Err(format!("{name}: {e}")),
            Err(p) => Err(format!("{name}: prover panicked: {p}")),
        }
    }

    fn with_engine<R>(&self, f: impl FnOnce(&mut PcsEngine) -> R) -> R {
        let mut eng = ENGINES.with(|m| m.borrow_mut().remove(&self.name)).unwrap_or_else(|| PcsEngine::new(&self.shape));
        let r = f(&mut eng);
        ENGINES.with(|m| m.borrow_mut().insert(self.name.clone(), eng));
        r
    }
    pub fn native_verify(&self, tree: &Value) -> Verdict {
        self.with_engine(|e| e.native(tree))
    }
    pub fn circuit_verify(&self, tree: &Value) -> Verdict {
        self.with_engine(|e| e.circuit(tree, false))
    }
    pub fn circuit_verify_fresh(&self, tree: &Value) -> Verdict {
        self.with_engine(|e| e.circuit(tree, true))
    }
    pub fn release_thread_engine(&self) {
        ENGINES.with(|m| m.borrow_mut().remove(&self.name));
    }
    /// All deviations of this case.
    pub fn deviations(&self, all_positions: bool) -> Vec<Dev> {
        let (_c, opened, proof) = parse(&self.honest).expect("honest tree parses");
        deviations(&self.shape, &proof, &opened, all_positions)
    }
    /// Run the malicious prover.
    pub fn forge(&self, dev: &Dev) -> Result<Value, String> {
        quiet_catch(|| -> Result<Value, String> {
            let su = setup(&self.shape.params);
            let cm = commit(&su, &self.shape, self.seed);
            let (_c, opened, _p) = parse(&self.honest)?;
            let (o2, p2) = mal_open(&su, &self.shape, &cm, &opened, dev)?;
            Ok(tree_of(&cm.commitments, &o2, &p2))
        })
        .and_then(|r| r)
    }
}
