//! The finite shape lists of C07 (explicit, deterministic — nothing is sampled).
//!
//! Parameter sets: log_blowup ∈ {1,2} × log_final_poly_len ∈ {0,1,2} × max_log_arity ∈ {1,2,3}
//! × num_queries ∈ {1,2} × commit-PoW bits ∈ {0,1} × query-PoW bits ∈ {0,2}  (144 sets).
//! Height mixes: every multiset of ≤ 3 trace log-heights from {2..5} the prover admits for the
//! parameters (`log_min_height > log_final_poly_len + log_blowup` when the final polynomial is
//! longer than one coefficient ⇔ min trace log-height > log_final_poly_len).
//! Widths {1,2,9}: matrix j of shape number s gets `W[(s + j) mod 3]`.

use serde_json::{Value, json};
use vpe4::airs::BAir;
use vpe4::{Fixture, FriSpec};

use crate::pcs::{MatSpec, Params, PcsShape};

pub const WIDTHS: [usize; 3] = [1, 2, 9];

pub fn all_params() -> Vec<Params> {
    let mut v = vec![];
    for log_blowup in [1, 2] {
        for log_final_poly_len in [0, 1, 2] {
            for max_log_arity in [1, 2, 3] {
                for num_queries in [1, 2] {
                    for commit_pow_bits in [0, 1] {
                        for query_pow_bits in [0, 2] {
                            v.push(Params {
                                log_blowup,
                                log_final_poly_len,
                                max_log_arity,
                                num_queries,
                                commit_pow_bits,
                                query_pow_bits,
                            });
                        }
                    }
                }
            }
        }
    }
    v
}

/// Non-increasing sequences of length 1..=3 over {5,4,3,2}.
pub fn all_mixes() -> Vec<Vec<usize>> {
    let hs = [5usize, 4, 3, 2];
    let mut v = vec![];
    for &a in &hs {
        v.push(vec![a]);
    }
    for &a in &hs {
        for &b in &hs {
            if b <= a {
                v.push(vec![a, b]);
            }
        }
    }
    for &a in &hs {
        for &b in &hs {
            for &c in &hs {
                if b <= a && c <= b {
                    v.push(vec![a, b, c]);
                }
            }
        }
    }
    v
}

pub fn admissible(p: &Params, mix: &[usize]) -> bool {
    let min = *mix.iter().min().unwrap();
    p.log_final_poly_len == 0 || min > p.log_final_poly_len
}

pub const N_LAYOUTS: usize = 5;

/// PCS-level layouts of a height mix (rounds = MMCS commitments; every round contains the tallest
/// matrix, see the known finding F2):
///  0: one round, every matrix opened at zeta (one shared point: the fast path of `open_input`)
///  1: one round, every matrix opened at zeta and zeta·g (per-matrix Horner chains)
///  2: two rounds as in a STARK: all matrices at (zeta, zeta·g), then the tallest and the
///     shortest again at zeta only (alpha powers continue across rounds per height)
///  3: one round, opening-point sets alternate between matrices (mixed groups fall back to the
///     per-matrix path)
///  4: one round, every matrix opened at zeta only, plus one more matrix of the tallest height
///     opened at zeta·g only: a (batch, height) group of single-point matrices whose points
///     DIFFER (must not take the shared-point fast path)
pub fn pcs_shape(p: &Params, mix: &[usize], s: usize, layout: usize) -> PcsShape {
    let w = |j: usize| WIDTHS[(s + j) % 3];
    let mats = |two: &dyn Fn(usize) -> bool| -> Vec<MatSpec> {
        mix.iter().enumerate().map(|(j, &h)| MatSpec::new(h, w(j), two(j))).collect()
    };
    let rounds = match layout % N_LAYOUTS {
        0 => vec![mats(&|_| false)],
        1 => vec![mats(&|_| true)],
        2 => {
            let mut second = vec![MatSpec::new(mix[0], w(3), false)];
            if mix.len() > 1 {
                second.push(MatSpec::new(*mix.last().unwrap(), w(4), false));
            }
            vec![mats(&|_| true), second]
        }
        3 => vec![mats(&|j| j % 2 == 0)],
        _ => {
            let mut ms = mats(&|_| false);
            ms.push(MatSpec::next_only(mix[0], w(5)));
            vec![ms]
        }
    };
    PcsShape { params: p.clone(), rounds }
}

/// Shapes outside the {2..5} grid that only the PCS-level driver can produce: height-1 (constant)
/// matrices, whose reduced opening must vanish (`log_height == log_blowup` clause). The prover
/// admits them only with a one-coefficient final polynomial.
pub fn pcs_extra_shapes() -> Vec<PcsShape> {
    let mut v = vec![];
    // long final polynomials: log_final_poly_len 3..=5 (8, 16, 32 coefficients; the sweep proper
    // stops at 2), folded by arity 2 and 4 from a matrix two or three levels above
    for lfp in [3usize, 4, 5] {
        for (max_log_arity, up) in [(1usize, 2usize), (2, 3)] {
            let p = Params { log_blowup: 1, log_final_poly_len: lfp, max_log_arity, num_queries: 1, commit_pow_bits: 0, query_pow_bits: 0 };
            v.push(PcsShape { params: p, rounds: vec![vec![MatSpec::new(lfp + up, 1, lfp % 2 == 0)]] });
        }
    }
    // wide folds: max_log_arity 4..=7 (the in-circuit one-hot selector has dedicated code up to
    // arity 16 and a generic arm beyond), one tall matrix folded by the full arity first, alone
    // and with a second matrix exactly one full fold below
    for a in [4usize, 5, 6, 7] {
        for (log_blowup, log_final_poly_len) in [(1usize, 0usize), (2, 1)] {
            let p = Params { log_blowup, log_final_poly_len, max_log_arity: a, num_queries: 1, commit_pow_bits: 0, query_pow_bits: 0 };
            let top = a + log_final_poly_len + 2;
            v.push(PcsShape { params: p.clone(), rounds: vec![vec![MatSpec::new(top, 1, false)]] });
            v.push(PcsShape { params: p, rounds: vec![vec![MatSpec::new(top, 2, true), MatSpec::new(top - a, 1, false)]] });
        }
    }
    for (k, p) in all_params().into_iter().filter(|p| p.log_final_poly_len == 0).enumerate() {
        // 48 parameter sets, three mixes rotating
        let mix: &[usize] = [&[2usize, 0][..], &[5, 3, 0], &[4, 0, 0]][k % 3];
        let mats = mix
            .iter()
            .enumerate()
            .map(|(j, &h)| MatSpec::new(h, WIDTHS[(k + j) % 3], if h == 0 { k % 4 < 2 } else { k % 2 == 0 }))
            .collect();
        v.push(PcsShape { params: p, rounds: vec![mats] });
    }
    // constant matrices at an intermediate height (their reduced opening is identically zero), for
    // the foreign-schedule deviations that jump over that height: every parameter set with
    // max_log_arity >= 2, two mixes rotating
    for (k, p) in all_params().into_iter().filter(|p| p.max_log_arity >= 2).enumerate() {
        let lo = if p.log_final_poly_len == 2 { 3 } else { 2 };
        let mix: Vec<(usize, bool)> =
            if k % 2 == 0 { vec![(5, false), (4, true)] } else { vec![(5, false), (lo + 1, true), (lo, false)] };
        let mats = mix
            .iter()
            .enumerate()
            .map(|(j, &(h, c))| MatSpec { log_h: h, width: WIDTHS[(k + j) % 3], two_points: k % 4 < 2, constant: c, next_only: false })
            .collect();
        v.push(PcsShape { params: p, rounds: vec![mats] });
    }
    v
}

// ------------------------------------------------------------------------------------------
// STARK path

#[derive(Clone, Debug, PartialEq, Eq)]
pub enum AirKind {
    /// `MulAir` with `reps` repetitions: main width `reps`, preprocessed width `2·reps`
    Mul(usize),
    Fib,
    Add,
    /// `Add` that never reads the next row: its main trace is opened at zeta only
    AddNoNext,
    Sub,
    PubVal,
}

impl AirKind {
    fn tag(&self) -> String {
        match self {
            AirKind::Mul(r) => format!("mul{r}"),
            AirKind::Fib => "fib".into(),
            AirKind::Add => "add".into(),
            AirKind::AddNoNext => "addnn".into(),
            AirKind::Sub => "sub".into(),
            AirKind::PubVal => "pubval".into(),
        }
    }
    fn from_tag(s: &str) -> Option<AirKind> {
        Some(match s {
            "fib" => AirKind::Fib,
            "add" => AirKind::Add,
            "addnn" => AirKind::AddNoNext,
            "sub" => AirKind::Sub,
            "pubval" => AirKind::PubVal,
            _ => AirKind::Mul(s.strip_prefix("mul")?.parse().ok()?),
        })
    }
    fn air(&self, rows: usize) -> BAir {
        match self {
            AirKind::Mul(reps) => BAir::Mul { degree: 2, rows, reps: *reps },
            AirKind::Fib => BAir::Fib,
            AirKind::Add => BAir::Add,
            AirKind::AddNoNext => BAir::AddNoNext,
            AirKind::Sub => BAir::Sub { rows },
            AirKind::PubVal => BAir::PubVal,
        }
    }
}

/// A batch-STARK whose tables have the given trace log-heights. The tallest table is always a
/// `MulAir` (preprocessed columns), so that every commitment round — main, preprocessed,
/// quotient — contains a matrix of the global maximum height (MMCS is ON; shapes violating this
/// are the known finding F2 of C01 and are not enumerated here).
#[derive(Clone, Debug, PartialEq, Eq)]
pub struct StarkShape {
    /// "bb" | "kb" | "kbq" | "gl"
    pub family: String,
    pub params: Params,
    pub tables: Vec<(AirKind, usize)>,
}

impl StarkShape {
    pub fn set_tag(&self) -> String {
        self.tables.iter().map(|(k, h)| format!("{}_{h}", k.tag())).collect::<Vec<_>>().join(".")
    }
    pub fn name(&self) -> String {
        format!("stark/{}/{}/[{}]", self.family, self.params.tag(), self.set_tag())
    }
    pub fn to_json(&self) -> Value {
        json!({"family": self.family, "params": self.params.to_json(),
               "tables": self.tables.iter().map(|(k, h)| json!([k.tag(), h])).collect::<Vec<_>>()})
    }
    pub fn from_json(v: &Value) -> Option<StarkShape> {
        let mut tables = vec![];
        for t in v["tables"].as_array()? {
            tables.push((AirKind::from_tag(t.get(0)?.as_str()?)?, t.get(1)?.as_u64()? as usize));
        }
        Some(StarkShape { family: v["family"].as_str()?.to_string(), params: Params::from_json(&v["params"])?, tables })
    }
    pub fn fixture(&self) -> Result<Fixture, String> {
        let p = &self.params;
        // `FriSpec::tag` is a `&'static str`; the handful of distinct tags is leaked once each
        let tag: &'static str = leak_tag(p.tag());
        let fs = FriSpec {
            tag,
            log_blowup: p.log_blowup,
            log_final_poly_len: p.log_final_poly_len,
            max_log_arity: p.max_log_arity,
            num_queries: p.num_queries,
            commit_pow_bits: p.commit_pow_bits,
            query_pow_bits: p.query_pow_bits,
            cap_height: 0,
        };
        let rows: Vec<usize> = self.tables.iter().map(|(_, h)| 1usize << h).collect();
        let airs: Vec<BAir> = self.tables.iter().zip(rows.iter()).map(|((k, _), &r)| k.air(r)).collect();
        let set_tag = format!("c07_{}", self.set_tag());
        match self.family.as_str() {
            "bb" => vpe4::families::bb::batch_fixture(airs, &set_tag, rows, fs),
            "kb" => vpe4::families::kb::batch_fixture(airs, &set_tag, rows, fs),
            "kbq" => vpe4::families::kbq::batch_fixture(airs, &set_tag, rows, fs),
            "gl" => vpe4::families::gl::batch_fixture(airs, &set_tag, rows, fs),
            other => Err(format!("unknown family {other}")),
        }
    }
}

fn leak_tag(s: String) -> &'static str {
    use std::collections::HashMap;
    use std::sync::{Mutex, OnceLock};
    static TAGS: OnceLock<Mutex<HashMap<String, &'static str>>> = OnceLock::new();
    let mut g = TAGS.get_or_init(|| Mutex::new(HashMap::new())).lock().unwrap();
    if let Some(t) = g.get(&s) {
        return t;
    }
    let t: &'static str = Box::leak(s.clone().into_boxed_str());
    g.insert(s, t);
    t
}

/// Tables for a height mix: tallest = `MulAir` of width `W[s mod 3]`; the others rotate through
/// the AIR kinds (with / without preprocessed columns, one / two opening points, public values).
pub fn stark_shape(family: &str, p: &Params, mix: &[usize], s: usize) -> StarkShape {
    let w = |j: usize| WIDTHS[(s + j) % 3];
    let mut tables = vec![(AirKind::Mul(w(0)), mix[0])];
    if mix.len() > 1 {
        let k = match s % 3 {
            0 => AirKind::Mul(w(1)),
            1 => AirKind::Fib,
            _ => AirKind::AddNoNext,
        };
        tables.push((k, mix[1]));
    }
    if mix.len() > 2 {
        let k = match (s / 3) % 4 {
            0 => AirKind::Sub,
            1 => AirKind::PubVal,
            2 => AirKind::Mul(w(2)),
            _ => AirKind::Add,
        };
        tables.push((k, mix[2]));
    }
    StarkShape { family: family.to_string(), params: p.clone(), tables }
}

/// The core: 24 (parameter set, height mix) pairs covering every (log_blowup,
/// log_final_poly_len, max_log_arity) combination at least once, both query counts, all PoW
/// settings, one/two/three matrices, equal and distinct heights.
pub fn core_pairs() -> Vec<(Params, Vec<usize>)> {
    let mixes: [&[usize]; 8] = [&[5, 3, 2], &[5, 4, 3], &[4, 4, 2], &[5, 5, 3], &[5, 2], &[3, 3, 3], &[5], &[4, 3]];
    let mut v = vec![];
    let mut k = 0usize;
    let mut push = |lb: usize, lf: usize, ma: usize, k: usize| {
        let p = Params {
            log_blowup: lb,
            log_final_poly_len: lf,
            max_log_arity: ma,
            num_queries: 1 + k % 2,
            commit_pow_bits: (k / 2) % 2,
            query_pow_bits: 2 * ((k / 4 + k) % 2),
        };
        // lift heights the prover would not admit for a long final polynomial
        let mix: Vec<usize> = mixes[k % 8].iter().map(|&h| if lf > 0 && h <= lf { lf + 1 } else { h }).collect();
        (p, mix)
    };
    for lb in [1, 2] {
        for lf in [0, 1, 2] {
            for ma in [1, 2, 3] {
                v.push(push(lb, lf, ma, k));
                k += 1;
            }
        }
    }
    // six more: the widest arity on the tallest mixes, both blow-ups
    for (lb, lf) in [(1, 0), (2, 0), (1, 1), (2, 1), (1, 2), (2, 2)] {
        v.push(push(lb, lf, 3, k));
        k += 1;
    }
    v
}
