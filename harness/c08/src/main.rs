//! C08 — in-circuit Merkle (MMCS) opening verification agrees with the native scheme.
//!
//! Technique: exhaustive single-fault enumeration over an explicit finite list of shapes.
//!
//! * shape  = (scheme, dimension vector, cap height); scheme ∈ {arity-2 | arity-4} ×
//!            {base | extension leaves} × {non-hiding | hiding(SALT=4) | hiding(SALT=3)}
//!            (arity-4 × hiding has no API in the repository: counted as unsupported).
//! * per shape: commit natively (p3 `MerkleTreeMmcs` / `MerkleTreeHidingMmcs` / `ExtensionMmcs`),
//!   build the verification circuit ONCE with the repository's
//!   `p3_recursion::pcs::verify_batch_circuit*`, then for EVERY leaf index: the honest opening
//!   and every single-element fault (each opened base coefficient +1, each salt word +1, each
//!   sibling digest word +1, each index bit flipped, each cap word +1).
//! * oracle: native `Mmcs::verify_batch` verdict (Ok / Err) == circuit verdict (runner `run()`
//!   Ok / Err, sibling digests supplied through the repository's own
//!   `set_*fri_mmcs_private_data*` functions). A disagreement in either direction is a violation.
//!
//! * tiers: quick = ≤2 matrices (every height 1..32 alone, every ordered height pair over
//!   {1,2,4,8,16}, pairs with 32, three non-power-of-two vectors); thorough = ≤3 matrices, every
//!   ordered height pair / triple over {1,2,4,8,16,32}, more width combinations, 14
//!   non-power-of-two vectors, leaves wider than the W32 rate. Both tiers: all 8 schemes, cap
//!   heights 0,1,2. No sampling and no state de-duplication: every listed (shape, index, fault)
//!   is executed on both sides. Shapes run cheapest-first; if the wall-clock budget runs out
//!   the remaining (largest) shapes are counted in `shapes_cut_by_budget` and `exhaustive` is
//!   false.
//! * not verdicts: a shape the repository's API refuses at build time (`unsupported`), a shape
//!   the native scheme refuses to commit to (`native_commit_refuses`, e.g. an arity-4 tree over
//!   non-power-of-two heights whose cap is not a power of two) — counted, never violations.
//!   A native rejection of a native honest opening, or a run in which a verdict never occurs,
//!   is a machinery error (exit 2).
//! * violation keys: `<clause>:<scheme>:<fault class>:levels=<distinct padded heights>:cap=<h>:
//!   <verdict signatures>`; when the honest opening of a (shape, index) is itself rejected the
//!   consequent fault disagreements at that (shape, index) are folded into `honest_rejected`.
//!
//! Additionally the cap multiplexer is driven directly through the hook
//! `p3_recursion::pcs::mmcs::verif_select_cap_entry` (all cap heights 0..=3, every index, the
//! right and every wrong expected entry).

use std::collections::BTreeMap;
use std::sync::Mutex;
use std::sync::atomic::{AtomicBool, AtomicU64, Ordering};

use p3_circuit::ops::{Poseidon2Config, generate_poseidon2_trace, generate_recompose_trace};
use p3_circuit::{Circuit, CircuitBuilder, CircuitBuilderError, CircuitRunner, NonPrimitiveOpId};
use p3_commit::{BatchOpening, BatchOpeningRef, ExtensionMmcs, Mmcs};
use p3_field::extension::BinomialExtensionField;
use p3_field::{BasedVectorSpace, Field, PrimeCharacteristicRing, PrimeField64};
use p3_fri::{FriProof, QueryProof};
use p3_koala_bear::{
    KoalaBear, Poseidon2KoalaBear, default_koalabear_poseidon2_16, default_koalabear_poseidon2_32,
};
use p3_matrix::Dimensions;
use p3_matrix::dense::RowMajorMatrix;
use p3_merkle_tree::{MerkleTreeHidingMmcs, MerkleTreeMmcs};
use p3_poseidon2_circuit_air::{KoalaBearD4Width16, KoalaBearD4Width32};
use p3_recursion::Target;
use p3_recursion::pcs::{
    set_fri_mmcs_private_data, set_fri_mmcs_private_data_arity4, set_salted_fri_mmcs_private_data,
    verify_batch_circuit, verify_batch_circuit_arity4, verify_batch_circuit_from_extension_opened,
    verify_batch_circuit_from_extension_opened_arity4,
};
use p3_symmetric::{MerkleCap, PaddingFreeSponge, TruncatedPermutation};
use p3_util::log2_ceil_usize;
use rand::SeedableRng;
use rand::rngs::SmallRng;
use serde::{Deserialize, Serialize};
use vpcore::rayon::prelude::*;
use vpcore::serde_json::{Value, json};
use vpcore::{Ctx, Histo, Report, finish, machinery_error, quiet_catch};

// ---------------------------------------------------------------------------------------
// field / hash configuration (identical to the repository's tests)

type F = KoalaBear;
const D: usize = 4;
type CF = BinomialExtensionField<F, D>;
const DIGEST: usize = 8;
type Digest = [F; DIGEST];
type PF = <F as Field>::Packing;

type Perm16 = Poseidon2KoalaBear<16>;
type Hash16 = PaddingFreeSponge<Perm16, 16, 8, 8>;
type Compress2 = TruncatedPermutation<Perm16, 2, 8, 16>;
type Mmcs2 = MerkleTreeMmcs<PF, PF, Hash16, Compress2, 2, DIGEST>;
type HMmcs2<const S: usize> =
    MerkleTreeHidingMmcs<PF, PF, Hash16, Compress2, SmallRng, 2, DIGEST, S>;

type Perm32 = Poseidon2KoalaBear<32>;
type Hash32 = PaddingFreeSponge<Perm32, 32, 24, 8>;
type Compress4 = TruncatedPermutation<Perm32, 4, 8, 32>;
type Mmcs4 = MerkleTreeMmcs<F, F, Hash32, Compress4, 4, DIGEST>;

type Proof<S> = <<S as Scheme>::IM as Mmcs<F>>::Proof;

/// One native MMCS flavour together with the repository functions that verify it in-circuit.
trait Scheme: 'static {
    type IM: Mmcs<F, Commitment = MerkleCap<F, Digest>>;
    const SALT: usize;
    fn inner(cap_height: usize, seed: u64) -> Self::IM;
    fn split(p: &Proof<Self>) -> (Vec<Vec<F>>, Vec<Digest>);
    fn join(salts: &[Vec<F>], siblings: &[Digest]) -> Proof<Self>;
    fn perm_config() -> Poseidon2Config;
    fn enable(b: &mut CircuitBuilder<CF>);
    #[allow(clippy::too_many_arguments)]
    fn verify_circuit(
        b: &mut CircuitBuilder<CF>,
        cap: &[Vec<Target>],
        dims: &[Dimensions],
        bits: &[Target],
        opened: &[Vec<Target>],
        salts: &[Vec<Target>],
        ext: bool,
    ) -> Result<Vec<NonPrimitiveOpId>, CircuitBuilderError>;
    /// Sibling digests → NPO private data, through the repository's public setter. The setter
    /// takes a FRI proof; the opening is wrapped as the single input-batch opening of a single
    /// query (the setters only read `opening_proof`).
    fn set_private(
        r: &mut CircuitRunner<'_, CF>,
        op_ids: &[NonPrimitiveOpId],
        salts: &[Vec<F>],
        siblings: &[Digest],
    ) -> Result<(), &'static str>;
}

fn wrap_fri<IM: Mmcs<F>>(
    proof: IM::Proof,
) -> FriProof<CF, ExtensionMmcs<F, CF, IM>, F, Vec<BatchOpening<F, IM>>> {
    FriProof {
        commit_phase_commits: vec![],
        commit_pow_witnesses: vec![],
        query_proofs: vec![QueryProof {
            input_proof: vec![BatchOpening::new(vec![], proof)],
            commit_phase_openings: vec![],
        }],
        final_poly: vec![],
        query_pow_witness: F::ZERO,
    }
}

struct A2;
impl Scheme for A2 {
    type IM = Mmcs2;
    const SALT: usize = 0;
    fn inner(cap_height: usize, _seed: u64) -> Mmcs2 {
        let perm = default_koalabear_poseidon2_16();
        Mmcs2::new(Hash16::new(perm.clone()), Compress2::new(perm), cap_height)
    }
    fn split(p: &Vec<Digest>) -> (Vec<Vec<F>>, Vec<Digest>) {
        (vec![], p.clone())
    }
    fn join(_salts: &[Vec<F>], siblings: &[Digest]) -> Vec<Digest> {
        siblings.to_vec()
    }
    fn perm_config() -> Poseidon2Config {
        Poseidon2Config::KOALA_BEAR_D4_W16
    }
    fn enable(b: &mut CircuitBuilder<CF>) {
        b.enable_poseidon2_perm::<KoalaBearD4Width16, _>(
            generate_poseidon2_trace::<CF, KoalaBearD4Width16>,
            default_koalabear_poseidon2_16(),
        );
        b.enable_recompose::<F>(generate_recompose_trace::<F, CF>);
    }
    fn verify_circuit(
        b: &mut CircuitBuilder<CF>,
        cap: &[Vec<Target>],
        dims: &[Dimensions],
        bits: &[Target],
        opened: &[Vec<Target>],
        _salts: &[Vec<Target>],
        ext: bool,
    ) -> Result<Vec<NonPrimitiveOpId>, CircuitBuilderError> {
        if ext {
            verify_batch_circuit_from_extension_opened::<F, CF>(
                b,
                Self::perm_config(),
                cap,
                dims,
                bits,
                opened,
                None,
            )
        } else {
            verify_batch_circuit::<F, CF>(b, Self::perm_config(), cap, dims, bits, opened, None)
        }
    }
    fn set_private(
        r: &mut CircuitRunner<'_, CF>,
        op_ids: &[NonPrimitiveOpId],
        _salts: &[Vec<F>],
        siblings: &[Digest],
    ) -> Result<(), &'static str> {
        let fri = wrap_fri::<Mmcs2>(siblings.to_vec());
        set_fri_mmcs_private_data::<F, CF, ExtensionMmcs<F, CF, Mmcs2>, Mmcs2, Hash16, Compress2, DIGEST>(
            r,
            op_ids,
            &fri,
            Self::perm_config(),
        )
    }
}

struct A2H<const S: usize>;
impl<const S: usize> Scheme for A2H<S> {
    type IM = HMmcs2<S>;
    const SALT: usize = S;
    fn inner(cap_height: usize, seed: u64) -> HMmcs2<S> {
        let perm = default_koalabear_poseidon2_16();
        HMmcs2::<S>::new(
            Hash16::new(perm.clone()),
            Compress2::new(perm),
            cap_height,
            SmallRng::seed_from_u64(0xC08 ^ seed.wrapping_mul(0x9E37_79B9_7F4A_7C15)),
        )
    }
    fn split(p: &(Vec<Vec<F>>, Vec<Digest>)) -> (Vec<Vec<F>>, Vec<Digest>) {
        p.clone()
    }
    fn join(salts: &[Vec<F>], siblings: &[Digest]) -> (Vec<Vec<F>>, Vec<Digest>) {
        (salts.to_vec(), siblings.to_vec())
    }
    fn perm_config() -> Poseidon2Config {
        Poseidon2Config::KOALA_BEAR_D4_W16
    }
    fn enable(b: &mut CircuitBuilder<CF>) {
        A2::enable(b)
    }
    fn verify_circuit(
        b: &mut CircuitBuilder<CF>,
        cap: &[Vec<Target>],
        dims: &[Dimensions],
        bits: &[Target],
        opened: &[Vec<Target>],
        salts: &[Vec<Target>],
        ext: bool,
    ) -> Result<Vec<NonPrimitiveOpId>, CircuitBuilderError> {
        if ext {
            verify_batch_circuit_from_extension_opened::<F, CF>(
                b,
                Self::perm_config(),
                cap,
                dims,
                bits,
                opened,
                Some(salts),
            )
        } else {
            verify_batch_circuit::<F, CF>(
                b,
                Self::perm_config(),
                cap,
                dims,
                bits,
                opened,
                Some(salts),
            )
        }
    }
    fn set_private(
        r: &mut CircuitRunner<'_, CF>,
        op_ids: &[NonPrimitiveOpId],
        salts: &[Vec<F>],
        siblings: &[Digest],
    ) -> Result<(), &'static str> {
        let fri = wrap_fri::<HMmcs2<S>>((salts.to_vec(), siblings.to_vec()));
        set_salted_fri_mmcs_private_data::<F, CF, ExtensionMmcs<F, CF, HMmcs2<S>>, HMmcs2<S>, DIGEST>(
            r,
            op_ids,
            &fri,
            Self::perm_config(),
        )
    }
}

struct A4;
impl Scheme for A4 {
    type IM = Mmcs4;
    const SALT: usize = 0;
    fn inner(cap_height: usize, _seed: u64) -> Mmcs4 {
        let perm = default_koalabear_poseidon2_32();
        Mmcs4::new(Hash32::new(perm.clone()), Compress4::new(perm), cap_height)
    }
    fn split(p: &Vec<Digest>) -> (Vec<Vec<F>>, Vec<Digest>) {
        (vec![], p.clone())
    }
    fn join(_salts: &[Vec<F>], siblings: &[Digest]) -> Vec<Digest> {
        siblings.to_vec()
    }
    fn perm_config() -> Poseidon2Config {
        Poseidon2Config::KOALA_BEAR_D4_W32
    }
    fn enable(b: &mut CircuitBuilder<CF>) {
        b.enable_poseidon2_perm_width_32::<KoalaBearD4Width32, _>(
            generate_poseidon2_trace::<CF, KoalaBearD4Width32>,
            default_koalabear_poseidon2_32(),
        );
        b.enable_recompose::<F>(generate_recompose_trace::<F, CF>);
    }
    fn verify_circuit(
        b: &mut CircuitBuilder<CF>,
        cap: &[Vec<Target>],
        dims: &[Dimensions],
        bits: &[Target],
        opened: &[Vec<Target>],
        _salts: &[Vec<Target>],
        ext: bool,
    ) -> Result<Vec<NonPrimitiveOpId>, CircuitBuilderError> {
        if ext {
            verify_batch_circuit_from_extension_opened_arity4::<F, CF>(
                b,
                Self::perm_config(),
                cap,
                dims,
                bits,
                opened,
            )
        } else {
            verify_batch_circuit_arity4::<F, CF>(b, Self::perm_config(), cap, dims, bits, opened)
        }
    }
    fn set_private(
        r: &mut CircuitRunner<'_, CF>,
        op_ids: &[NonPrimitiveOpId],
        _salts: &[Vec<F>],
        siblings: &[Digest],
    ) -> Result<(), &'static str> {
        let fri = wrap_fri::<Mmcs4>(siblings.to_vec());
        set_fri_mmcs_private_data_arity4::<F, CF, ExtensionMmcs<F, CF, Mmcs4>, Mmcs4, DIGEST>(
            r,
            op_ids,
            &fri,
            Self::perm_config(),
        )
    }
}

// ---------------------------------------------------------------------------------------
// shapes

#[derive(Clone, Copy, Debug, PartialEq, Eq, PartialOrd, Ord, Serialize, Deserialize)]
enum Cfg {
    /// arity 2, base leaves, non-hiding
    A2B,
    /// arity 2, extension leaves, non-hiding
    A2E,
    /// arity 2, base leaves, hiding, 4 salt words per leaf
    A2BH4,
    /// arity 2, extension leaves, hiding, 4 salt words
    A2EH4,
    /// arity 2, base leaves, hiding, 3 salt words (salt not aligned to the extension degree)
    A2BH3,
    /// arity 2, extension leaves, hiding, 3 salt words
    A2EH3,
    /// arity 4 (W32), base leaves
    A4B,
    /// arity 4 (W32), extension leaves
    A4E,
}
impl Cfg {
    fn ext(self) -> bool {
        matches!(self, Cfg::A2E | Cfg::A2EH4 | Cfg::A2EH3 | Cfg::A4E)
    }
    fn name(self) -> &'static str {
        match self {
            Cfg::A2B => "A2B",
            Cfg::A2E => "A2E",
            Cfg::A2BH4 => "A2BH4",
            Cfg::A2EH4 => "A2EH4",
            Cfg::A2BH3 => "A2BH3",
            Cfg::A2EH3 => "A2EH3",
            Cfg::A4B => "A4B",
            Cfg::A4E => "A4E",
        }
    }
}

#[derive(Clone, Debug, PartialEq, Eq, PartialOrd, Ord, Serialize, Deserialize)]
struct Shape {
    cfg: Cfg,
    /// (height, width) per matrix, in commit order; width counts leaf-field elements
    dims: Vec<(usize, usize)>,
    cap_height: usize,
}
impl Shape {
    fn max_height(&self) -> usize {
        self.dims.iter().map(|d| d.0).max().unwrap()
    }
    fn show(&self) -> String {
        format!(
            "{} cap={} dims={}",
            self.cfg.name(),
            self.cap_height,
            self.dims.iter().map(|(h, w)| format!("{h}x{w}")).collect::<Vec<_>>().join(",")
        )
    }
    /// simplest-first order used to pick the canonical minimal violating case
    fn size_key(&self) -> (usize, usize, usize, usize, Vec<(usize, usize)>) {
        (
            self.dims.len(),
            self.max_height(),
            self.dims.iter().map(|d| d.1).sum(),
            self.cap_height,
            self.dims.clone(),
        )
    }
    /// rough cost estimate (runs), for cheap-first scheduling
    fn cost(&self) -> usize {
        let coeffs = if self.cfg.ext() { D } else { 1 };
        let w: usize = self.dims.iter().map(|d| d.1 * coeffs + 4).sum();
        self.max_height() * (w + 8 * log2_ceil_usize(self.max_height()) + 16)
    }
}

const WIDTHS: [usize; 4] = [1, 3, 8, 9];

/// The explicit finite list of dimension vectors.
fn dimension_vectors(quick: bool) -> Vec<Vec<(usize, usize)>> {
    let mut out: Vec<Vec<(usize, usize)>> = vec![];
    if quick {
        // one matrix: every height × every width
        for h in [1, 2, 4, 8, 16, 32] {
            for w in WIDTHS {
                out.push(vec![(h, w)]);
            }
        }
        // two matrices, every ordered height pair over {1,2,4,8,16}: equal heights × all 16
        // width pairs (one concatenated leaf, every way of straddling the rate), different
        // heights × 3 width pairs (hashed separately, widths independent)
        let hs = [1usize, 2, 4, 8, 16];
        for &h1 in &hs {
            for &h2 in &hs {
                if h1 == h2 {
                    for w1 in WIDTHS {
                        for w2 in WIDTHS {
                            out.push(vec![(h1, w1), (h2, w2)]);
                        }
                    }
                } else {
                    for (w1, w2) in [(3, 9), (8, 1), (9, 8)] {
                        out.push(vec![(h1, w1), (h2, w2)]);
                    }
                }
            }
        }
        // pairs involving height 32: both orders × 1 width pair, and 32/32 × 2 width pairs
        for &h in &hs {
            out.push(vec![(32, 3), (h, 9)]);
            out.push(vec![(h, 8), (32, 1)]);
        }
        for (w1, w2) in [(1, 3), (9, 8)] {
            out.push(vec![(32, w1), (32, w2)]);
        }
        // non-power-of-two heights admitted by the native scheme (ceil(max/2^k) ladder)
        out.push(vec![(5, 2), (3, 3)]);
        out.push(vec![(3, 9)]);
        out.push(vec![(6, 8)]);
        return out;
    }
    let hs = [1usize, 2, 4, 8, 16, 32];
    // 1 matrix: everything
    for &h in &hs {
        for w in WIDTHS {
            out.push(vec![(h, w)]);
        }
    }
    // 2 matrices: every ordered height pair; equal heights × all 16 width pairs (concatenated
    // leaf), different heights × 4 width pairs (hashed separately, widths independent)
    for &h1 in &hs {
        for &h2 in &hs {
            if h1 == h2 {
                for w1 in WIDTHS {
                    for w2 in WIDTHS {
                        out.push(vec![(h1, w1), (h2, w2)]);
                    }
                }
            } else {
                for (w1, w2) in [(1, 3), (3, 9), (8, 1), (9, 8)] {
                    out.push(vec![(h1, w1), (h2, w2)]);
                }
            }
        }
    }
    // 3 matrices: every ordered height triple × 3 width triples
    let wts = [(1, 3, 8), (9, 1, 3), (8, 9, 9)];
    for &h1 in &hs {
        for &h2 in &hs {
            for &h3 in &hs {
                for (w1, w2, w3) in wts {
                    out.push(vec![(h1, w1), (h2, w2), (h3, w3)]);
                }
            }
        }
    }
    // non-power-of-two heights on the ceil(max/2^k) ladder
    for v in [
        vec![(3, 1)],
        vec![(3, 9)],
        vec![(5, 3)],
        vec![(6, 8)],
        vec![(7, 9)],
        vec![(5, 2), (3, 3)],
        vec![(3, 16), (5, 8)],
        vec![(6, 1), (3, 3)],
        vec![(5, 8), (5, 3)],
        vec![(7, 3), (4, 8), (2, 1)],
        vec![(5, 9), (3, 1), (2, 8)],
        vec![(12, 3), (6, 1), (3, 9)],
        vec![(3, 9), (12, 1), (12, 8)],
        vec![(24, 3), (6, 9)],
    ] {
        out.push(v);
    }
    // a leaf wider than the W32 rate (24 base elements) for the arity-4 sponge
    out.push(vec![(8, 25)]);
    out.push(vec![(16, 9), (16, 9), (16, 9)]);
    out
}

fn configs(quick: bool) -> Vec<Cfg> {
    let _ = quick; // both tiers enumerate every scheme; the tiers differ in the dimension vectors
    vec![
        Cfg::A2B,
        Cfg::A2E,
        Cfg::A2BH4,
        Cfg::A2EH4,
        Cfg::A2BH3,
        Cfg::A2EH3,
        Cfg::A4B,
        Cfg::A4E,
    ]
}

fn shapes(quick: bool) -> Vec<Shape> {
    let mut out = vec![];
    for cfg in configs(quick) {
        for dims in dimension_vectors(quick) {
            for cap_height in 0..=2 {
                out.push(Shape { cfg, dims: dims.clone(), cap_height });
            }
        }
    }
    out
}

// ---------------------------------------------------------------------------------------
// openings and faults

/// One (possibly faulted) opening, in a scheme-independent form. `opened` holds the flattened
/// base-field coefficients of every opened row (D per element for extension leaves).
#[derive(Clone, Debug)]
struct Opening {
    bits: Vec<bool>,
    opened: Vec<Vec<F>>,
    salts: Vec<Vec<F>>,
    siblings: Vec<Digest>,
    cap: Vec<Digest>,
}
impl Opening {
    fn index(&self) -> usize {
        self.bits.iter().enumerate().map(|(k, &b)| (b as usize) << k).sum()
    }
}

#[derive(Clone, Copy, Debug, PartialEq, Eq, PartialOrd, Ord, Serialize, Deserialize)]
enum Fault {
    None,
    /// base coefficient `j` of the opened row of matrix `m` += 1
    Opened { m: usize, j: usize },
    /// salt word `j` of matrix `m` += 1
    Salt { m: usize, j: usize },
    /// word `w` of sibling digest `s` += 1
    Sibling { s: usize, w: usize },
    /// index bit `k` flipped (native index and circuit direction bit alike)
    Bit { k: usize },
    /// word `w` of cap entry `c` += 1
    Cap { c: usize, w: usize },
}
impl Fault {
    fn class(&self) -> &'static str {
        match self {
            Fault::None => "honest",
            Fault::Opened { .. } => "opened",
            Fault::Salt { .. } => "salt",
            Fault::Sibling { .. } => "sibling",
            Fault::Bit { .. } => "bit",
            Fault::Cap { .. } => "cap",
        }
    }
}

fn faults_of(o: &Opening) -> Vec<Fault> {
    let mut v = vec![];
    for (m, row) in o.opened.iter().enumerate() {
        for j in 0..row.len() {
            v.push(Fault::Opened { m, j });
        }
    }
    for (m, s) in o.salts.iter().enumerate() {
        for j in 0..s.len() {
            v.push(Fault::Salt { m, j });
        }
    }
    for s in 0..o.siblings.len() {
        for w in 0..DIGEST {
            v.push(Fault::Sibling { s, w });
        }
    }
    for k in 0..o.bits.len() {
        v.push(Fault::Bit { k });
    }
    for c in 0..o.cap.len() {
        for w in 0..DIGEST {
            v.push(Fault::Cap { c, w });
        }
    }
    v
}

fn apply(o: &Opening, f: Fault) -> Opening {
    let mut o = o.clone();
    match f {
        Fault::None => {}
        Fault::Opened { m, j } => o.opened[m][j] += F::ONE,
        Fault::Salt { m, j } => o.salts[m][j] += F::ONE,
        Fault::Sibling { s, w } => o.siblings[s][w] += F::ONE,
        Fault::Bit { k } => o.bits[k] = !o.bits[k],
        Fault::Cap { c, w } => o.cap[c][w] += F::ONE,
    }
    o
}

// ---------------------------------------------------------------------------------------
// native side

fn mix(mut z: u64) -> u64 {
    z = z.wrapping_add(0x9E37_79B9_7F4A_7C15);
    z = (z ^ (z >> 30)).wrapping_mul(0xBF58_476D_1CE4_E5B9);
    z = (z ^ (z >> 27)).wrapping_mul(0x94D0_49BB_1331_11EB);
    z ^ (z >> 31)
}
/// Matrix entry: a deterministic function of (seed, matrix, row, column, coefficient).
fn entry(seed: u64, m: usize, r: usize, c: usize, k: usize) -> F {
    let z = mix(seed ^ mix(((m as u64) << 48) | ((r as u64) << 32) | ((c as u64) << 8) | k as u64));
    F::from_u64(z % F::ORDER_U64)
}

fn ext_from(c: &[F]) -> CF {
    CF::from_basis_coefficients_slice(c).expect("D coefficients")
}

fn p3_dims(shape: &Shape) -> Vec<Dimensions> {
    shape.dims.iter().map(|&(height, width)| Dimensions { height, width }).collect()
}

/// Commit natively and open every index. Returns the cap and one honest opening per index.
fn native_commit_open_all<S: Scheme>(shape: &Shape, seed: u64) -> Vec<Opening> {
    let nbits = log2_ceil_usize(shape.max_height());
    let bits_of = |i: usize| (0..nbits).map(|k| (i >> k) & 1 == 1).collect::<Vec<_>>();
    let mut out = vec![];
    if shape.cfg.ext() {
        let mmcs = ExtensionMmcs::<F, CF, S::IM>::new(S::inner(shape.cap_height, seed));
        let mats: Vec<RowMajorMatrix<CF>> = shape
            .dims
            .iter()
            .enumerate()
            .map(|(m, &(h, w))| {
                let vals = (0..h * w)
                    .map(|i| CF::from_basis_coefficients_fn(|k| entry(seed, m, i / w, i % w, k)))
                    .collect();
                RowMajorMatrix::new(vals, w)
            })
            .collect();
        let (commit, pd) = mmcs.commit(mats);
        let cap = commit.roots().to_vec();
        for i in 0..shape.max_height() {
            let (opened, proof) = mmcs.open_batch(i, &pd).unpack();
            let (salts, siblings) = S::split(&proof);
            out.push(Opening {
                bits: bits_of(i),
                opened: opened
                    .iter()
                    .map(|row| {
                        row.iter()
                            .flat_map(|e| {
                                <CF as BasedVectorSpace<F>>::as_basis_coefficients_slice(e).to_vec()
                            })
                            .collect()
                    })
                    .collect(),
                salts,
                siblings,
                cap: cap.clone(),
            });
        }
    } else {
        let mmcs = S::inner(shape.cap_height, seed);
        let mats: Vec<RowMajorMatrix<F>> = shape
            .dims
            .iter()
            .enumerate()
            .map(|(m, &(h, w))| {
                RowMajorMatrix::new((0..h * w).map(|i| entry(seed, m, i / w, i % w, 0)).collect(), w)
            })
            .collect();
        let (commit, pd) = mmcs.commit(mats);
        let cap = commit.roots().to_vec();
        for i in 0..shape.max_height() {
            let (opened, proof) = mmcs.open_batch(i, &pd).unpack();
            let (salts, siblings) = S::split(&proof);
            out.push(Opening { bits: bits_of(i), opened, salts, siblings, cap: cap.clone() });
        }
    }
    out
}

struct NativeVerifier<S: Scheme> {
    base: S::IM,
    ext: ExtensionMmcs<F, CF, S::IM>,
    is_ext: bool,
    dims: Vec<Dimensions>,
}
impl<S: Scheme> NativeVerifier<S> {
    fn new(shape: &Shape, seed: u64) -> Self {
        Self {
            base: S::inner(shape.cap_height, seed),
            ext: ExtensionMmcs::new(S::inner(shape.cap_height, seed)),
            is_ext: shape.cfg.ext(),
            dims: p3_dims(shape),
        }
    }
    /// Ok(()) = accepted, Err(variant name) = rejected
    fn verify(&self, o: &Opening) -> Result<(), String> {
        let commit = MerkleCap::<F, Digest>::new(o.cap.clone());
        let proof = S::join(&o.salts, &o.siblings);
        let r = if self.is_ext {
            let opened: Vec<Vec<CF>> =
                o.opened.iter().map(|row| row.chunks(D).map(ext_from).collect()).collect();
            self.ext
                .verify_batch(&commit, &self.dims, o.index(), BatchOpeningRef::new(&opened, &proof))
                .map_err(|e| format!("{e:?}"))
        } else {
            self.base
                .verify_batch(&commit, &self.dims, o.index(), BatchOpeningRef::new(&o.opened, &proof))
                .map_err(|e| format!("{e:?}"))
        };
        r.map_err(|e| variant(&e))
    }
}

/// first identifier of a Debug rendering (enum variant name)
fn variant(s: &str) -> String {
    s.chars().take_while(|c| c.is_alphanumeric() || *c == '_').collect()
}

// ---------------------------------------------------------------------------------------
// circuit side

/// Pack `D` lifted-base targets into one extension target (Σ t_i·X^i), as the repository's
/// tests and `pack_lifted_to_ext` do for Merkle caps.
fn pack_lifted_targets(b: &mut CircuitBuilder<CF>, lifted: &[Target]) -> Vec<Target> {
    let basis: Vec<CF> = (0..D)
        .map(|i| {
            let mut c = [F::ZERO; D];
            c[i] = F::ONE;
            ext_from(&c)
        })
        .collect();
    lifted
        .chunks(D)
        .map(|chunk| {
            let mut acc = b.define_const(CF::ZERO);
            for (i, &t) in chunk.iter().enumerate() {
                let bc = b.define_const(basis[i]);
                acc = b.mul_add(t, bc, acc);
            }
            acc
        })
        .collect()
}

struct Fixture {
    circuit: Circuit<CF>,
    op_ids: Vec<NonPrimitiveOpId>,
    is_ext: bool,
}

/// Build the verification circuit for a shape. Public inputs, in order: opened values (matrix
/// by matrix; base leaves as lifted `CF::from(v)`, extension leaves as the element itself),
/// index bits (little-endian, asserted boolean as the FRI verifier does), cap (8 lifted words
/// per entry). Private inputs: salt words, matrix by matrix.
/// `Err` = the repository's API refused the shape at build time (unsupported).
fn build_fixture<S: Scheme>(shape: &Shape, num_roots: usize) -> Result<Fixture, String> {
    let mut b = CircuitBuilder::<CF>::new();
    S::enable(&mut b);
    let nbits = log2_ceil_usize(shape.max_height());
    let opened: Vec<Vec<Target>> =
        shape.dims.iter().map(|&(_, w)| (0..w).map(|_| b.public_input()).collect()).collect();
    let bits = b.alloc_public_inputs(nbits, "index bits");
    for &bit in &bits {
        b.assert_bool(bit);
    }
    let cap: Vec<Vec<Target>> = (0..num_roots)
        .map(|_| {
            let lifted: Vec<Target> = (0..DIGEST).map(|_| b.public_input()).collect();
            pack_lifted_targets(&mut b, &lifted)
        })
        .collect();
    let salts: Vec<Vec<Target>> = if S::SALT > 0 {
        shape.dims.iter().map(|_| b.alloc_private_inputs(S::SALT, "salt")).collect()
    } else {
        vec![]
    };
    let dims = p3_dims(shape);
    let op_ids = S::verify_circuit(&mut b, &cap, &dims, &bits, &opened, &salts, shape.cfg.ext())
        .map_err(|e| format!("verify_batch_circuit: {}", variant(&format!("{e:?}"))))?;
    let circuit = b.build().map_err(|e| format!("build: {}", variant(&format!("{e:?}"))))?;
    Ok(Fixture { circuit, op_ids, is_ext: shape.cfg.ext() })
}

/// Ok(()) = the runner produced traces (accepted); Err(stage:variant) = rejected.
fn circuit_verdict<S: Scheme>(fx: &Fixture, o: &Opening) -> Result<(), String> {
    let mut r = fx.circuit.runner();
    let mut pubs: Vec<CF> = vec![];
    for row in &o.opened {
        if fx.is_ext {
            pubs.extend(row.chunks(D).map(ext_from));
        } else {
            pubs.extend(row.iter().map(|&v| CF::from(v)));
        }
    }
    pubs.extend(o.bits.iter().map(|&b| CF::from_bool(b)));
    for entry in &o.cap {
        pubs.extend(entry.iter().map(|&v| CF::from(v)));
    }
    r.set_public_inputs(&pubs).map_err(|e| format!("public:{}", variant(&format!("{e:?}"))))?;
    if S::SALT > 0 {
        let privs: Vec<CF> = o.salts.iter().flatten().map(|&v| CF::from(v)).collect();
        r.set_private_inputs(&privs)
            .map_err(|e| format!("private:{}", variant(&format!("{e:?}"))))?;
    }
    S::set_private(&mut r, &fx.op_ids, &o.salts, &o.siblings)
        .map_err(|e| format!("private_data:{e}"))?;
    r.run().map(|_| ()).map_err(|e| format!("run:{}", variant(&format!("{e:?}"))))
}

// ---------------------------------------------------------------------------------------
// per-shape engine

#[derive(Clone, Debug)]
struct Disagreement {
    clause: &'static str,
    shape: Shape,
    index: usize,
    fault: Fault,
    native: String,
    circuit: String,
}

#[derive(Default)]
struct Stats {
    shapes_done: AtomicU64,
    shapes_unsupported: AtomicU64,
    shapes_build_panic: AtomicU64,
    shapes_not_admitted_by_native: AtomicU64,
    shapes_cut_by_budget: AtomicU64,
    evaluations: AtomicU64,
    honest: AtomicU64,
    nontrivial: AtomicU64,
    out_of_time: AtomicBool,
}

struct Engine<'a> {
    ctx: &'a Ctx,
    stats: Stats,
    histo: Histo,
    disagreements: Mutex<Vec<Disagreement>>,
    samples: Mutex<Vec<Value>>,
}

fn verdict_str(r: &Result<(), String>) -> String {
    match r {
        Ok(()) => "accept".into(),
        Err(e) => format!("reject({e})"),
    }
}

/// Evaluate one (opening, fault) on both sides. Returns (native, circuit) verdicts; a panic on
/// either side is reported as a rejection tagged `panic`.
fn evaluate<S: Scheme>(
    nv: &NativeVerifier<S>,
    fx: &Fixture,
    honest: &Opening,
    fault: Fault,
) -> (Result<(), String>, Result<(), String>) {
    let o = apply(honest, fault);
    let n = quiet_catch(|| nv.verify(&o)).unwrap_or_else(|p| Err(format!("panic:{}", short(&p))));
    let c = quiet_catch(|| circuit_verdict::<S>(fx, &o))
        .unwrap_or_else(|p| Err(format!("panic:{}", short(&p))));
    (n, c)
}

fn short(s: &str) -> String {
    s.chars().take(120).collect()
}

fn run_shape<S: Scheme>(eng: &Engine<'_>, shape: &Shape) {
    if eng.ctx.out_of_time() {
        eng.stats.out_of_time.store(true, Ordering::Relaxed);
        eng.stats.shapes_cut_by_budget.fetch_add(1, Ordering::Relaxed);
        return;
    }
    let seed = eng.ctx.seed;
    let openings = match quiet_catch(|| native_commit_open_all::<S>(shape, seed)) {
        Ok(o) => o,
        Err(p) => {
            // the native scheme itself refuses to commit to this shape (e.g. an arity-4 tree over
            // non-power-of-two heights whose cap layer is not a power of two): nothing to compare
            eng.stats.shapes_not_admitted_by_native.fetch_add(1, Ordering::Relaxed);
            eng.histo.add(&format!("native_commit_refuses:{}:{}", shape.cfg.name(), short(&p)));
            return;
        }
    };
    let num_roots = openings[0].cap.len();
    let fx = match quiet_catch(|| build_fixture::<S>(shape, num_roots)) {
        Ok(Ok(fx)) => fx,
        Ok(Err(e)) => {
            eng.stats.shapes_unsupported.fetch_add(1, Ordering::Relaxed);
            eng.histo.add(&format!("unsupported:{}:{e}", shape.cfg.name()));
            return;
        }
        Err(p) => {
            eng.stats.shapes_build_panic.fetch_add(1, Ordering::Relaxed);
            eng.histo.add(&format!("build_panic:{}:{}", shape.cfg.name(), short(&p)));
            return;
        }
    };
    let nv = NativeVerifier::<S>::new(shape, seed);
    let mut local: BTreeMap<String, u64> = BTreeMap::new();
    let mut evals = 0u64;
    let mut nontrivial = 0u64;
    let mut cut = false;
    for (index, honest) in openings.iter().enumerate() {
        if eng.ctx.out_of_time() {
            cut = true;
            break;
        }
        let mut cases = vec![Fault::None];
        cases.extend(faults_of(honest));
        for fault in cases {
            let (n, c) = evaluate::<S>(&nv, &fx, honest, fault);
            evals += 1;
            if fault == Fault::None {
                if let Err(e) = &n {
                    machinery_error(&format!(
                        "native verify_batch rejects its own honest opening: {} index {index}: {e}",
                        shape.show()
                    ));
                }
                eng.stats.honest.fetch_add(1, Ordering::Relaxed);
            } else if n.is_err() {
                nontrivial += 1;
            }
            let pair = match (n.is_ok(), c.is_ok()) {
                (true, true) => "native_accept/circuit_accept",
                (false, false) => "native_reject/circuit_reject",
                (true, false) => "native_accept/circuit_reject",
                (false, true) => "native_reject/circuit_accept",
            };
            *local.entry(format!("verdicts:{}:{}:{pair}", shape.cfg.name(), fault.class())).or_insert(0) += 1;
            if let Err(e) = &c {
                *local.entry(format!("circuit_error:{e}")).or_insert(0) += 1;
            }
            if let Err(e) = &n {
                *local.entry(format!("native_error:{e}")).or_insert(0) += 1;
            }
            if n.is_ok() != c.is_ok() {
                let clause = if fault == Fault::None {
                    "honest_rejected"
                } else if n.is_ok() {
                    "native_accept_circuit_reject"
                } else {
                    "native_reject_circuit_accept"
                };
                let mut g = eng.disagreements.lock().unwrap();
                if g.len() < 200_000 {
                    g.push(Disagreement {
                        clause,
                        shape: shape.clone(),
                        index,
                        fault,
                        native: verdict_str(&n),
                        circuit: verdict_str(&c),
                    });
                }
            }
        }
    }
    for (k, v) in local {
        eng.histo.add_n(&k, v);
    }
    eng.stats.evaluations.fetch_add(evals, Ordering::Relaxed);
    eng.stats.nontrivial.fetch_add(nontrivial, Ordering::Relaxed);
    if cut {
        eng.stats.out_of_time.store(true, Ordering::Relaxed);
        eng.stats.shapes_cut_by_budget.fetch_add(1, Ordering::Relaxed);
    } else {
        eng.stats.shapes_done.fetch_add(1, Ordering::Relaxed);
    }
    // Samples for the evidence file: for a few mid-sized mixed-height shapes, the honest opening
    // of the last index and the first fault of every class, with both verdicts, written out.
    let hs: Vec<usize> = shape.dims.iter().map(|d| d.0).collect();
    if shape.dims.len() == 2 && hs[0] != hs[1] && shape.max_height() == 8 && shape.cap_height == 1 {
        let mut s = eng.samples.lock().unwrap();
        if s.iter().filter(|v| v["scheme"] == shape.cfg.name()).count() == 0 && s.len() < 8 {
            let index = openings.len() - 1;
            let o = &openings[index];
            let mut cases = vec![];
            let mut seen = std::collections::BTreeSet::new();
            for f in std::iter::once(Fault::None).chain(faults_of(o)) {
                if seen.insert(f.class()) {
                    let (n, c) = evaluate::<S>(&nv, &fx, o, f);
                    cases.push(json!({"fault": format!("{f:?}"), "native": verdict_str(&n), "circuit": verdict_str(&c)}));
                }
            }
            s.push(json!({
                "scheme": shape.cfg.name(),
                "shape": shape.show(),
                "index": index,
                "num_roots": num_roots,
                "proof_siblings": o.siblings.len(),
                "faults_per_index": faults_of(o).len(),
                "mmcs_op_id_occurrences": fx.op_ids.len(),
                "circuit_ops": fx.circuit.ops.len(),
                "cases": cases,
            }));
        }
    }
}

fn dispatch(eng: &Engine<'_>, shape: &Shape) {
    match shape.cfg {
        Cfg::A2B | Cfg::A2E => run_shape::<A2>(eng, shape),
        Cfg::A2BH4 | Cfg::A2EH4 => run_shape::<A2H<4>>(eng, shape),
        Cfg::A2BH3 | Cfg::A2EH3 => run_shape::<A2H<3>>(eng, shape),
        Cfg::A4B | Cfg::A4E => run_shape::<A4>(eng, shape),
    }
}

/// Re-run one stored case verbosely.
fn replay_case<S: Scheme>(shape: &Shape, index: usize, fault: Fault, seed: u64) -> Option<Disagreement> {
    let openings = native_commit_open_all::<S>(shape, seed);
    let num_roots = openings[0].cap.len();
    println!("shape {} num_roots={num_roots} siblings={}", shape.show(), openings[index].siblings.len());
    let fx = match build_fixture::<S>(shape, num_roots) {
        Ok(fx) => fx,
        Err(e) => {
            println!("  unsupported at build time: {e}");
            return None;
        }
    };
    println!(
        "  circuit: {} ops, {} MMCS op-id occurrences returned by verify_batch_circuit* (native proof has {} siblings)",
        fx.circuit.ops.len(),
        fx.op_ids.len(),
        openings[index].siblings.len()
    );
    let nv = NativeVerifier::<S>::new(shape, seed);
    let (hn, hc) = evaluate::<S>(&nv, &fx, &openings[index], Fault::None);
    println!("  honest  index={index}: native={} circuit={}", verdict_str(&hn), verdict_str(&hc));
    let (n, c) = evaluate::<S>(&nv, &fx, &openings[index], fault);
    println!("  {fault:?} index={index}: native={} circuit={}", verdict_str(&n), verdict_str(&c));
    (n.is_ok() != c.is_ok()).then(|| Disagreement {
        clause: if fault == Fault::None {
            "honest_rejected"
        } else if n.is_ok() {
            "native_accept_circuit_reject"
        } else {
            "native_reject_circuit_accept"
        },
        shape: shape.clone(),
        index,
        fault,
        native: verdict_str(&n),
        circuit: verdict_str(&c),
    })
}

fn replay_dispatch(shape: &Shape, index: usize, fault: Fault, seed: u64) -> Option<Disagreement> {
    match shape.cfg {
        Cfg::A2B | Cfg::A2E => replay_case::<A2>(shape, index, fault, seed),
        Cfg::A2BH4 | Cfg::A2EH4 => replay_case::<A2H<4>>(shape, index, fault, seed),
        Cfg::A2BH3 | Cfg::A2EH3 => replay_case::<A2H<3>>(shape, index, fault, seed),
        Cfg::A4B | Cfg::A4E => replay_case::<A4>(shape, index, fault, seed),
    }
}

// ---------------------------------------------------------------------------------------
// direct drive of the cap multiplexer through the hook

/// For cap heights 0..=3: a circuit `selected = select_cap_entry(cap, bits); connect(selected,
/// expected)`; every index × every choice of `expected` among the cap entries. Reference:
/// accepted ⇔ expected == cap[index]. Returns (evaluations, violations as (key, what)).
#[cfg(p3_recursion_verif)]
fn mux_check(histo: &Histo) -> (u64, Vec<(String, String, Value)>) {
    use p3_recursion::pcs::mmcs::verif_select_cap_entry;
    let limbs = 2usize;
    let mut evals = 0u64;
    let mut bad = vec![];
    for h in 0..=3usize {
        let n = 1usize << h;
        let mut b = CircuitBuilder::<CF>::new();
        let cap: Vec<Vec<Target>> =
            (0..n).map(|_| b.alloc_public_inputs(limbs, "cap").to_vec()).collect();
        let bits = b.alloc_public_inputs(h, "bits");
        let expected = b.alloc_public_inputs(limbs, "expected");
        let sel = verif_select_cap_entry(&mut b, &cap, &bits);
        for (s, e) in sel.iter().zip(&expected) {
            b.connect(*s, *e);
        }
        let circuit = match b.build() {
            Ok(c) => c,
            Err(e) => machinery_error(&format!("mux circuit build failed: {e:?}")),
        };
        let cap_vals: Vec<Vec<CF>> = (0..n)
            .map(|c| (0..limbs).map(|l| CF::from_basis_coefficients_fn(|k| entry(77, c, l, k, 0))).collect())
            .collect();
        for index in 0..n {
            for exp in 0..n {
                let mut pubs: Vec<CF> = cap_vals.iter().flatten().copied().collect();
                pubs.extend((0..h).map(|k| CF::from_bool((index >> k) & 1 == 1)));
                pubs.extend(cap_vals[exp].iter().copied());
                let got = quiet_catch(|| {
                    let mut r = circuit.runner();
                    r.set_public_inputs(&pubs).is_ok() && r.run().is_ok()
                })
                .unwrap_or(false);
                evals += 1;
                let want = exp == index;
                histo.add(&format!("mux:h{h}:{}", if got { "accept" } else { "reject" }));
                if got != want {
                    bad.push((
                        format!("mux:cap_height={h}:index={index}:expected_entry={exp}"),
                        format!(
                            "select_cap_entry(cap of {n}, bits of index {index}) {} entry {exp}",
                            if got { "equals" } else { "differs from" }
                        ),
                        json!({"mux": {"cap_height": h, "index": index, "expected_entry": exp}}),
                    ));
                }
            }
        }
    }
    (evals, bad)
}
#[cfg(not(p3_recursion_verif))]
fn mux_check(_histo: &Histo) -> (u64, Vec<(String, String, Value)>) {
    (0, vec![])
}

// ---------------------------------------------------------------------------------------

/// Abstraction of a dimension vector used in violation keys: the distinct power-of-two-padded
/// heights, tallest first (this is what determines the tree's level structure: where rows are
/// injected and, for arity 4, where binary bridge levels appear). Widths, multiplicities,
/// matrix order and the index are deliberately not part of the key; the replay file holds the
/// simplest concrete case of the class.
fn levels_of(shape: &Shape) -> String {
    let mut hs: Vec<usize> = shape.dims.iter().map(|d| d.0.next_power_of_two()).collect();
    hs.sort_unstable_by(|a, b| b.cmp(a));
    hs.dedup();
    hs.iter().map(|h| h.to_string()).collect::<Vec<_>>().join(">")
}

fn report_disagreements(report: &Report, ds: &[Disagreement]) {
    // (1) Subsumption: when the HONEST opening of (shape, index) is already rejected by the
    // circuit, every native-accepted fault at that (shape, index) is rejected for the same
    // reason; only the honest case is reported.
    let honest_bad: std::collections::BTreeSet<(&Shape, usize)> = ds
        .iter()
        .filter(|d| d.fault == Fault::None)
        .map(|d| (&d.shape, d.index))
        .collect();
    // (2) One violation per (clause, scheme, fault class, level structure, cap height, verdict
    // signatures). Replay = simplest concrete case of the class (fewest matrices, smallest
    // height, smallest widths, lowest index, first fault).
    let mut groups: BTreeMap<String, Vec<&Disagreement>> = BTreeMap::new();
    for d in ds {
        if d.fault != Fault::None && honest_bad.contains(&(&d.shape, d.index)) {
            continue;
        }
        let key = if d.fault == Fault::None {
            format!(
                "honest_rejected:{}:levels={}:cap={}:{}",
                d.shape.cfg.name(),
                levels_of(&d.shape),
                d.shape.cap_height,
                d.circuit
            )
        } else {
            format!(
                "{}:{}:{}:levels={}:cap={}:native {}/circuit {}",
                d.clause,
                d.shape.cfg.name(),
                d.fault.class(),
                levels_of(&d.shape),
                d.shape.cap_height,
                d.native,
                d.circuit
            )
        };
        groups.entry(key).or_default().push(d);
    }
    for (key, mut v) in groups {
        v.sort_by_key(|d| (d.shape.size_key(), d.index, d.fault));
        let d = v[0];
        let what = format!(
            "{} index {} fault {:?}: native {} but circuit {}",
            d.shape.show(),
            d.index,
            d.fault,
            d.native,
            d.circuit,
        );
        let replay = json!({"shape": d.shape, "index": d.index, "fault": d.fault});
        for _ in 0..v.len() {
            report.violation(key.clone(), what.clone(), replay.clone());
        }
    }
}

fn main() {
    vpcore::install_quiet_panic_hook();
    let ctx = Ctx::from_args("C08", "fault_enumeration");
    let report = Report::new();

    if let Some(path) = &ctx.replay {
        let r = vpcore::load_replay(path);
        if r.get("mux").is_some() {
            let h = Histo::new();
            let (evals, bad) = mux_check(&h);
            for (k, w, rp) in bad {
                println!("  {w}");
                report.violation(k, w, rp);
            }
            let cov = json!({"evaluations": evals, "distinct_nontrivial": evals, "rule": "replay of the mux check", "samples": [r], "replay": true});
            finish(&ctx, cov, vec![], &report);
        }
        let shape: Shape = vpcore::serde_json::from_value(r["shape"].clone())
            .unwrap_or_else(|e| machinery_error(&format!("bad replay shape: {e}")));
        let index = r["index"].as_u64().unwrap_or(0) as usize;
        let fault: Fault = vpcore::serde_json::from_value(r["fault"].clone())
            .unwrap_or_else(|e| machinery_error(&format!("bad replay fault: {e}")));
        if let Some(d) = replay_dispatch(&shape, index, fault, ctx.seed) {
            report_disagreements(&report, &[d]);
        }
        let cov = json!({"evaluations": 2, "distinct_nontrivial": 2, "rule": "replay of one stored case (honest + fault)", "samples": [r], "replay": true});
        finish(&ctx, cov, vec![], &report);
    }

    let quick = ctx.quick();
    let mut all = shapes(quick);
    if let Some(c) = ctx.opt("cfg") {
        all.retain(|s| s.cfg.name() == c);
    }
    if let Some(m) = ctx.opt("max_mats").and_then(|s| s.parse::<usize>().ok()) {
        all.retain(|s| s.dims.len() <= m);
    }
    let total_shapes = all.len();
    // cheap shapes first: if the wall-clock budget runs out on a slow machine, what is cut is
    // the largest shapes (reported: exhaustive=false, shapes_cut_by_budget), never the small ones
    all.sort_by_key(|s| s.cost());

    let eng = Engine {
        ctx: &ctx,
        stats: Stats::default(),
        histo: Histo::new(),
        disagreements: Mutex::new(vec![]),
        samples: Mutex::new(vec![]),
    };

    let (mux_evals, mux_bad) = mux_check(&eng.histo);
    for (k, w, rp) in mux_bad {
        report.violation(k, w, rp);
    }

    all.par_iter().with_max_len(1).for_each(|s| dispatch(&eng, s));

    let ds = eng.disagreements.lock().unwrap().clone();
    report_disagreements(&report, &ds);

    let mut bad_shapes: BTreeMap<String, u64> = BTreeMap::new();
    for d in &ds {
        *bad_shapes.entry(format!("{} [{}]", d.shape.show(), d.clause)).or_insert(0) += 1;
    }
    if ctx.opt("verbose").is_some() {
        for (s, n) in &bad_shapes {
            println!("  disagreeing shape: {s} × {n}");
        }
    }

    let st = &eng.stats;
    let evaluations =st.evaluations.load(Ordering::Relaxed) + mux_evals;
    let nontrivial = st.nontrivial.load(Ordering::Relaxed);
    let h = eng.histo.to_json();
    let sum_pair = |pair: &str| -> u64 {
        h.as_object()
            .map(|m| {
                m.iter()
                    .filter(|(k, _)| k.starts_with("verdicts:") && k.ends_with(pair))
                    .map(|(_, v)| v.as_u64().unwrap_or(0))
                    .sum()
            })
            .unwrap_or(0)
    };
    let aa = sum_pair("native_accept/circuit_accept");
    let rr = sum_pair("native_reject/circuit_reject");
    let ar = sum_pair("native_accept/circuit_reject");
    let ra = sum_pair("native_reject/circuit_accept");
    println!(
        "C08 shapes: listed {total_shapes}, fully enumerated {}, unsupported {}, build panics {}, native refuses to commit {}, cut by budget {}",
        st.shapes_done.load(Ordering::Relaxed),
        st.shapes_unsupported.load(Ordering::Relaxed),
        st.shapes_build_panic.load(Ordering::Relaxed),
        st.shapes_not_admitted_by_native.load(Ordering::Relaxed),
        st.shapes_cut_by_budget.load(Ordering::Relaxed),
    );
    println!(
        "C08 evaluations {evaluations} (honest {}, faults native rejects {nontrivial}); verdict pairs: accept/accept {aa}, reject/reject {rr}, native_accept/circuit_reject {ar}, native_reject/circuit_accept {ra}; mux {mux_evals}",
        st.honest.load(Ordering::Relaxed)
    );
    // The differential is meaningless if one verdict never occurs on a side.
    if ds.is_empty() && (aa == 0 || rr == 0) && ctx.opt("cfg").is_none() {
        machinery_error(&format!("degenerate run: accept/accept={aa}, reject/reject={rr}"));
    }
    let exhaustive = !st.out_of_time.load(Ordering::Relaxed)
        && ctx.opt("cfg").is_none()
        && ctx.opt("max_mats").is_none();

    let cov = json!({
        "evaluations": evaluations,
        "distinct_nontrivial": nontrivial,
        "rule": "cases are enumerated, not sampled: every (shape, leaf index, single fault) of the explicit shape list; all triples are distinct by construction; a case is non-trivial when the fault makes the NATIVE verifier reject (faults the native verifier ignores — untouched cap entries, rows of matrices above the cap layer — and honest openings are counted separately in verdict_pairs.accept_accept)",
        "samples": *eng.samples.lock().unwrap(),
        "exhaustive": exhaustive,
        "shapes_listed": total_shapes,
        "shapes_fully_enumerated": st.shapes_done.load(Ordering::Relaxed),
        "shapes_unsupported_by_api_at_build_time": st.shapes_unsupported.load(Ordering::Relaxed),
        "shapes_build_panic": st.shapes_build_panic.load(Ordering::Relaxed),
        "shapes_native_commit_refuses": st.shapes_not_admitted_by_native.load(Ordering::Relaxed),
        "shapes_cut_by_budget": st.shapes_cut_by_budget.load(Ordering::Relaxed),
        "honest_openings": st.honest.load(Ordering::Relaxed),
        "verdict_pairs": {"accept_accept": aa, "reject_reject": rr, "native_accept_circuit_reject": ar, "native_reject_circuit_accept": ra},
        "mux_hook_evaluations": mux_evals,
        "statically_unsupported": ["arity-4 × hiding: verify_batch_circuit_arity4 / _from_extension_opened_arity4 take no salts"],
        "alphabet": {
            "schemes": configs(quick).iter().map(|c| c.name()).collect::<Vec<_>>(),
            "cap_heights": [0, 1, 2],
            "dimension_vectors": dimension_vectors(quick).len(),
            "widths": WIDTHS,
            "faults": ["opened base coefficient +1", "salt word +1", "sibling digest word +1", "index bit flipped", "cap word +1"],
        },
        "histogram": h,
        "raw_disagreements": ds.len(),
        "disagreeing_shapes": bad_shapes.iter().take(60).map(|(s, n)| format!("{s} × {n}")).collect::<Vec<_>>(),
    });
    finish(
        &ctx,
        cov,
        vec![
            "native p3 MerkleTreeMmcs / MerkleTreeHidingMmcs / ExtensionMmcs (crates.io 0.6) is the specification".into(),
            "circuit verdict = CircuitRunner::run() Ok/Err with the honest executors (no adversarial witness search); AIR-level soundness of the Poseidon2 table is C11/C13".into(),
            "KoalaBear, quartic extension, Poseidon2 W16 (arity 2) and W32 (arity 4) only; value faults are +1 on one base-field word".into(),
            "matrix contents and salts are a deterministic function of VERIF_SEED; the set of shapes/indices/faults does not depend on it".into(),
        ],
        &report,
    );
}
