fn main() {
    eprintln!("MACHINERY-ERROR: check c08 not built yet");
    std::process::exit(2);
}
