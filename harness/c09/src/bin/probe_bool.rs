//! probe: is booleanity of a decompose_to_bits bit enforced by an accepted proof?
use p3_baby_bear::BabyBear;
use p3_circuit::CircuitBuilder;
use p3_circuit::ops::AluOpKind;
use p3_circuit_prover::batch_stark_prover::TablePacking;
use p3_field::PrimeCharacteristicRing;
use vpe1::accept::prove_verify_bb1;
type F = BabyBear;
fn main() {
    let mut b = CircuitBuilder::<F>::new();
    let x = b.public_input();
    let bits = b.decompose_to_bits::<F>(x, 2).unwrap();
    let _ = bits;
    let circuit = b.build().unwrap();
    for op in &circuit.ops { println!("op {op:?}"); }
    let mut r = circuit.runner();
    r.set_public_inputs(&[F::from_u64(2)]).unwrap();
    let mut traces = r.run().unwrap();
    println!("honest: {:?}", prove_verify_bb1(&circuit, &traces, &TablePacking::default()));
    println!("alu rows kinds {:?}", traces.alu_trace.op_kind);
    // forge: bit0 = 2, bit1 = 0  (2*1 + 0*2 = 2)
    let n = traces.alu_trace.values.len();
    for i in 0..n {
        println!("row {i} kind {:?} idx {:?} vals {:?}", traces.alu_trace.op_kind[i], traces.alu_trace.indices[i], traces.alu_trace.values[i]);
    }
    // witness slot of bit0 / bit1: the BoolCheck rows' out index
    let bool_rows: Vec<usize> = (0..n).filter(|&i| traces.alu_trace.op_kind[i] == AluOpKind::BoolCheck).collect();
    let w0 = traces.alu_trace.indices[bool_rows[0]][3];
    let w1 = traces.alu_trace.indices[bool_rows[1]][3];
    let two = F::from_u64(2);
    // malicious assignment: bit0 = 2, bit1 = 0. Re-derive every row from it, except that the
    // BoolCheck rows keep a boolean value in their (floating) `a` column.
    let mut map: std::collections::HashMap<u32, F> = std::collections::HashMap::new();
    map.insert(w0.0, two);
    map.insert(w1.0, F::ZERO);
    for i in 0..n {
        let idx = traces.alu_trace.indices[i];
        let kind = traces.alu_trace.op_kind[i];
        let v = &mut traces.alu_trace.values[i];
        for j in 0..4 { if let Some(x) = map.get(&idx[j].0) { v[j] = *x; } }
        match kind {
            AluOpKind::BoolCheck => { v[0] = F::ZERO; /* a: floating, boolean */ }
            AluOpKind::MulAdd => { let o = v[0]*v[1]+v[2]; if v[3] != o { println!("row {i}: muladd out {:?} -> {:?}", v[3], o); v[3] = o; map.insert(idx[3].0, o); } }
            _ => {}
        }
    }
    for i in 0..n {
        println!("forged row {i} kind {:?} idx {:?} vals {:?}", traces.alu_trace.op_kind[i], traces.alu_trace.indices[i], traces.alu_trace.values[i]);
    }
    println!("forged (bit0=2, bit1=0): {:?}", prove_verify_bb1(&circuit, &traces, &TablePacking::default()));
}
