//! probe: can a prover start a Horner chain from an arbitrary accumulator (separator row out)?
use std::any::Any;
use p3_baby_bear::BabyBear;
use p3_circuit::CircuitBuilder;
use p3_circuit_prover::batch_stark_prover::TablePacking;
use p3_field::{Field, PrimeCharacteristicRing};
use p3_matrix::dense::RowMajorMatrix;
use p3_matrix::Matrix;
use vpe1::accept::prove_verify_bb1;
type F = BabyBear;
fn main() {
    let mut b = CircuitBuilder::<F>::new();
    let alpha = b.public_input();
    let z = b.public_input();
    let x = b.public_input();
    let e = b.public_input();
    let zero = b.define_const(F::ZERO);
    let h = b.horner_acc_step(zero, alpha, z, x);
    b.connect(h, e);
    let circuit = b.build().unwrap();
    for op in &circuit.ops { println!("op {op:?}"); }
    let (al, zv, xv) = (F::from_u64(3), F::from_u64(10), F::from_u64(4));
    let honest_e = zv - xv; // 6
    let mut r = circuit.runner();
    r.set_public_inputs(&[al, zv, xv, honest_e]).unwrap();
    let mut traces = r.run().unwrap();
    println!("honest: {:?}", prove_verify_bb1(&circuit, &traces, &TablePacking::default()));
    // false claim: e' = 100
    let e2 = F::from_u64(100);
    let acc0 = (e2 - zv + xv) * al.inverse();
    println!("public trace {:?}", traces.public_trace.values);
    let n = traces.public_trace.values.len();
    traces.public_trace.values[n - 1] = e2;
    for i in 0..traces.alu_trace.values.len() {
        println!("alu row {i} {:?} {:?} {:?}", traces.alu_trace.op_kind[i], traces.alu_trace.indices[i], traces.alu_trace.values[i]);
        if traces.alu_trace.op_kind[i] == p3_circuit::ops::AluOpKind::HornerAcc { traces.alu_trace.values[i][3] = e2; }
    }
    println!("forged without separator tamper: {:?}", prove_verify_bb1(&circuit, &traces, &TablePacking::default()));
    p3_circuit_prover::verif_hooks::set_matrix_tamper(Some(Box::new(move |any: &mut dyn Any| {
        let ms = any.downcast_mut::<Vec<RowMajorMatrix<F>>>().expect("matrix type");
        let alu = &mut ms[2];
        println!("alu matrix {}x{}", alu.height(), alu.width());
        for r in 0..alu.height() { println!("  row {r}: {:?}", alu.row_slice(r).unwrap().iter().map(|v| format!("{v}")).collect::<Vec<_>>()); }
        // separator row = row 0, lane 0 cols [a,b,c,out]
        alu.values[3] = acc0;
    })));
    let v = prove_verify_bb1(&circuit, &traces, &TablePacking::default());
    p3_circuit_prover::verif_hooks::set_matrix_tamper(None);
    println!("forged WITH separator out = acc0: {:?}", v);
}
