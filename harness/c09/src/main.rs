//! C09 — every witness slot has one creator and balanced multiplicities; every operand an
//! operation's relation depends on takes part in the witness bus.
//!
//! Exhaustive exploration (E1) of builder programs; for each compiled circuit the REAL
//! preparation code (`get_airs_and_degrees_with_prep`) produces the final per-op preprocessed
//! values (bus index + signed multiplicity of every port of every Const / Public / ALU row).
//! The audit groups them by slot — no witness values are needed, the bus index and the
//! multiplicity of every interaction are functions of preprocessed data only:
//!   (1) a slot that some port reads has exactly one creator port,
//!   (2) the creator's multiplicity equals the number of reader ports,
//!   (3) a port the op's relation depends on (a,b,out; c for mul-add/Horner) with effective
//!       multiplicity 0 must be the only mention of its slot (otherwise it floats free of
//!       the value other rows see).
//! Second opinion on a budgeted subset: honest traces through the prover with p3's
//! `check_lookups` multiset debug check switched on.

mod npo;

use std::sync::Mutex;
use std::sync::atomic::{AtomicU64, Ordering};

use p3_baby_bear::BabyBear;
use p3_batch_stark::ProverData;
use p3_circuit::Circuit;
use p3_circuit_prover::batch_stark_prover::{BatchStarkProver, CircuitProverData, TablePacking};
use p3_circuit_prover::common::get_airs_and_degrees_with_prep;
use p3_circuit_prover::config::BabyBearConfig;
use p3_circuit_prover::ConstraintProfile;
use p3_field::{PrimeCharacteristicRing, PrimeField64};
use vpcore::serde_json::{Value, json};
use vpcore::{Ctx, Histo, Report, finish, quiet_catch};
use vpe1::bus::{BusFinding, audit, ports, ports_from_matrices, prepare, slot_sources};
use vpe1::explore::{SeenSet, Stats, explore, input_vectors};
use vpe1::families::{families, families_scaled};
use vpe1::prog::{Program, materialize, ref_eval, remove_call};

type F = BabyBear;

fn consts() -> Vec<F> {
    vec![F::ZERO, F::ONE, F::from_u64(5), F::from_u64(7)]
}
/// p3's own multiset check on an honest execution (panics inside the prover on imbalance).
fn debug_lookup_check(circuit: &Circuit<F>, pubs: &[F], privs: &[F]) -> Result<(), String> {
    let mut r = circuit.runner();
    r.set_public_inputs(pubs).map_err(|e| format!("run: {e:?}"))?;
    r.set_private_inputs(privs).map_err(|e| format!("run: {e:?}"))?;
    let traces = r.run().map_err(|e| format!("run: {e:?}"))?;
    let res = quiet_catch(|| {
        let cfg = vpe1::accept::fast_baby_bear();
        let (ad, prim, np) = get_airs_and_degrees_with_prep::<BabyBearConfig, _, 1>(circuit, &TablePacking::default(), &[], &[], ConstraintProfile::Standard).map_err(|e| format!("prep: {e:?}"))?;
        let (airs, degs): (Vec<_>, Vec<usize>) = ad.into_iter().unzip();
        let pd = ProverData::from_airs_and_degrees(&cfg, &airs, &degs);
        let cpd = CircuitProverData::new(pd, prim, np);
        let mut prover = BatchStarkProver::new(cfg);
        prover = prover.with_debug_lookups();
        prover.prove_all_tables(&traces, &cpd).map(|_| ()).map_err(|e| format!("prove: {e:?}"))
    });
    match res {
        Ok(Ok(())) => Ok(()),
        Ok(Err(e)) => Err(e),
        Err(p) => Err(format!("lookup debug check panicked: {p}")),
    }
}

struct Checked {
    findings: Vec<BusFinding>,
}

fn check_program(p: &Program, cs: &[F], h: Option<&Histo>) -> Option<Checked> {
    let m = materialize::<F, F>(p, cs).ok()?;
    let nodes = m.nodes.clone();
    let circuit = m.builder.build().ok()?;
    let sources = slot_sources(&nodes, &circuit);
    // default packing for every program; programs with Horner chains also under the packings
    // that change the schedule (packing factor 3 and 4, two lanes)
    let n_horner = circuit.ops.iter().filter(|o| matches!(o, p3_circuit::ops::Op::Alu { kind: p3_circuit::ops::AluOpKind::HornerAcc, .. })).count();
    let mut packings = vec![("default", TablePacking::default())];
    if n_horner >= 2 {
        packings.push(("alu1-k3", TablePacking::new(1, 1).with_horner_pack_k(3)));
        packings.push(("alu1-k4", TablePacking::new(1, 1).with_horner_pack_k(4)));
        packings.push(("alu2-k3", TablePacking::new(2, 2).with_horner_pack_k(3)));
    } else if n_horner == 1 {
        packings.push(("alu2-k2", TablePacking::new(2, 2)));
    }
    let mut findings: Vec<BusFinding> = vec![];
    for (name, packing) in packings {
        let ps = match ports_from_matrices(&circuit, &packing) {
            Ok(x) => x,
            Err(e) if e.starts_with("layout:") => vpcore::machinery_error(&format!("C09 cannot read preprocessed layout: {e}")),
            Err(e) => {
                if let Some(h) = h {
                    h.add(&format!("prep_err:{}", e.split(|c: char| !c.is_alphanumeric()).nth(1).unwrap_or("")));
                }
                return None;
            }
        };
        for mut f in audit(&ps, &sources) {
            if name != "default" {
                f.detail = format!("[packing {name}] {}", f.detail);
            }
            if !findings.iter().any(|g: &BusFinding| g.key() == f.key()) {
                findings.push(f);
            }
        }
    }
    // the per-op view (before scheduling) must agree with the default matrices on balance
    if let Ok(prim) = prepare(&circuit)
        && let Ok(ps) = ports(&circuit, &prim)
    {
        for f in audit(&ps, &sources) {
            if !findings.iter().any(|g| g.key() == f.key()) {
                findings.push(f);
            }
        }
    }
    if let Some(h) = h {
        h.add(if findings.is_empty() { "balanced" } else { "unbalanced" });
    }
    Some(Checked { findings })
}

fn minimise(p: &Program, clause: &str, cs: &[F]) -> Program {
    let fails = |q: &Program| check_program(q, cs, None).is_some_and(|c| c.findings.iter().any(|f| f.key() == clause));
    let mut cur = p.clone();
    loop {
        let mut improved = false;
        for j in (0..cur.calls.len()).rev() {
            if let Some(q) = remove_call(&cur, j)
                && fails(&q)
            {
                cur = q;
                improved = true;
                break;
            }
        }
        if !improved {
            return cur;
        }
    }
}

fn main() {
    vpcore::install_quiet_panic_hook();
    let ctx = Ctx::from_args("C09", "model_checking");
    let cs = consts();
    let report = Report::new();

    if let Some(path) = &ctx.replay {
        let r = vpcore::load_replay(path);
        if !r["shape"].is_null() {
            let sh: npo::Shape = vpcore::serde_json::from_value(r["shape"].clone()).unwrap_or_else(|e| vpcore::machinery_error(&format!("bad replay: {e}")));
            println!("replaying npo shape: {}", sh.show());
            if let Ok(b) = npo::build(&sh, npo::k_val()) {
                for op in &b.circuit.ops {
                    println!("  op {op:?}");
                }
                if let Ok(prep) = npo::prepare(&b.circuit) {
                    for pt in npo::ports(&prep).unwrap_or_default() {
                        println!("  port {pt:?}");
                    }
                }
            }
            if let Some(c) = npo::census(&sh, None) {
                for f in c.findings {
                    println!("  [{}] {}", f.key, f.detail);
                    report.violation(f.key.clone(), f.detail.clone(), json!({"shape": sh}));
                }
            }
            println!("  honest run: {:?}", npo::second_opinion(&sh));
            let cov = json!({"states":1,"transitions":1,"traces_validated_against_impl":1,"samples":[sh.show()],"replay":true});
            finish(&ctx, cov, vec![], &report);
        }
        let p: Program = vpcore::serde_json::from_value(r["program"].clone()).unwrap_or_else(|e| vpcore::machinery_error(&format!("bad replay: {e}")));
        println!("replaying: {}", p.show());
        if let Ok(m) = materialize::<F, F>(&p, &cs) {
            if let Ok(c) = m.builder.build() {
                for op in &c.ops {
                    println!("  op {op:?}");
                }
                if let Ok(prim) = prepare(&c) {
                    for pt in ports(&c, &prim).unwrap_or_default() {
                        println!("  port {pt:?}");
                    }
                }
            }
        }
        if let Some(c) = check_program(&p, &cs, None) {
            for f in c.findings {
                println!("  [{}] {}", f.key(), f.detail);
                report.violation(f.key(), f.detail.clone(), json!({"program": p}));
            }
        }
        let cov = json!({"states":1,"transitions":1,"traces_validated_against_impl":1,"samples":[p.show()],"replay":true});
        finish(&ctx, cov, vec![], &report);
    }

    let histo = Histo::new();
    // second space first (fixed share of the budget): shapes with one or two non-primitive ops
    let npo_cov = if ctx.opt("family").is_some() { json!(null) } else { npo::run(&ctx, &report, &histo, if ctx.quick() { 0.36 } else { 0.45 }) };

    let mut fams = families_scaled(if ctx.quick() { 1 } else { 2 });
    if let Some(f) = ctx.opt("family") {
        fams = families(true).into_iter().chain(families(false)).chain(families_scaled(1)).filter(|x| x.name == f).collect();
    }
    if ctx.opt("npo-only").is_some() {
        fams.clear();
    }
    let seen_keys = SeenSet::default();
    let samples: Mutex<Vec<Value>> = Mutex::new(vec![]);
    let audited = AtomicU64::new(0);
    let raw = AtomicU64::new(0);
    let minimise_budget = AtomicU64::new(0);
    let dbg_budget = AtomicU64::new(if ctx.quick() { 300 } else { 20000 });
    let dbg_done = AtomicU64::new(0);
    let mut fam_reports = vec![];
    let (mut th, mut tc) = (0u64, 0u64);
    let mut all_exhaustive = true;

    for (fi, fam) in fams.iter().enumerate() {
        let stats = Stats::default();
        let seen_prune = SeenSet::default();
        let stop_at = 0.93; let _ = fi; // families run smallest first; whatever does not fit is cut and reported
        let t0 = ctx.elapsed_s();
        explore::<F, F>(fam, &cs, &ctx, stop_at, &seen_keys, &seen_prune, &stats, &|_p, _m| {}, &|p, _m| {
            let Some(c) = check_program(p, &cs, Some(&histo)) else { return };
            audited.fetch_add(1, Ordering::Relaxed);
            let clean = c.findings.is_empty();
            for f in c.findings {
                raw.fetch_add(1, Ordering::Relaxed);
                let (q, minimised) = if minimise_budget.fetch_update(Ordering::Relaxed, Ordering::Relaxed, |b| b.checked_sub(1)).is_ok() {
                    (minimise(p, &f.key(), &cs), true)
                } else {
                    (p.clone(), false)
                };
                report.violation_sized(
                    f.key(),
                    format!("[{}] e.g. {} — {}", f.key(), q.show(), f.detail),
                    json!({"program": q, "found_in": p, "clause": f.clause, "features": f.features, "detail": f.detail, "minimised": minimised}),
                    q.show().len(),
                );
            }
            // second opinion: p3's multiset check on an honest run of audit-clean programs
            if clean && dbg_budget.fetch_update(Ordering::Relaxed, Ordering::Relaxed, |b| b.checked_sub(1)).is_ok() {
                let m = materialize::<F, F>(p, &cs).unwrap();
                let (np, nv) = (m.n_pub, m.n_priv);
                let circuit = m.builder.build().unwrap();
                let vals = [F::ZERO, F::ONE, F::TWO, F::from_u64(3)];
                // first satisfying, fully defined input vector over the alphabet
                for v in input_vectors(&vals, np + nv) {
                    let re = ref_eval::<F, F>(p, &cs, &v[..np], &v[np..]);
                    if re.undefined || !re.sat {
                        continue;
                    }
                    dbg_done.fetch_add(1, Ordering::Relaxed);
                    match debug_lookup_check(&circuit, &v[..np], &v[np..]) {
                        Ok(()) => histo.add("debug_lookups_ok"),
                        Err(e) if e.starts_with("lookup debug check panicked") => {
                            histo.add("debug_lookups_imbalance");
                            report.violation(
                                format!("audit_clean_but_multiset_unbalanced|{}", p.show()),
                                format!("{} — audit found nothing but p3 check_lookups fails on an honest run: {e}", p.show()),
                                json!({"program": p, "inputs": v.iter().map(|x| x.as_canonical_u64()).collect::<Vec<_>>()}),
                            );
                        }
                        Err(e) => histo.add(&format!("debug_lookups_other:{}", e.split(':').next().unwrap_or(""))),
                    }
                    break;
                }
            }
            let mut s = samples.lock().unwrap();
            if s.len() < 6 && p.calls.len() >= 3 {
                s.push(json!(p.show()));
            }
        });
        let h = stats.histories.load(Ordering::Relaxed);
        let c = stats.canonical.load(Ordering::Relaxed);
        let to = stats.timed_out.load(Ordering::Relaxed);
        th += h;
        tc += c;
        all_exhaustive &= !to;
        fam_reports.push(json!({"family": fam.name, "bounds": fam, "histories": h, "new_canonical_programs": c, "exhaustive": !to, "wall_s": ctx.elapsed_s() - t0}));
        eprintln!("family {} histories={} canonical={} exhaustive={} t={:.1}s", fam.name, h, c, !to, ctx.elapsed_s() - t0);
    }

    let cov = json!({
        "states": tc,
        "transitions": th,
        "traces_validated_against_impl": audited.load(Ordering::Relaxed),
        "samples": *samples.lock().unwrap(),
        "state_definition": "a state is a builder program identified by the H1 snapshot; every state is compiled and prepared by the real get_airs_and_degrees_with_prep; the audit reads the final per-op preprocessed bus indices and multiplicities",
        "families": fam_reports,
        "exhaustive": all_exhaustive,
        "programs_audited": audited.load(Ordering::Relaxed),
        "honest_runs_through_p3_check_lookups": dbg_done.load(Ordering::Relaxed),
        "outcome_histogram": histo.to_json(),
        "raw_findings": raw.load(Ordering::Relaxed),
        "npo_shape_space": npo_cov,
        "configuration": "BabyBear D=1, default TablePacking (bus indices and multiplicities do not depend on lanes)",
    });
    finish(&ctx, cov, vec![
        "effective multiplicities are read as the AIR documents them: a: mult_a*a_reader_col, c: mult_a*c_reader_col, b: mult_b, out: mult_out; Const/Public: [mult, idx]".into(),
        "a budgeted subset of audit-clean programs is cross-checked by p3_lookup::debug_util::check_lookups on honest traces".into(),
        "npo shape space (KoalaBear D=4): Const/Public/ALU ports from the final preprocessed matrices; Poseidon2 ports = in_idx with -(in_ctl)(1-merkle), out_idx with the signed out_ctl, recompose ports = [idx, mult] pairs, all from the final per-op columns the prover commits; coefficient inputs of PLAIN recompose rows never reach the bus by design (C12's subject) and are not counted as relation ports".into(),
        "npo shape space: honest prove+verify (with p3 check_lookups) runs on the first shape of every distinct census signature (same interaction structure), not on every shape".into(),
        "npo shape space, Merkle-mode rows: the Poseidon2 ports are evaluated on the FINAL preprocessed matrix of the Poseidon2 AIR (real + padding rows); the accumulator send of row r is -(mmcs_merkle_flag(r) * new_start(r+1 mod height)), i.e. next real row / first padding row / wrap-around to row 0; explicit input limbs of Merkle rows have multiplicity 0 by construction of the AIR (root cause R4, recorded under C04) and are listed as p2.in.merkle_unread mentions, not as violations of this check; for Merkle shapes the proof-selection signature also contains the row pattern of the Poseidon2 table, and an honest run that the runner accepts but that fails to prove/verify is a violation keyed npo:merkle:honest_run_fails:<what>|<class>".into(),
    ], &report);
}
