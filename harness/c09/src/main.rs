fn main() {
    eprintln!("MACHINERY-ERROR: check c09 not built yet");
    std::process::exit(2);
}
