//! C09, second space: builder shapes with one or two NON-PRIMITIVE ops (KoalaBear, D = 4,
//! Poseidon2 D4/W16 table + recompose + recompose/coeff tables).
//!
//! A *shape* is a sequence of builder statements in EMISSION ORDER plus a set of `connect`s:
//!   Perm{in0}          new_start row, inputs [in0, P1, K, K2], both rate outputs exposed
//!   PermChained{in0}   new_start = false row: limb 0 overwritten by in0 (or inherited), rest chained
//!   Alu{kind, args}    add / sub / mul / div / mul_add over the atoms available at that point
//!   Coeffs{target,ctl} decompose_ext_to_base_coeffs (hint + recompose row, plain or coeff-ctl)
//!   Bits               decompose_to_bits(PB, 3)
//!   PermMerkle{new_start,bit,index,out}
//!                      MERKLE-mode row (arity 2): new_start = leaf row with the four limbs
//!                      [P0,P1,K,K2] given explicitly; otherwise chained after the previous Merkle row,
//!                      sibling by private data; direction bit = constant 0/1; `index` = the row's
//!                      `mmcs_index_sum` is not exposed / exposed through its own public input I(p) /
//!                      through the public input IS shared by all such rows; `out` = both rate
//!                      outputs exposed
//! Atoms: P0 P1 (public), K (const), H (raw hint output), O(p,l) (perm p rate output l),
//! R(i) (i-th ALU result), C(i) (coefficient i), B(i) (bit i).
//! Every interleaving of the statements that respects data dependencies is generated, so the
//! position of each ALU op relative to the perm call(s) is exhaustively varied.
//!
//! Clause (1), census: ports of ALL tables. Const / Public / ALU from the FINAL preprocessed
//! matrices of the AIRs returned by the real `get_airs_and_degrees_with_prep`; Poseidon2 and
//! recompose ports from the final per-op columns the prover commits (third return value, after
//! `poseidon_preprocess_for_prover` / `recompose_preprocess_for_op` replaced the ctl flags by
//! signed multiplicities from `ext_reads` / `dup_npo_outputs` / `hint_output_wids`):
//!   p2.in   idx, -(in_ctl)·(1-merkle_path)       p2.out  idx, out_ctl (signed)
//!   p2.mmcs idx, -(mmcs_merkle_flag(row)·new_start(CYCLIC next row))  — evaluated on the FINAL
//!           preprocessed matrix of the Poseidon2 AIR (real rows + padding rows, height 2^k), the
//!           way the AIR's "MMCS accumulator send" is declared
//!   rc.out  idx, out_mult (signed)                rcc.coeff idx, coeff_mult (>= 0)
//! Clause (2), second opinion: honest run (inputs solved natively with the repository's
//! permutation) -> real prover with p3's `check_lookups` switched on -> real verifier.

use std::collections::{BTreeMap, BTreeSet};

use p3_air::BaseAir;
use p3_batch_stark::ProverData;
use p3_circuit::builder::NonPrimitiveOpParams;
use p3_circuit::ops::{
    AluOpKind, HintExecutor, NpoTypeId, Poseidon2Config, Poseidon2PermCall, Poseidon2PermPrivateData, generate_poseidon2_trace, generate_recompose_trace,
};
use p3_circuit::{Circuit, CircuitBuilder, CircuitError, ExprId, NonPrimitiveOpId, NpoPrivateData, WitnessId};
use p3_circuit_prover::batch_stark_prover::{poseidon2_air_builders, recompose_air_builders, recompose_table_provers};
use p3_circuit_prover::common::{CircuitTableAir, NpoPreprocessor, get_airs_and_degrees_with_prep};
use p3_circuit_prover::config::KoalaBearConfig;
use p3_circuit_prover::{BatchStarkProver, CircuitProverData, ConstraintProfile, Poseidon2Preprocessor, RecomposePreprocessor, TablePacking};
use p3_field::extension::BinomialExtensionField;
use p3_field::{BasedVectorSpace, Field, PrimeCharacteristicRing, PrimeField64};
use p3_koala_bear::{KoalaBear, default_koalabear_poseidon2_16};
use p3_matrix::Matrix;
use p3_poseidon2_circuit_air::KoalaBearD4Width16;
use p3_symmetric::Permutation;
use serde::{Deserialize, Serialize};
use vpcore::quiet_catch;

pub type Kb = KoalaBear;
pub type Kb4 = BinomialExtensionField<Kb, 4>;
const P: u64 = 0x7f00_0001;
const D: usize = 4;
const N_BITS: usize = 3;

fn signed(x: Kb) -> i64 {
    let v = x.as_canonical_u64();
    if v > P / 2 { v as i64 - P as i64 } else { v as i64 }
}

#[derive(Clone, Copy, Debug, PartialEq, Eq, Hash, PartialOrd, Ord, Serialize, Deserialize)]
pub enum Atom {
    P0,
    P1,
    K,
    H,
    /// rate output `l` of perm call `p`
    O(u8, u8),
    /// result of the i-th ALU statement
    R(u8),
    /// coefficient i of the decomposition
    C(u8),
    /// bit i of decompose_to_bits
    B(u8),
    /// output of the i-th explicit recomposition statement
    X(u8),
    /// own public input holding the exposed `mmcs_index_sum` of perm call `p` (a Merkle row)
    I(u8),
    /// the public input shared by all Merkle rows whose index is exposed as `Shared`
    IS,
}

/// How a Merkle row exposes its index accumulator.
#[derive(Clone, Copy, Debug, PartialEq, Eq, Hash, PartialOrd, Ord, Serialize, Deserialize)]
pub enum Expose {
    No,
    Own,
    Shared,
}

/// Coefficients packed by an explicit recomposition statement: four base-field public inputs
/// (set Q or a second set Q2 holding the same values) or the hinted coefficients of the earlier
/// `Coeffs` statement.
#[derive(Clone, Copy, Debug, PartialEq, Eq, Hash, PartialOrd, Ord, Serialize, Deserialize)]
pub enum CoeffSrc {
    Q,
    Q2,
    C,
}

#[derive(Clone, Copy, Debug, PartialEq, Eq, Hash, PartialOrd, Ord, Serialize, Deserialize)]
pub enum Kind {
    Add,
    Sub,
    Mul,
    Div,
    MulAdd,
}

#[derive(Clone, Debug, PartialEq, Eq, Hash, Serialize, Deserialize)]
pub enum Stmt {
    Perm { in0: Atom },
    PermChained { in0: Option<Atom> },
    Alu { kind: Kind, args: Vec<Atom> },
    Coeffs { target: Atom, ctl: bool },
    Bits,
    /// recompose_base_coeffs_to_ext (plain table) / .._with_coeff_lookups (recompose/coeff table)
    Recomp { src: CoeffSrc, ctl: bool },
    /// Merkle-mode Poseidon2 row (see the module documentation)
    PermMerkle { new_start: bool, bit: bool, index: Expose, out: bool },
}

#[derive(Clone, Debug, PartialEq, Eq, Hash, Serialize, Deserialize)]
pub struct Shape {
    pub stmts: Vec<Stmt>,
    pub connects: Vec<(Atom, Atom)>,
}

impl Shape {
    pub fn show(&self) -> String {
        let a = |x: &Atom| match x {
            Atom::P0 => "p0".to_string(),
            Atom::P1 => "p1".into(),
            Atom::K => "k".into(),
            Atom::H => "h".into(),
            Atom::O(p, l) => format!("o{p}.{l}"),
            Atom::R(i) => format!("r{i}"),
            Atom::C(i) => format!("c{i}"),
            Atom::B(i) => format!("b{i}"),
            Atom::X(i) => format!("x{i}"),
            Atom::I(p) => format!("i{p}"),
            Atom::IS => "is".into(),
        };
        let (mut np, mut na, mut nx) = (0, 0, 0);
        let mut s = vec![];
        for st in &self.stmts {
            match st {
                Stmt::Perm { in0 } => {
                    s.push(format!("(o{np}.0,o{np}.1)=perm({},p1,k,k2)", a(in0)));
                    np += 1;
                }
                Stmt::PermChained { in0 } => {
                    s.push(format!("(o{np}.0,o{np}.1)=perm_chained({})", in0.as_ref().map(a).unwrap_or("-".into())));
                    np += 1;
                }
                Stmt::Alu { kind, args } => {
                    let v: Vec<String> = args.iter().map(a).collect();
                    s.push(format!("r{na}={}({})", format!("{kind:?}").to_lowercase(), v.join(",")));
                    na += 1;
                }
                Stmt::Coeffs { target, ctl } => s.push(format!("c=coeffs{}({})", if *ctl { "_ctl" } else { "" }, a(target))),
                Stmt::Bits => s.push("b=bits(pb,3)".into()),
                Stmt::PermMerkle { new_start, bit, index, out } => {
                    let lhs = if *out { format!("(o{np}.0,o{np}.1)=") } else { String::new() };
                    let idx = match index {
                        Expose::No => String::new(),
                        Expose::Own => format!(",index=i{np}"),
                        Expose::Shared => ",index=is".into(),
                    };
                    let ins = if *new_start { "leaf(p0,p1,k,k2)" } else { "chained,sibling=private" };
                    s.push(format!("{lhs}merkle({ins},bit={}{idx})", *bit as u8));
                    np += 1;
                }
                Stmt::Recomp { src, ctl } => {
                    s.push(format!("x{nx}=recompose{}({})", if *ctl { "_ctl" } else { "" }, match src { CoeffSrc::Q => "q0..q3", CoeffSrc::Q2 => "q4..q7", CoeffSrc::C => "c0..c3" }));
                    nx += 1;
                }
            }
        }
        for (x, y) in &self.connects {
            s.push(format!("connect({},{})", a(x), a(y)));
        }
        s.join("; ")
    }
    fn uses(&self, f: impl Fn(&Atom) -> bool) -> bool {
        self.stmts.iter().any(|s| match s {
            Stmt::Perm { in0 } => f(in0),
            Stmt::PermChained { in0 } => in0.as_ref().is_some_and(&f),
            Stmt::Alu { args, .. } => args.iter().any(&f),
            Stmt::Coeffs { target, .. } => f(target),
            Stmt::Bits | Stmt::Recomp { .. } | Stmt::PermMerkle { .. } => false,
        }) || self.connects.iter().any(|(x, y)| f(x) || f(y))
    }
    pub fn uses_hint(&self) -> bool {
        self.uses(|a| *a == Atom::H)
    }
}

// ---------------------------------------------------------------------------------------------
// grammar
// ---------------------------------------------------------------------------------------------

#[derive(Clone, Debug, Serialize)]
pub struct Family {
    pub name: &'static str,
    pub max_perm: u8,
    /// a second perm may also be a chained row
    pub chained: bool,
    pub min_alu: u8,
    pub max_alu: u8,
    pub kinds: Vec<Kind>,
    /// K / P1 / second rate output usable as ALU operands
    pub wide_operands: bool,
    /// perm limb 0 may be fed by H or an ALU result (CTL-fed NPO input), not only by P0
    pub fed_inputs: bool,
    pub coeffs: bool,
    pub bits: bool,
    pub max_conn: u8,
    /// explicit recomposition statements (plain / coeff-ctl flavour); `Coeffs` + `Recomp`
    /// statements together never exceed `max_coeff_stmts`
    pub max_recomp: u8,
    pub max_coeff_stmts: u8,
    /// second public coefficient set Q2 available
    pub q2: bool,
    pub min_perm: u8,
    pub min_recomp: u8,
    /// Merkle families: the Poseidon2 rows of the shape (`min_perm..=max_perm` of them) are drawn
    /// from {sponge new_start row, Merkle leaf row, Merkle chained row} instead of the sponge forms
    pub mk: Option<Mk>,
}

#[derive(Clone, Debug, Serialize)]
pub struct Mk {
    /// sponge `new_start` rows may stand between / before / after the Merkle chains
    pub sponge_rows: bool,
    /// direction bits enumerated per Merkle row
    pub bits: Vec<bool>,
    /// index exposure forms enumerated per Merkle row
    pub index: Vec<Expose>,
    /// output exposure enumerated per Merkle row
    pub outs: Vec<bool>,
}

impl Family {
    /// all bounds zero / off (the Merkle families switch on what they use)
    fn base(name: &'static str) -> Family {
        Family { name, max_perm: 0, chained: false, min_alu: 0, max_alu: 0, kinds: vec![], wide_operands: false, fed_inputs: false, coeffs: false, bits: false, max_conn: 0, max_recomp: 0, max_coeff_stmts: 0, q2: false, min_perm: 0, min_recomp: 0, mk: None }
    }
}

pub fn families(quick: bool) -> Vec<Family> {
    use Kind::*;
    let all = vec![Add, Sub, Mul, Div, MulAdd];
    let bin = vec![Add, Sub, Mul, Div];
    if quick {
        vec![
            Family { name: "npo-1perm-1alu-1conn", max_perm: 1, chained: false, min_alu: 1, max_alu: 1, kinds: all.clone(), wide_operands: true, fed_inputs: true, coeffs: false, bits: false, max_conn: 1, max_recomp: 0, max_coeff_stmts: 1, q2: false, min_perm: 1, min_recomp: 0, mk: None },
            Family { name: "npo-2perm-1alu-submul-1conn", max_perm: 2, chained: true, min_alu: 1, max_alu: 1, kinds: vec![Sub, Mul], wide_operands: false, fed_inputs: false, coeffs: false, bits: false, max_conn: 1, max_recomp: 0, max_coeff_stmts: 1, q2: false, min_perm: 1, min_recomp: 0, mk: None },
            Family { name: "npo-1perm-coeffs-1alu-submul-1conn", max_perm: 1, chained: false, min_alu: 1, max_alu: 1, kinds: vec![Sub, Mul], wide_operands: false, fed_inputs: false, coeffs: true, bits: false, max_conn: 1, max_recomp: 0, max_coeff_stmts: 1, q2: false, min_perm: 1, min_recomp: 0, mk: None },
            Family { name: "npo-2recomp-0or1perm-le1alu-1conn", max_perm: 1, chained: false, min_alu: 0, max_alu: 1, kinds: vec![Sub, Mul], wide_operands: false, fed_inputs: false, coeffs: false, bits: false, max_conn: 1, max_recomp: 2, max_coeff_stmts: 2, q2: false, min_perm: 0, min_recomp: 1, mk: None },
            Family { name: "npo-coeffs+recomp-0or1perm-0alu-1conn", max_perm: 1, chained: false, min_alu: 0, max_alu: 0, kinds: vec![], wide_operands: false, fed_inputs: false, coeffs: true, bits: false, max_conn: 1, max_recomp: 1, max_coeff_stmts: 2, q2: false, min_perm: 0, min_recomp: 1, mk: None },
            Family { name: "npo-1perm-bits-1alu-0conn", max_perm: 1, chained: false, min_alu: 1, max_alu: 1, kinds: vec![Sub, Mul], wide_operands: false, fed_inputs: false, coeffs: false, bits: true, max_conn: 0, max_recomp: 0, max_coeff_stmts: 1, q2: false, min_perm: 1, min_recomp: 0, mk: None },
            // Merkle-mode rows: Poseidon2 tables of exactly 1, 2, 3 (padded) and 4 rows
            Family { name: "npo-merkle-le4rows-0alu-0conn", max_perm: 4, min_perm: 1, mk: Some(Mk { sponge_rows: true, bits: vec![true], index: vec![Expose::No, Expose::Own, Expose::Shared], outs: vec![false] }), ..Family::base("") },
            Family { name: "npo-merkle-le3rows-outs-0alu-0conn", max_perm: 3, min_perm: 1, mk: Some(Mk { sponge_rows: true, bits: vec![true], index: vec![Expose::No, Expose::Own], outs: vec![false, true] }), ..Family::base("") },
            Family { name: "npo-merkle-le2rows-bits-0alu-1conn", max_perm: 2, min_perm: 1, max_conn: 1, mk: Some(Mk { sponge_rows: true, bits: vec![false, true], index: vec![Expose::No, Expose::Own, Expose::Shared], outs: vec![false, true] }), ..Family::base("") },
            Family { name: "npo-merkle-le2rows-1alu-addmul-0conn", max_perm: 2, min_perm: 1, min_alu: 1, max_alu: 1, kinds: vec![Add, Mul], mk: Some(Mk { sponge_rows: true, bits: vec![true], index: vec![Expose::No, Expose::Own, Expose::Shared], outs: vec![false] }), ..Family::base("") },
            // the largest family last: on a slow machine it is the one that gets cut
            Family { name: "npo-1perm-2alu-submuldiv-1conn", max_perm: 1, chained: false, min_alu: 2, max_alu: 2, kinds: vec![Sub, Mul, Div], wide_operands: false, fed_inputs: false, coeffs: false, bits: false, max_conn: 1, max_recomp: 0, max_coeff_stmts: 1, q2: false, min_perm: 1, min_recomp: 0, mk: None },
        ]
    } else {
        let sd = vec![Sub, Mul, Div];
        let ix = vec![Expose::No, Expose::Own, Expose::Shared];
        vec![
            // Merkle-mode rows first (small families; never the ones that get cut)
            Family { name: "npo-merkle-le4rows-bits-0alu-0conn", max_perm: 4, min_perm: 1, mk: Some(Mk { sponge_rows: true, bits: vec![false, true], index: ix.clone(), outs: vec![false] }), ..Family::base("") },
            Family { name: "npo-merkle-le4rows-outs-0alu-0conn", max_perm: 4, min_perm: 1, mk: Some(Mk { sponge_rows: true, bits: vec![true], index: ix.clone(), outs: vec![false, true] }), ..Family::base("") },
            Family { name: "npo-merkle-le3rows-outs-0alu-1conn", max_perm: 3, min_perm: 1, max_conn: 1, mk: Some(Mk { sponge_rows: true, bits: vec![true], index: ix.clone(), outs: vec![false, true] }), ..Family::base("") },
            Family { name: "npo-merkle-le3rows-0alu-2conn", max_perm: 3, min_perm: 1, max_conn: 2, mk: Some(Mk { sponge_rows: true, bits: vec![true], index: ix.clone(), outs: vec![false] }), ..Family::base("") },
            Family { name: "npo-merkle-le2rows-1alu-1conn", max_perm: 2, min_perm: 1, min_alu: 1, max_alu: 1, kinds: bin.clone(), max_conn: 1, mk: Some(Mk { sponge_rows: true, bits: vec![true], index: ix.clone(), outs: vec![false] }), ..Family::base("") },
            Family { name: "npo-merkle-le2rows-bits-outs-le1alu-addmul-0conn", max_perm: 2, min_perm: 1, min_alu: 0, max_alu: 1, kinds: vec![Add, Mul], mk: Some(Mk { sponge_rows: true, bits: vec![false, true], index: ix, outs: vec![false, true] }), ..Family::base("") },
            Family { name: "npo-1perm-1alu-2conn", max_perm: 1, chained: false, min_alu: 1, max_alu: 1, kinds: all.clone(), wide_operands: true, fed_inputs: true, coeffs: false, bits: false, max_conn: 2, max_recomp: 0, max_coeff_stmts: 1, q2: false, min_perm: 1, min_recomp: 0, mk: None },
            Family { name: "npo-1perm-2alu-2conn", max_perm: 1, chained: false, min_alu: 2, max_alu: 2, kinds: bin.clone(), wide_operands: false, fed_inputs: true, coeffs: false, bits: false, max_conn: 2, max_recomp: 0, max_coeff_stmts: 1, q2: false, min_perm: 1, min_recomp: 0, mk: None },
            Family { name: "npo-1perm-2alu-all-1conn", max_perm: 1, chained: false, min_alu: 2, max_alu: 2, kinds: all.clone(), wide_operands: true, fed_inputs: true, coeffs: false, bits: false, max_conn: 1, max_recomp: 0, max_coeff_stmts: 1, q2: false, min_perm: 1, min_recomp: 0, mk: None },
            Family { name: "npo-1perm-3alu-1conn", max_perm: 1, chained: false, min_alu: 3, max_alu: 3, kinds: sd.clone(), wide_operands: false, fed_inputs: false, coeffs: false, bits: false, max_conn: 1, max_recomp: 0, max_coeff_stmts: 1, q2: false, min_perm: 1, min_recomp: 0, mk: None },
            Family { name: "npo-2perm-1alu-2conn", max_perm: 2, chained: true, min_alu: 1, max_alu: 1, kinds: all.clone(), wide_operands: false, fed_inputs: true, coeffs: false, bits: false, max_conn: 2, max_recomp: 0, max_coeff_stmts: 1, q2: false, min_perm: 1, min_recomp: 0, mk: None },
            Family { name: "npo-2perm-2alu-1conn", max_perm: 2, chained: true, min_alu: 2, max_alu: 2, kinds: bin.clone(), wide_operands: false, fed_inputs: false, coeffs: false, bits: false, max_conn: 1, max_recomp: 0, max_coeff_stmts: 1, q2: false, min_perm: 1, min_recomp: 0, mk: None },
            Family { name: "npo-1perm-coeffs-1alu-2conn", max_perm: 1, chained: false, min_alu: 1, max_alu: 1, kinds: all, wide_operands: false, fed_inputs: false, coeffs: true, bits: false, max_conn: 2, max_recomp: 0, max_coeff_stmts: 1, q2: false, min_perm: 1, min_recomp: 0, mk: None },
            Family { name: "npo-1perm-coeffs-2alu-1conn", max_perm: 1, chained: false, min_alu: 2, max_alu: 2, kinds: sd, wide_operands: false, fed_inputs: false, coeffs: true, bits: false, max_conn: 1, max_recomp: 0, max_coeff_stmts: 1, q2: false, min_perm: 1, min_recomp: 0, mk: None },
            Family { name: "npo-1perm-bits-2alu-1conn", max_perm: 1, chained: false, min_alu: 1, max_alu: 2, kinds: vec![Sub, Mul], wide_operands: false, fed_inputs: false, coeffs: false, bits: true, max_conn: 1, max_recomp: 0, max_coeff_stmts: 1, q2: false, min_perm: 1, min_recomp: 0, mk: None },
            Family { name: "npo-2recomp-q2-0or1perm-le1alu-2conn", max_perm: 1, chained: false, min_alu: 0, max_alu: 1, kinds: vec![Add, Sub, Mul, Div], wide_operands: false, fed_inputs: false, coeffs: true, bits: false, max_conn: 2, max_recomp: 2, max_coeff_stmts: 2, q2: true, min_perm: 0, min_recomp: 1, mk: None },
            Family { name: "npo-3coeffstmts-0or1perm-le1alu-1conn", max_perm: 1, chained: false, min_alu: 0, max_alu: 1, kinds: vec![Sub, Mul], wide_operands: false, fed_inputs: false, coeffs: true, bits: false, max_conn: 1, max_recomp: 2, max_coeff_stmts: 3, q2: false, min_perm: 0, min_recomp: 1, mk: None },
            Family { name: "npo-2recomp-0or1perm-2alu-1conn", max_perm: 1, chained: false, min_alu: 2, max_alu: 2, kinds: vec![Sub, Mul], wide_operands: false, fed_inputs: false, coeffs: false, bits: false, max_conn: 1, max_recomp: 2, max_coeff_stmts: 2, q2: false, min_perm: 0, min_recomp: 2, mk: None },
            Family { name: "npo-1perm-coeffs-bits-1alu-1conn", max_perm: 1, chained: false, min_alu: 1, max_alu: 1, kinds: vec![Sub, Mul], wide_operands: false, fed_inputs: false, coeffs: true, bits: true, max_conn: 1, max_recomp: 0, max_coeff_stmts: 1, q2: false, min_perm: 1, min_recomp: 0, mk: None },
        ]
    }
}

#[derive(Clone, Default)]
struct GenState {
    stmts: Vec<Stmt>,
    perms: u8,
    alus: u8,
    coeffs: bool,
    bits: bool,
    recomps: u8,
    /// the last Poseidon2 row emitted so far is a Merkle row (a chained Merkle row may follow)
    last_merkle: bool,
    /// perm calls whose rate outputs are not exposed
    hidden_outs: Vec<u8>,
    /// perm calls exposing their index through an own public input
    idx_own: Vec<u8>,
    idx_shared: bool,
}

impl GenState {
    fn operand_atoms(&self, f: &Family) -> Vec<Atom> {
        let mut v = vec![Atom::P0, Atom::H];
        if f.wide_operands {
            v.push(Atom::K);
        }
        for p in 0..self.perms {
            if self.hidden_outs.contains(&p) {
                continue;
            }
            v.push(Atom::O(p, 0));
            if f.wide_operands {
                v.push(Atom::O(p, 1));
            }
        }
        for p in &self.idx_own {
            v.push(Atom::I(*p));
        }
        if self.idx_shared {
            v.push(Atom::IS);
        }
        for i in 0..self.alus {
            v.push(Atom::R(i));
        }
        if self.coeffs {
            v.push(Atom::C(0));
        }
        if self.bits {
            v.push(Atom::B(0));
        }
        for i in 0..self.recomps {
            v.push(Atom::X(i));
        }
        v
    }
}

/// All statement sequences of the family (every dependency-respecting emission order).
pub fn sequences(f: &Family, out: &mut Vec<Vec<Stmt>>) {
    fn rec(f: &Family, st: &GenState, out: &mut Vec<Vec<Stmt>>) {
        if st.perms >= f.min_perm && st.alus >= f.min_alu && st.recomps >= f.min_recomp {
            out.push(st.stmts.clone());
        }
        // Merkle families: the next Poseidon2 row is a sponge new_start row, a Merkle leaf row, or
        // (directly after a Merkle row of the table) a chained Merkle row
        if let Some(mk) = &f.mk {
            if st.perms < f.max_perm {
                if mk.sponge_rows {
                    let mut n = st.clone();
                    n.stmts.push(Stmt::Perm { in0: Atom::P0 });
                    n.perms += 1;
                    n.last_merkle = false;
                    rec(f, &n, out);
                }
                for new_start in [true, false] {
                    if !new_start && !st.last_merkle {
                        continue;
                    }
                    for bit in &mk.bits {
                        for index in &mk.index {
                            for o in &mk.outs {
                                let mut n = st.clone();
                                n.stmts.push(Stmt::PermMerkle { new_start, bit: *bit, index: *index, out: *o });
                                if !*o {
                                    n.hidden_outs.push(st.perms);
                                }
                                match index {
                                    Expose::No => {}
                                    Expose::Own => n.idx_own.push(st.perms),
                                    Expose::Shared => n.idx_shared = true,
                                }
                                n.perms += 1;
                                n.last_merkle = true;
                                rec(f, &n, out);
                            }
                        }
                    }
                }
            }
        } else if st.perms < f.max_perm {
            let mut ins = vec![Atom::P0];
            if f.fed_inputs {
                ins.push(Atom::H);
                for i in 0..st.alus {
                    ins.push(Atom::R(i));
                }
                if st.perms == 1 {
                    ins.push(Atom::O(0, 0));
                }
            }
            for in0 in &ins {
                let mut n = st.clone();
                n.stmts.push(Stmt::Perm { in0: *in0 });
                n.perms += 1;
                rec(f, &n, out);
            }
            // a chained row must directly follow its predecessor in the Poseidon2 table; other
            // statements may still be emitted in between (they live in other tables)
            if f.chained && st.perms == 1 {
                let mut cin: Vec<Option<Atom>> = vec![None, Some(Atom::P0)];
                if f.fed_inputs {
                    cin.push(Some(Atom::H));
                    for i in 0..st.alus {
                        cin.push(Some(Atom::R(i)));
                    }
                }
                for in0 in cin {
                    let mut n = st.clone();
                    n.stmts.push(Stmt::PermChained { in0 });
                    n.perms += 1;
                    rec(f, &n, out);
                }
            }
        }
        if st.alus < f.max_alu {
            let atoms = st.operand_atoms(f);
            for k in &f.kinds {
                let ar = if *k == Kind::MulAdd { 3 } else { 2 };
                let mut idx = vec![0usize; ar];
                loop {
                    let args: Vec<Atom> = idx.iter().map(|i| atoms[*i]).collect();
                    let mut n = st.clone();
                    n.stmts.push(Stmt::Alu { kind: *k, args });
                    n.alus += 1;
                    rec(f, &n, out);
                    let mut j = 0;
                    while j < ar {
                        idx[j] += 1;
                        if idx[j] < atoms.len() {
                            break;
                        }
                        idx[j] = 0;
                        j += 1;
                    }
                    if j == ar {
                        break;
                    }
                }
            }
        }
        let coeff_stmts = st.recomps + st.coeffs as u8;
        if st.recomps < f.max_recomp && coeff_stmts < f.max_coeff_stmts {
            let mut srcs = vec![CoeffSrc::Q];
            if f.q2 {
                srcs.push(CoeffSrc::Q2);
            }
            if st.coeffs {
                srcs.push(CoeffSrc::C);
            }
            for src in srcs {
                for ctl in [false, true] {
                    let mut n = st.clone();
                    n.stmts.push(Stmt::Recomp { src, ctl });
                    n.recomps += 1;
                    rec(f, &n, out);
                }
            }
        }
        if f.coeffs && !st.coeffs && coeff_stmts < f.max_coeff_stmts {
            let mut targets = vec![Atom::P0];
            if st.perms > 0 && !st.hidden_outs.contains(&0) {
                targets.push(Atom::O(0, 0));
            }
            if st.alus > 0 {
                targets.push(Atom::R(st.alus - 1));
            }
            if st.recomps > 0 {
                targets.push(Atom::X(st.recomps - 1));
            }
            for t in targets {
                for ctl in [false, true] {
                    let mut n = st.clone();
                    n.stmts.push(Stmt::Coeffs { target: t, ctl });
                    n.coeffs = true;
                    rec(f, &n, out);
                }
            }
        }
        if f.bits && !st.bits {
            let mut n = st.clone();
            n.stmts.push(Stmt::Bits);
            n.bits = true;
            rec(f, &n, out);
        }
    }
    rec(f, &GenState::default(), out);
}

/// Endpoints of `connect`: a public input, a constant, a hint output, a perm output, an ALU result.
pub fn connect_sets(f: &Family, stmts: &[Stmt]) -> Vec<Vec<(Atom, Atom)>> {
    let mut e = vec![Atom::P0, Atom::P1, Atom::K, Atom::H];
    let (mut np, mut na, mut nx) = (0u8, 0u8, 0u8);
    for s in stmts {
        match s {
            Stmt::Recomp { .. } => {
                e.push(Atom::X(nx));
                nx += 1;
            }
            Stmt::Perm { .. } | Stmt::PermChained { .. } => {
                e.push(Atom::O(np, 0));
                np += 1;
            }
            Stmt::Alu { .. } => {
                e.push(Atom::R(na));
                na += 1;
            }
            Stmt::Coeffs { .. } => e.push(Atom::C(0)),
            Stmt::Bits => e.push(Atom::B(0)),
            Stmt::PermMerkle { index, out, .. } => {
                if *out {
                    e.push(Atom::O(np, 0));
                }
                match index {
                    Expose::No => {}
                    Expose::Own => e.push(Atom::I(np)),
                    Expose::Shared => {
                        if !e.contains(&Atom::IS) {
                            e.push(Atom::IS);
                        }
                    }
                }
                np += 1;
            }
        }
    }
    let mut pairs = vec![];
    for i in 0..e.len() {
        for j in i + 1..e.len() {
            pairs.push((e[i], e[j]));
        }
    }
    let mut out = vec![vec![]];
    if f.max_conn >= 1 {
        for p in &pairs {
            out.push(vec![*p]);
        }
    }
    if f.max_conn >= 2 {
        for i in 0..pairs.len() {
            for j in i + 1..pairs.len() {
                out.push(vec![pairs[i], pairs[j]]);
            }
        }
    }
    out
}

// ---------------------------------------------------------------------------------------------
// native evaluation (honest inputs)
// ---------------------------------------------------------------------------------------------

fn ext(c: [u64; 4]) -> Kb4 {
    let v: Vec<Kb> = c.iter().map(|x| Kb::from_u64(*x)).collect();
    Kb4::from_basis_coefficients_slice(&v).unwrap()
}
pub fn k_val() -> Kb4 {
    ext([5, 6, 7, 8])
}
/// base-field values of the public coefficient sets Q and Q2 (both sets hold the same values)
const Q_VALS: [u64; 4] = [2, 3, 4, 5];
pub fn k2_val() -> Kb4 {
    ext([7, 0, 1, 2])
}

fn perm_native(limbs: [Kb4; 4]) -> [Kb4; 4] {
    let perm = default_koalabear_poseidon2_16();
    let mut state = [Kb::ZERO; 16];
    for (i, l) in limbs.iter().enumerate() {
        state[i * 4..(i + 1) * 4].copy_from_slice(l.as_basis_coefficients_slice());
    }
    let out = perm.permute(state);
    core::array::from_fn(|i| Kb4::from_basis_coefficients_slice(&out[i * 4..(i + 1) * 4]).unwrap())
}

/// sibling digest supplied as private data to the chained Merkle row that is perm call `p`
fn sibling(p: u8) -> [Kb4; 2] {
    let s = 100 + 10 * p as u64;
    [ext([s, s + 1, s + 2, s + 3]), ext([s + 4, s + 5, s + 6, s + 7])]
}

/// Honest values of the Merkle index accumulators, per perm call (table row): what the Poseidon2
/// trace generator writes into `mmcs_index_sum` — a chain start (leaf row, sponge row) holds the
/// value of its own exposed cell (0 here: the index publics of leaf rows are set to 0), a chained
/// Merkle row holds 2·previous + bit. Third value: all rows exposing through IS agree.
pub fn merkle_indices(stmts: &[Stmt]) -> (Vec<u64>, Option<u64>, bool) {
    let mut acc = vec![];
    let (mut shared, mut ok) = (None, true);
    let mut prev = 0u64;
    for s in stmts {
        match s {
            Stmt::Perm { .. } | Stmt::PermChained { .. } => {
                prev = 0;
                acc.push(0);
            }
            Stmt::PermMerkle { new_start, bit, index, .. } => {
                prev = if *new_start { 0 } else { 2 * prev + *bit as u64 };
                acc.push(prev);
                if *index == Expose::Shared {
                    match shared {
                        None => shared = Some(prev),
                        Some(v) => ok &= v == prev,
                    }
                }
            }
            _ => {}
        }
    }
    (acc, shared, ok)
}

/// Shape class of a shape with Merkle rows: table geometry and where the index reads fire.
/// rows=<real>of<padded height> | first / last row kind (S sponge, C chained sponge, L Merkle leaf,
/// M chained Merkle; +i index exposed) | for every exposing row the kind of its CYCLIC next row
/// (start = a real new_start row, chained = no read, pad = first padding row, wrap = row 0).
pub fn merkle_class(stmts: &[Stmt]) -> Option<String> {
    let rows: Vec<(char, bool)> = stmts
        .iter()
        .filter_map(|s| match s {
            Stmt::Perm { .. } => Some(('S', false)),
            Stmt::PermChained { .. } => Some(('C', false)),
            Stmt::PermMerkle { new_start, index, .. } => Some((if *new_start { 'L' } else { 'M' }, *index != Expose::No)),
            _ => None,
        })
        .collect();
    if !stmts.iter().any(|s| matches!(s, Stmt::PermMerkle { .. })) {
        return None;
    }
    let n = rows.len();
    let h = n.next_power_of_two();
    let kind = |r: &(char, bool)| format!("{}{}", r.0, if r.1 { "+i" } else { "" });
    let mut nexts: BTreeSet<&str> = BTreeSet::new();
    for (i, r) in rows.iter().enumerate() {
        if r.1 {
            nexts.insert(if i + 1 < n {
                if matches!(rows[i + 1].0, 'S' | 'L') { "start" } else { "chained" }
            } else if h > n {
                "pad"
            } else {
                "wrap"
            });
        }
    }
    Some(format!("rows={n}of{h}|first={}|last={}|index_next={}", kind(&rows[0]), kind(&rows[n - 1]), if nexts.is_empty() { "-".to_string() } else { nexts.into_iter().collect::<Vec<_>>().join("+") }))
}

/// Row pattern of the Poseidon2 table (kinds, index exposure form, output exposure; no bits): the
/// part of the proof-selection signature that keeps row POSITIONS, which the port census drops.
pub fn merkle_pattern(stmts: &[Stmt]) -> Option<String> {
    merkle_class(stmts)?;
    Some(
        stmts
            .iter()
            .filter_map(|s| match s {
                Stmt::Perm { .. } => Some("S".to_string()),
                Stmt::PermChained { .. } => Some("C".to_string()),
                Stmt::PermMerkle { new_start, index, out, .. } => Some(format!("{}{}{}", if *new_start { 'L' } else { 'M' }, match index { Expose::No => "", Expose::Own => "i", Expose::Shared => "s" }, if *out { "o" } else { "" })),
                _ => None,
            })
            .collect::<Vec<_>>()
            .join("."),
    )
}

#[derive(Clone, Debug)]
pub struct Honest {
    pub p0: Kb4,
    pub p1: Kb4,
    pub h: Kb4,
}

/// Values of all atoms for given free values; `None` = undefined (division by zero).
fn eval(shape: &Shape, free: &Honest) -> Option<BTreeMap<Atom, Kb4>> {
    let mut v: BTreeMap<Atom, Kb4> = BTreeMap::new();
    v.insert(Atom::P0, free.p0);
    v.insert(Atom::P1, free.p1);
    v.insert(Atom::K, k_val());
    v.insert(Atom::H, free.h);
    let (mut np, mut na, mut nx) = (0u8, 0u8, 0u8);
    let mut last_full: Option<[Kb4; 4]> = None;
    let mut last_merkle: Option<[Kb4; 4]> = None;
    let (idx, shared, shared_ok) = merkle_indices(&shape.stmts);
    if !shared_ok {
        return None;
    }
    if let Some(sv) = shared {
        v.insert(Atom::IS, Kb4::from(Kb::from_u64(sv)));
    }
    for s in &shape.stmts {
        match s {
            Stmt::Perm { in0 } => {
                let o = perm_native([v[in0], free.p1, k_val(), k2_val()]);
                v.insert(Atom::O(np, 0), o[0]);
                v.insert(Atom::O(np, 1), o[1]);
                last_full = Some(o);
                np += 1;
            }
            Stmt::PermChained { in0 } => {
                let mut st = last_full?;
                if let Some(a) = in0 {
                    st[0] = v[a];
                }
                let o = perm_native(st);
                v.insert(Atom::O(np, 0), o[0]);
                v.insert(Atom::O(np, 1), o[1]);
                last_full = Some(o);
                np += 1;
            }
            Stmt::PermMerkle { new_start, bit, index, out } => {
                // executor: zero state / previous MERKLE output in the rate half, sibling (private
                // data) in the capacity half, explicit limbs on top, halves swapped when bit = 1
                let mut st = if *new_start {
                    [v[&Atom::P0], free.p1, k_val(), k2_val()]
                } else {
                    let prev = last_merkle?;
                    let sib = sibling(np);
                    [prev[0], prev[1], sib[0], sib[1]]
                };
                if *bit {
                    st.swap(0, 2);
                    st.swap(1, 3);
                }
                let o = perm_native(st);
                if *out {
                    v.insert(Atom::O(np, 0), o[0]);
                    v.insert(Atom::O(np, 1), o[1]);
                }
                if *index == Expose::Own {
                    v.insert(Atom::I(np), Kb4::from(Kb::from_u64(idx[np as usize])));
                }
                last_merkle = Some(o);
                np += 1;
            }
            Stmt::Alu { kind, args } => {
                let x: Vec<Kb4> = args.iter().map(|a| v[a]).collect();
                let r = match kind {
                    Kind::Add => x[0] + x[1],
                    Kind::Sub => x[0] - x[1],
                    Kind::Mul => x[0] * x[1],
                    Kind::Div => {
                        if x[1] == Kb4::ZERO {
                            return None;
                        }
                        x[0] * x[1].inverse()
                    }
                    Kind::MulAdd => x[0] * x[1] + x[2],
                };
                v.insert(Atom::R(na), r);
                na += 1;
            }
            Stmt::Coeffs { target, .. } => {
                let t = v[target];
                for (i, c) in <Kb4 as BasedVectorSpace<Kb>>::as_basis_coefficients_slice(&t).iter().enumerate() {
                    v.insert(Atom::C(i as u8), Kb4::from(*c));
                }
            }
            Stmt::Bits => {
                for i in 0..N_BITS {
                    v.insert(Atom::B(i as u8), Kb4::from(Kb::from_u64((5u64 >> i) & 1)));
                }
            }
            Stmt::Recomp { src, .. } => {
                let x = match src {
                    CoeffSrc::Q | CoeffSrc::Q2 => ext(Q_VALS),
                    CoeffSrc::C => {
                        let c: Vec<Kb> = (0..D).map(|i| <Kb4 as BasedVectorSpace<Kb>>::as_basis_coefficients_slice(&v[&Atom::C(i as u8)])[0]).collect();
                        Kb4::from_basis_coefficients_slice(&c).unwrap()
                    }
                };
                v.insert(Atom::X(nx), x);
                nx += 1;
            }
        }
    }
    Some(v)
}

/// Solve the free atoms (P0, P1, H) so that every `connect` holds: fixpoint iteration that copies
/// the value of a determined member of each connect class onto its free members. `None` = this
/// simple solver found no satisfying assignment (the shape gets no honest run).
pub fn solve(shape: &Shape) -> Option<(Honest, BTreeMap<Atom, Kb4>)> {
    let mut free = Honest { p0: ext([3, 1, 4, 1]), p1: ext([2, 7, 1, 8]), h: ext([9, 9, 8, 2]) };
    let is_free = |a: &Atom| matches!(a, Atom::P0 | Atom::P1 | Atom::H);
    for _ in 0..5 {
        let v = eval(shape, &free)?;
        if shape.connects.iter().all(|(x, y)| v[x] == v[y]) {
            return Some((free, v));
        }
        for (x, y) in &shape.connects {
            let (src, dst) = if is_free(x) && !is_free(y) {
                (y, x)
            } else if is_free(y) && !is_free(x) {
                (x, y)
            } else if is_free(x) && is_free(y) {
                (x, y)
            } else {
                continue;
            };
            let val = v[src];
            match dst {
                Atom::P0 => free.p0 = val,
                Atom::P1 => free.p1 = val,
                Atom::H => free.h = val,
                _ => {}
            }
        }
    }
    None
}

// ---------------------------------------------------------------------------------------------
// build
// ---------------------------------------------------------------------------------------------

#[derive(Debug, Clone)]
struct FixedValueHint(Kb4);

impl HintExecutor<Kb4> for FixedValueHint {
    fn execute(&self, _inputs: &[WitnessId], outputs: &[WitnessId], witness: &mut [Option<Kb4>]) -> Result<(), CircuitError> {
        witness[outputs[0].0 as usize] = Some(self.0);
        Ok(())
    }
    fn boxed(&self) -> Box<dyn HintExecutor<Kb4>> {
        Box::new(self.clone())
    }
}

pub struct Built {
    pub circuit: Circuit<Kb4>,
    /// atom -> expression
    pub atoms: BTreeMap<Atom, ExprId>,
    /// the public input vector is [p0, p1] ++ extra (bits input, coefficient sets, Merkle indices)
    pub extra_publics: Vec<Kb4>,
    /// sibling digests (private data) of the chained Merkle rows
    pub private: Vec<(NonPrimitiveOpId, [Kb4; 2])>,
}

pub fn build(shape: &Shape, h_val: Kb4) -> Result<Built, String> {
    let mut b = CircuitBuilder::<Kb4>::new();
    b.enable_poseidon2_perm::<KoalaBearD4Width16, _>(generate_poseidon2_trace::<Kb4, KoalaBearD4Width16>, default_koalabear_poseidon2_16());
    b.enable_recompose::<Kb>(generate_recompose_trace::<Kb, Kb4>);
    let mut at: BTreeMap<Atom, ExprId> = BTreeMap::new();
    let p0 = b.alloc_public_input("p0");
    let p1 = b.alloc_public_input("p1");
    at.insert(Atom::P0, p0);
    at.insert(Atom::P1, p1);
    let mut extra_publics: Vec<Kb4> = vec![];
    let has_bits = shape.stmts.iter().any(|s| matches!(s, Stmt::Bits));
    let pb = if has_bits {
        extra_publics.push(Kb4::from(Kb::from_u64(5)));
        Some(b.alloc_public_input("pb"))
    } else {
        None
    };
    let mut qsets: BTreeMap<CoeffSrc, Vec<ExprId>> = BTreeMap::new();
    for set in [CoeffSrc::Q, CoeffSrc::Q2] {
        if shape.stmts.iter().any(|s| matches!(s, Stmt::Recomp { src, .. } if *src == set)) {
            let q: Vec<ExprId> = (0..D).map(|_| b.alloc_public_input("q")).collect();
            extra_publics.extend(Q_VALS.iter().map(|v| Kb4::from(Kb::from_u64(*v))));
            qsets.insert(set, q);
        }
    }
    // public inputs carrying the exposed Merkle indices (honest values: `merkle_indices`)
    let (idx_vals, shared_val, _) = merkle_indices(&shape.stmts);
    {
        let mut np = 0u8;
        for s in &shape.stmts {
            match s {
                Stmt::Perm { .. } | Stmt::PermChained { .. } => np += 1,
                Stmt::PermMerkle { index, .. } => {
                    if *index == Expose::Own {
                        at.insert(Atom::I(np), b.alloc_public_input("merkle_index"));
                        extra_publics.push(Kb4::from(Kb::from_u64(idx_vals[np as usize])));
                    } else if *index == Expose::Shared && !at.contains_key(&Atom::IS) {
                        at.insert(Atom::IS, b.alloc_public_input("merkle_index_shared"));
                        extra_publics.push(Kb4::from(Kb::from_u64(shared_val.unwrap_or(0))));
                    }
                    np += 1;
                }
                _ => {}
            }
        }
    }
    let mut private = vec![];
    let k = b.alloc_const(k_val(), "k");
    let k2 = b.alloc_const(k2_val(), "k2");
    at.insert(Atom::K, k);
    if shape.uses_hint() {
        let (_, _, outs) = b.push_non_primitive_op_with_outputs(
            NpoTypeId::unconstrained(),
            vec![vec![p0]],
            vec![Some("h")],
            Some(NonPrimitiveOpParams::Unconstrained { executor: Box::new(FixedValueHint(h_val)) }),
            "h",
        );
        at.insert(Atom::H, outs[0].ok_or("hint without output")?);
    }
    let (mut np, mut na, mut nx) = (0u8, 0u8, 0u8);
    for s in &shape.stmts {
        match s {
            Stmt::Recomp { src, ctl } => {
                let coeffs: Vec<ExprId> = match src {
                    CoeffSrc::C => (0..D).map(|i| at.get(&Atom::C(i as u8)).copied().ok_or("recompose of c0..c3 before coeffs")).collect::<Result<_, _>>()?,
                    q => qsets[q].clone(),
                };
                let x = if *ctl { b.recompose_base_coeffs_to_ext_with_coeff_lookups::<Kb>(&coeffs) } else { b.recompose_base_coeffs_to_ext::<Kb>(&coeffs) }.map_err(|e| format!("recompose: {e:?}"))?;
                at.insert(Atom::X(nx), x);
                nx += 1;
            }
            Stmt::Perm { in0 } => {
                let (_, outs) = b
                    .add_poseidon2_perm(&Poseidon2PermCall {
                        config: Poseidon2Config::KOALA_BEAR_D4_W16,
                        new_start: true,
                        merkle_path: false,
                        mmcs_bit: None,
                        mmcs_bit2: None,
                        inputs: vec![Some(at[in0]), Some(p1), Some(k), Some(k2)],
                        out_ctl: vec![true, true],
                        return_all_outputs: false,
                        mmcs_index_sum: None,
                    })
                    .map_err(|e| format!("perm: {e:?}"))?;
                at.insert(Atom::O(np, 0), outs[0].ok_or("no out0")?);
                at.insert(Atom::O(np, 1), outs[1].ok_or("no out1")?);
                np += 1;
            }
            Stmt::PermChained { in0 } => {
                let (_, outs) = b
                    .add_poseidon2_perm(&Poseidon2PermCall {
                        config: Poseidon2Config::KOALA_BEAR_D4_W16,
                        new_start: false,
                        merkle_path: false,
                        mmcs_bit: None,
                        mmcs_bit2: None,
                        inputs: vec![in0.map(|a| at[&a]), None, None, None],
                        out_ctl: vec![true, true],
                        return_all_outputs: false,
                        mmcs_index_sum: None,
                    })
                    .map_err(|e| format!("perm: {e:?}"))?;
                at.insert(Atom::O(np, 0), outs[0].ok_or("no out0")?);
                at.insert(Atom::O(np, 1), outs[1].ok_or("no out1")?);
                np += 1;
            }
            Stmt::PermMerkle { new_start, bit, index, out } => {
                let bit_e = b.alloc_const(if *bit { Kb4::ONE } else { Kb4::ZERO }, "merkle_bit");
                let (op_id, outs) = b
                    .add_poseidon2_perm(&Poseidon2PermCall {
                        config: Poseidon2Config::KOALA_BEAR_D4_W16,
                        new_start: *new_start,
                        merkle_path: true,
                        mmcs_bit: Some(bit_e),
                        mmcs_bit2: None,
                        inputs: if *new_start { vec![Some(p0), Some(p1), Some(k), Some(k2)] } else { vec![None; 4] },
                        out_ctl: vec![*out, *out],
                        return_all_outputs: false,
                        mmcs_index_sum: match index {
                            Expose::No => None,
                            Expose::Own => Some(at[&Atom::I(np)]),
                            Expose::Shared => Some(at[&Atom::IS]),
                        },
                    })
                    .map_err(|e| format!("perm: {e:?}"))?;
                if *out {
                    at.insert(Atom::O(np, 0), outs[0].ok_or("no out0")?);
                    at.insert(Atom::O(np, 1), outs[1].ok_or("no out1")?);
                }
                if !*new_start {
                    private.push((op_id, sibling(np)));
                }
                np += 1;
            }
            Stmt::Alu { kind, args } => {
                let x: Vec<ExprId> = args.iter().map(|a| at[a]).collect();
                let r = match kind {
                    Kind::Add => b.add(x[0], x[1]),
                    Kind::Sub => b.sub(x[0], x[1]),
                    Kind::Mul => b.mul(x[0], x[1]),
                    Kind::Div => b.div(x[0], x[1]),
                    Kind::MulAdd => b.mul_add(x[0], x[1], x[2]),
                };
                at.insert(Atom::R(na), r);
                na += 1;
            }
            Stmt::Coeffs { target, ctl } => {
                b.set_recompose_coeff_ctl_for_decompose_links(*ctl);
                let cs = b.decompose_ext_to_base_coeffs::<Kb>(at[target]).map_err(|e| format!("coeffs: {e:?}"))?;
                b.set_recompose_coeff_ctl_for_decompose_links(false);
                for (i, c) in cs.iter().enumerate() {
                    at.insert(Atom::C(i as u8), *c);
                }
            }
            Stmt::Bits => {
                let bits = b.decompose_to_bits::<Kb>(pb.unwrap(), N_BITS).map_err(|e| format!("bits: {e:?}"))?;
                for (i, c) in bits.iter().enumerate() {
                    at.insert(Atom::B(i as u8), *c);
                }
            }
        }
    }
    for (x, y) in &shape.connects {
        b.connect(at[x], at[y]);
    }
    let circuit = b.build().map_err(|e| format!("build: {e:?}"))?;
    Ok(Built { circuit, atoms: at, extra_publics, private })
}

// ---------------------------------------------------------------------------------------------
// census
// ---------------------------------------------------------------------------------------------

#[derive(Clone, Debug)]
pub struct Port {
    pub role: &'static str,
    pub kind: Option<AluOpKind>,
    pub row: usize,
    pub slot: u64,
    pub mult: i64,
    pub relation_port: bool,
}

type Prep = (Vec<(CircuitTableAir<KoalaBearConfig, 4>, usize)>, Vec<Vec<Kb>>, p3_circuit::ops::NonPrimitivePreprocessedMap<Kb>);

pub fn prepare(circuit: &Circuit<Kb4>) -> Result<Prep, String> {
    match quiet_catch(|| {
        let npo_prep: Vec<Box<dyn NpoPreprocessor<Kb>>> = vec![Box::new(Poseidon2Preprocessor), Box::new(RecomposePreprocessor::new(true))];
        let mut airs = poseidon2_air_builders::<KoalaBearConfig, 4>();
        airs.extend(recompose_air_builders::<KoalaBearConfig, 4>(1, true));
        get_airs_and_degrees_with_prep::<KoalaBearConfig, _, 4>(circuit, &TablePacking::default(), &npo_prep, &airs, ConstraintProfile::Standard).map_err(|e| format!("prep:{e:?}"))
    }) {
        Ok(r) => r,
        Err(p) => Err(format!("prep:panic: {p}")),
    }
}

/// `Err("layout:…")` = a layout this census does not understand (machinery error).
pub fn ports(prep: &Prep) -> Result<Vec<Port>, String> {
    let slot = |x: Kb| -> Result<u64, String> {
        let v = x.as_canonical_u64();
        if v % D as u64 != 0 {
            return Err(format!("layout: bus index {v} not a multiple of D"));
        }
        Ok(v / D as u64)
    };
    let mut out = vec![];
    let mut n_dynamic = 0;
    for (air, _) in &prep.0 {
        match air {
            CircuitTableAir::Const(a) => {
                let Some(m) = a.preprocessed_trace() else { continue };
                if m.width() != 2 {
                    return Err(format!("layout: const prep width {}", m.width()));
                }
                for r in 0..m.height() {
                    let row = m.row_slice(r).unwrap();
                    if signed(row[0]) == 0 && row[1] == Kb::ZERO && r > 0 {
                        continue; // padding
                    }
                    out.push(Port { role: "const", kind: None, row: r, slot: slot(row[1])?, mult: signed(row[0]), relation_port: true });
                }
            }
            CircuitTableAir::Public(a) => {
                let Some(m) = a.preprocessed_trace() else { continue };
                if m.width() != 2 {
                    return Err(format!("layout: public prep width {}", m.width()));
                }
                for r in 0..m.height() {
                    let row = m.row_slice(r).unwrap();
                    if signed(row[0]) == 0 && row[1] == Kb::ZERO && r > 0 {
                        continue;
                    }
                    out.push(Port { role: "public", kind: None, row: r, slot: slot(row[1])?, mult: signed(row[0]), relation_port: true });
                }
            }
            CircuitTableAir::Alu(a) => {
                let Some(m) = a.preprocessed_trace() else { continue };
                // default packing: one lane, horner_packed_steps() extra columns all zero
                let k = TablePacking::default().horner_packed_steps();
                if m.width() != 13 + 7 * (k - 1) {
                    return Err(format!("layout: alu prep width {} (k={k})", m.width()));
                }
                for r in 0..m.height() {
                    let row = m.row_slice(r).unwrap();
                    let c = &row[0..13];
                    if row[13..].iter().any(|x| *x != Kb::ZERO) {
                        return Err("layout: packed Horner columns in a shape without Horner ops".into());
                    }
                    let mult_a = signed(c[0]);
                    if mult_a == 0 {
                        if signed(c[9]) != 0 || signed(c[10]) != 0 {
                            out.push(Port { role: "alu.inactive", kind: None, row: r, slot: slot(c[8])?, mult: signed(c[10]) + signed(c[9]), relation_port: false });
                        }
                        continue;
                    }
                    let kind = if signed(c[1]) == 1 {
                        AluOpKind::Add
                    } else if signed(c[2]) == 1 {
                        AluOpKind::BoolCheck
                    } else if signed(c[3]) == 1 {
                        AluOpKind::MulAdd
                    } else if signed(c[4]) == 1 {
                        AluOpKind::HornerAcc
                    } else {
                        AluOpKind::Mul
                    };
                    let uses_c = matches!(kind, AluOpKind::MulAdd | AluOpKind::HornerAcc);
                    let is_bool = kind == AluOpKind::BoolCheck;
                    out.push(Port { role: "alu.a", kind: Some(kind), row: r, slot: slot(c[5])?, mult: mult_a * signed(c[11]), relation_port: true });
                    out.push(Port { role: "alu.b", kind: Some(kind), row: r, slot: slot(c[6])?, mult: signed(c[9]), relation_port: !is_bool });
                    out.push(Port { role: "alu.c", kind: Some(kind), row: r, slot: slot(c[7])?, mult: mult_a * signed(c[12]), relation_port: uses_c });
                    out.push(Port { role: "alu.out", kind: Some(kind), row: r, slot: slot(c[8])?, mult: signed(c[10]), relation_port: true });
                }
            }
            CircuitTableAir::Dynamic(_) => n_dynamic += 1,
        }
    }
    if n_dynamic != prep.2.len() {
        return Err(format!("layout: {} dynamic AIRs but {} non-primitive column sets", n_dynamic, prep.2.len()));
    }
    for (op_type, cols) in &prep.2 {
        let name = op_type.as_str();
        if name.starts_with("poseidon2_perm/") {
            // D4/W16 row: 4 x [in_idx, in_ctl, normal_chain_sel, merkle_chain_sel],
            // 2 x [out_idx, out_ctl], [mmcs_idx, mmcs_merkle_flag, new_start, merkle_path]
            if cols.len() % 24 != 0 {
                return Err(format!("layout: poseidon2 prep len {}", cols.len()));
            }
            // The matrix the prover COMMITS: the preprocessed trace of the Poseidon2 AIR built from
            // these columns (real rows, then the padding rows up to the power-of-two height). The
            // lookups are evaluated on every row of it; the accumulator send looks at the cyclic
            // next row, as p3's lookup argument does for `next` on the last row.
            let mut matrix = None;
            for (air, _) in &prep.0 {
                if let CircuitTableAir::Dynamic(d) = air
                    && let Some(m) = d.preprocessed_trace()
                    && m.width() == 24
                    && m.values.len() >= cols.len()
                    && m.values[..cols.len()] == cols[..]
                {
                    matrix = Some(m);
                }
            }
            let Some(m) = matrix else {
                return Err("layout: no dynamic AIR whose preprocessed trace starts with the committed Poseidon2 columns".into());
            };
            let h = m.height();
            if !h.is_power_of_two() || h < cols.len() / 24 {
                return Err(format!("layout: poseidon2 matrix height {h} for {} rows", cols.len() / 24));
            }
            let flag = |x: Kb, what: &str| -> Result<i64, String> {
                let v = signed(x);
                if v != 0 && v != 1 {
                    return Err(format!("layout: {what} {v}"));
                }
                Ok(v)
            };
            let rows: Vec<Vec<Kb>> = (0..h).map(|r| m.row_slice(r).unwrap().to_vec()).collect();
            for (r, c) in rows.iter().enumerate() {
                let merkle = flag(c[23], "merkle_path")?;
                let mmf = flag(c[21], "mmcs_merkle_flag")?;
                flag(c[22], "new_start")?;
                for l in 0..4 {
                    let in_ctl = flag(c[4 * l + 1], "in_ctl")?;
                    // input-limb send: -(in_ctl)(1 - merkle_path)
                    let mult = -(in_ctl * (1 - merkle));
                    if mult != 0 {
                        out.push(Port { role: "p2.in", kind: None, row: r, slot: slot(c[4 * l])?, mult, relation_port: true });
                    } else if in_ctl == 1 {
                        // explicit limb of a Merkle row: never sent (root cause R4, known under C04);
                        // kept as a multiplicity-0 mention so that it shows in details / signatures
                        out.push(Port { role: "p2.in.merkle_unread", kind: None, row: r, slot: slot(c[4 * l])?, mult: 0, relation_port: false });
                    }
                }
                for l in 0..2 {
                    let mo = signed(c[16 + 2 * l + 1]);
                    let idx = c[16 + 2 * l];
                    // an exposed output always carries an index; out_ctl 0 with index 0 = not exposed
                    if mo == 0 && idx == Kb::ZERO {
                        continue;
                    }
                    out.push(Port { role: "p2.out", kind: None, row: r, slot: slot(idx)?, mult: mo, relation_port: true });
                }
                // MMCS accumulator send: -(mmcs_merkle_flag(local) * new_start(next)), next cyclic
                let next_ns = flag(rows[(r + 1) % h][22], "new_start")?;
                if mmf == 1 {
                    let mult = -(mmf * next_ns);
                    out.push(Port { role: if mult != 0 { "p2.mmcs" } else { "p2.mmcs.silent" }, kind: None, row: r, slot: slot(c[20])?, mult, relation_port: mult != 0 });
                }
            }
        } else if name == "recompose" {
            if cols.len() % 2 != 0 {
                return Err(format!("layout: recompose prep len {}", cols.len()));
            }
            for (r, c) in cols.chunks_exact(2).enumerate() {
                out.push(Port { role: "rc.out", kind: None, row: r, slot: slot(c[0])?, mult: signed(c[1]), relation_port: true });
            }
        } else if name == "recompose/coeff" {
            let w = 2 + 2 * D;
            if cols.len() % w != 0 {
                return Err(format!("layout: recompose/coeff prep len {}", cols.len()));
            }
            for (r, c) in cols.chunks_exact(w).enumerate() {
                out.push(Port { role: "rcc.out", kind: None, row: r, slot: slot(c[0])?, mult: signed(c[1]), relation_port: true });
                for i in 0..D {
                    out.push(Port { role: "rcc.coeff", kind: None, row: r, slot: slot(c[2 + 2 * i])?, mult: signed(c[3 + 2 * i]), relation_port: true });
                }
            }
        } else {
            return Err(format!("layout: unknown non-primitive table {name}"));
        }
    }
    Ok(out)
}

#[derive(Clone, Debug)]
pub struct Finding {
    pub key: String,
    pub detail: String,
    pub unbalanced: bool,
}

/// slot -> source kinds living there: U public, C const, H raw hint output, c coefficient hint,
/// b bit hint, O perm output, R ALU result of the shape.
pub fn slot_sources(built: &Built) -> BTreeMap<u64, BTreeSet<char>> {
    let mut m: BTreeMap<u64, BTreeSet<char>> = BTreeMap::new();
    for (a, e) in &built.atoms {
        let k = match a {
            Atom::P0 | Atom::P1 | Atom::I(_) | Atom::IS => 'U',
            Atom::K => 'C',
            Atom::H => 'H',
            Atom::O(..) => 'O',
            Atom::R(_) => 'R',
            Atom::C(_) => 'c',
            Atom::B(_) => 'b',
            Atom::X(_) => 'X',
        };
        if let Some(w) = built.circuit.expr_to_widx.get(e) {
            m.entry(w.0 as u64).or_default().insert(k);
        }
    }
    m
}

/// The three C09 clauses over all ports, grouped by slot. Key = clause family + creator roles +
/// reader roles + the source kinds living in the slot (no slot numbers, no row numbers).
pub fn audit(ps: &[Port], sources: &BTreeMap<u64, BTreeSet<char>>) -> Vec<Finding> {
    let mut by_slot: BTreeMap<u64, Vec<&Port>> = BTreeMap::new();
    for p in ps {
        by_slot.entry(p.slot).or_default().push(p);
    }
    let roles = |xs: &[&&Port]| {
        let r: BTreeSet<&str> = xs.iter().map(|p| p.role).collect();
        r.into_iter().collect::<Vec<_>>().join("+")
    };
    let mut out = vec![];
    for (slot, v) in &by_slot {
        let src: String = sources.get(slot).map(|s| s.iter().collect()).unwrap_or_default();
        let src = if src.is_empty() { "-".to_string() } else { src };
        let readers: Vec<&&Port> = v.iter().filter(|p| p.mult < 0).collect();
        let creators: Vec<&&Port> = v.iter().filter(|p| p.mult > 0).collect();
        let n_reads: i64 = readers.iter().map(|p| -p.mult).sum();
        let odd: Vec<&&Port> = v.iter().filter(|p| p.mult < -1).collect();
        let net: i64 = v.iter().map(|p| p.mult).sum();
        let show: Vec<(&str, usize, i64)> = v.iter().map(|p| (p.role, p.row, p.mult)).collect();
        let family = if !odd.is_empty() {
            Some("multiplicity_below_minus_one")
        } else if !readers.is_empty() && creators.is_empty() {
            Some("creators=0")
        } else if !readers.is_empty() && creators.len() > 1 {
            Some("creators>1")
        } else if !readers.is_empty() && creators[0].mult != n_reads {
            Some("creator_mult_mismatch")
        } else if net != 0 {
            Some("net_nonzero")
        } else {
            None
        };
        let hint_slot = src.chars().any(|c| matches!(c, 'H' | 'c' | 'b'));
        if let Some(f) = family {
            // Known classes (same root causes as the D=1 classes `creators>1|..P`, and a new one):
            //  * a hint output on two ports of ONE ALU row (or aliased to that row's own result)
            //    gets the creator role on both ports;
            //  * a hint output that no ALU row mentions on an a / c / out port is never created
            //    (first use as `b` of a forward op, or as a CTL-fed Poseidon2 input).
            // Everything else keeps the fully spelled key (roles + slot sources).
            let one_row = creators.len() >= 2 && creators.iter().all(|p| p.role.starts_with("alu.") && p.row == creators[0].row);
            let no_creating_port = !v.iter().any(|p| matches!(p.role, "alu.a" | "alu.c" | "alu.out"));
            let key = if f == "creators>1" && hint_slot && one_row {
                "npo:creators>1|hint_output_on_two_ports_of_one_alu_row".to_string()
            } else if f == "creators=0" && hint_slot && no_creating_port && !src.chars().any(|c| matches!(c, 'U' | 'C' | 'O' | 'X')) {
                "npo:creators=0|hint_output_first_used_as_b_or_npo_input".to_string()
            } else if f == "creators=0" && !src.chars().any(|c| matches!(c, 'U' | 'C')) && ["p2.out", "rc.out", "rcc.out"].iter().any(|r| v.iter().filter(|p| p.role == *r && p.mult == -1).count() >= 2 && !v.iter().any(|p| p.role == *r && p.mult >= 0)) {
                // (the two outputs must belong to ONE table: a slot packed by rows of two
                // different tables is handled correctly by the unchanged tree)
                // `dup_npo_outputs` is keyed by witness id, not by row / limb: when two exposed
                // Poseidon2 outputs (two rows, or both limbs of one row) share one slot, the
                // first (creating) occurrence is turned into a reader as well
                "npo:creators=0|several_npo_outputs_share_one_slot".to_string()
            } else if f == "creator_mult_mismatch" && ["p2.out", "rc.out", "rcc.out"].iter().any(|r| v.iter().filter(|p| p.role == *r && p.mult == -1).count() >= 2 && !v.iter().any(|p| p.role == *r && p.mult >= 0)) {
                // same root cause, seen when another port (a hinted coefficient aliased into the
                // slot) still creates it: the first of the same-table output rows is committed as
                // a reader although `ext_reads` never counted it
                "npo:creator_mult_mismatch|several_npo_outputs_share_one_slot".to_string()
            } else if f == "creators>1" && src.contains('c') && creators.iter().any(|p| p.role == "rcc.coeff") {
                // C12's npo_coeff root cause: the recompose/coeff row creates every coefficient in
                // `hint_output_wids` although an ALU first use / an aliased table row creates it too
                "npo:creators>1|coeff_hint_also_created_by_recompose_coeff_row".to_string()
            } else {
                format!("npo:{f}|creators:{}|readers:{}|slot:{src}", roles(&creators), roles(&readers))
            };
            out.push(Finding {
                key,
                detail: format!("slot {slot} (sources {src}): {} read(s), creator ports {:?}; all ports {show:?}", n_reads, creators.iter().map(|p| (p.role, p.row, p.mult)).collect::<Vec<_>>()),
                unbalanced: net != 0,
            });
        }
        for p in v.iter().filter(|p| p.relation_port && p.mult == 0 && p.role.starts_with("alu.")) {
            let kind = p.kind.unwrap();
            if kind == AluOpKind::BoolCheck {
                let partner = if p.role == "alu.a" { "alu.out" } else { "alu.a" };
                if ps.iter().any(|q| q.role == partner && q.row == p.row && q.mult != 0) {
                    continue;
                }
            }
            let others: Vec<&&Port> = v.iter().filter(|q| !std::ptr::eq(**q, *p)).collect();
            if !others.is_empty() {
                let same_row_partner = others.iter().any(|q| q.role.starts_with("alu.") && q.row == p.row);
                let key = if hint_slot && same_row_partner {
                    "npo:floating|hint_output_on_two_ports_of_one_alu_row".to_string()
                } else if src.contains('c') && others.iter().any(|q| q.role == "rcc.coeff" && q.mult >= 0) && !others.iter().any(|q| q.mult < 0) {
                    // both the recompose/coeff row and this port "create" the coefficient with
                    // multiplicity ext_reads = 0: nothing ties the ALU cell to the recompose row
                    "npo:floating|coeff_hint_also_created_by_recompose_coeff_row".to_string()
                } else {
                    format!("npo:floating|port:{}:{kind:?}|others:{}|slot:{src}", p.role, roles(&others))
                };
                out.push(Finding {
                    key,
                    detail: format!("slot {slot} (sources {src}): {} of ALU row {} ({kind:?}) has multiplicity 0 but the slot is also mentioned by {:?}", p.role, p.row, others.iter().map(|q| (q.role, q.row, q.mult)).collect::<Vec<_>>()),
                    unbalanced: false,
                });
            }
        }
    }
    out
}

/// Coarse form of the census used to pick the shapes that get an honest prove+verify run: the
/// multiset of per-slot port profiles (sorted (role, kind, multiplicity) lists). Two shapes with
/// the same signature present the same kinds of slots to the bus (row positions are dropped).
/// This only selects which shapes are PROVED; the census itself runs on every shape.
pub fn signature(ps: &[Port]) -> String {
    let mut by_slot: BTreeMap<u64, Vec<String>> = BTreeMap::new();
    for p in ps {
        by_slot.entry(p.slot).or_default().push(format!("{}{}:{}", p.role, p.kind.map(|k| format!("{k:?}")).unwrap_or_default(), p.mult));
    }
    let mut profiles: Vec<String> = by_slot
        .into_values()
        .map(|mut v| {
            v.sort();
            v.join(",")
        })
        .collect();
    profiles.sort();
    profiles.join(";")
}

// ---------------------------------------------------------------------------------------------
// second opinion
// ---------------------------------------------------------------------------------------------

#[derive(Debug, Clone, PartialEq, Eq)]
pub enum Honesty {
    Accepted,
    RunRejected(String),
    LookupPanic(String),
    ProveErr(String),
    VerifyErr(String),
}

/// Honest run -> real prover (p3 `check_lookups` on) -> real verifier.
pub fn honest_prove_verify(built: &Built, free: &Honest) -> Honesty {
    let mut pubs = vec![free.p0, free.p1];
    pubs.extend(built.extra_publics.iter().copied());
    let mut r = built.circuit.runner();
    if let Err(e) = r.set_public_inputs(&pubs) {
        return Honesty::RunRejected(format!("{e:?}"));
    }
    for (op_id, sib) in &built.private {
        if let Err(e) = r.set_private_data(*op_id, NpoPrivateData::new(Poseidon2PermPrivateData { sibling: sib.to_vec() })) {
            return Honesty::RunRejected(format!("{e:?}"));
        }
    }
    let traces = match r.run() {
        Ok(t) => t,
        Err(e) => return Honesty::RunRejected(format!("{e:?}")),
    };
    let res = quiet_catch(|| {
        let cfg = vpe1::accept::fast_koala_bear();
        let prep = prepare(&built.circuit).map_err(Honesty::ProveErr)?;
        let (airs, degs): (Vec<_>, Vec<usize>) = prep.0.into_iter().unzip();
        let pd = ProverData::from_airs_and_degrees(&cfg, &airs, &degs);
        let cpd = CircuitProverData::new(pd, prep.1, prep.2);
        let mut prover = BatchStarkProver::new(cfg).with_debug_lookups();
        prover.register_poseidon2_table::<4>(Poseidon2Config::KOALA_BEAR_D4_W16);
        for t in recompose_table_provers::<KoalaBearConfig, 4>(1, true) {
            prover.register_table_prover(t);
        }
        let proof = prover.prove_all_tables(&traces, &cpd).map_err(|e| Honesty::ProveErr(format!("{e:?}")))?;
        prover.verify_all_tables::<Kb4>(&proof).map_err(|e| Honesty::VerifyErr(format!("{e:?}")))
    });
    match res {
        Ok(Ok(())) => Honesty::Accepted,
        Ok(Err(h)) => h,
        Err(p) => Honesty::LookupPanic(p),
    }
}

// ---------------------------------------------------------------------------------------------
// driver
// ---------------------------------------------------------------------------------------------

use std::collections::HashMap;
use std::hash::{Hash, Hasher};
use std::sync::Mutex;
use std::sync::atomic::{AtomicBool, AtomicU64, Ordering};

use vpcore::rayon::prelude::*;
use vpcore::serde_json::{Value, json};
use vpcore::{Ctx, Histo, Report};
use vpe1::explore::SeenSet;

fn h128<T: Hash>(x: &T) -> u128 {
    let mut a = std::collections::hash_map::DefaultHasher::new();
    0x9e37u64.hash(&mut a);
    x.hash(&mut a);
    let mut b = std::collections::hash_map::DefaultHasher::new();
    0x7f4au64.hash(&mut b);
    x.hash(&mut b);
    ((a.finish() as u128) << 64) | b.finish() as u128
}

pub struct ShapeResult {
    pub findings: Vec<Finding>,
    pub signature: String,
    pub op_list: String,
    /// explicit input limbs of Merkle rows (in_ctl = 1, never sent on the bus)
    pub merkle_unread_inputs: usize,
}

/// Census of one shape. `Ok(None)` = the builder / preparation refused the shape.
pub fn census(shape: &Shape, h: Option<&Histo>) -> Option<ShapeResult> {
    let built = match quiet_catch(|| build(shape, ext([9, 9, 8, 2]))) {
        Ok(Ok(b)) => b,
        Ok(Err(e)) => {
            if let Some(h) = h {
                h.add(&format!("npo:build_err:{}", e.split(|c: char| !c.is_alphanumeric()).find(|w| w.len() > 5).unwrap_or("")));
            }
            return None;
        }
        Err(_) => {
            if let Some(h) = h {
                h.add("npo:build_panic");
            }
            return None;
        }
    };
    let op_list = format!("{:?}", built.circuit.ops);
    let prep = match prepare(&built.circuit) {
        Ok(p) => p,
        Err(e) => {
            if let Some(h) = h {
                h.add(&format!("npo:prep_err:{}", e.split(|c: char| !c.is_alphanumeric()).find(|w| w.len() > 5).unwrap_or("")));
            }
            return None;
        }
    };
    let ps = match ports(&prep) {
        Ok(p) => p,
        Err(e) => vpcore::machinery_error(&format!("C09 npo census cannot read preprocessed layout of `{}`: {e}", shape.show())),
    };
    let findings = audit(&ps, &slot_sources(&built));
    // Merkle shapes: the row pattern of the Poseidon2 table (positions of leaf / chained / exposing
    // rows, hence padding vs wrap-around) is part of the proof-selection signature
    let mut sig = signature(&ps);
    if let Some(pat) = merkle_pattern(&shape.stmts) {
        sig = format!("{sig}#merkle:{pat}");
    }
    let merkle_unread_inputs = ps.iter().filter(|p| p.role == "p2.in.merkle_unread").count();
    Some(ShapeResult { findings, signature: sig, op_list, merkle_unread_inputs })
}

/// Honest run of one shape with solved inputs. `None` = no satisfying assignment found.
pub fn second_opinion(shape: &Shape) -> Option<Honesty> {
    let (free, _) = solve(shape)?;
    let built = quiet_catch(|| build(shape, free.h)).ok()?.ok()?;
    Some(honest_prove_verify(&built, &free))
}

pub fn run(ctx: &Ctx, report: &Report, histo: &Histo, share: f64) -> Value {
    let t_start = ctx.elapsed_s();
    let deadline = t_start + share * ctx.budget.as_secs_f64();
    let seen_ops = SeenSet::default();
    let seen_sig = SeenSet::default();
    let confirmed: Mutex<HashMap<String, String>> = Mutex::new(HashMap::new());
    let shapes = AtomicU64::new(0);
    let distinct = AtomicU64::new(0);
    let proofs = AtomicU64::new(0);
    let accepted = AtomicU64::new(0);
    let unsat = AtomicU64::new(0);
    let with_findings = AtomicU64::new(0);
    let hint_perm_alias = AtomicU64::new(0);
    let samples: Mutex<Vec<String>> = Mutex::new(vec![]);
    // Merkle shapes per class: [distinct op lists, census findings, honest proofs, accepted]
    let merkle_classes: Mutex<BTreeMap<String, [u64; 4]>> = Mutex::new(BTreeMap::new());
    let merkle_shapes = AtomicU64::new(0);
    let merkle_unread = AtomicU64::new(0);
    let merkle_samples: Mutex<Vec<String>> = Mutex::new(vec![]);
    let mut fam_reports = vec![];
    let mut all_exhaustive = true;
    for fam in families(ctx.quick()) {
        if let Some(f) = ctx.opt("npo-family") && f != fam.name {
            continue;
        }
        let t0 = ctx.elapsed_s();
        let mut seqs = vec![];
        sequences(&fam, &mut seqs);
        let cut = AtomicBool::new(false);
        let fam_shapes = AtomicU64::new(0);
        let fam_distinct = AtomicU64::new(0);
        let fam_proofs = AtomicU64::new(0);
        seqs.par_iter().for_each(|stmts| {
            for conns in connect_sets(&fam, stmts) {
                if ctx.elapsed_s() > deadline || ctx.out_of_time() {
                    cut.store(true, Ordering::Relaxed);
                    return;
                }
                let shape = Shape { stmts: stmts.clone(), connects: conns };
                // H is only allocated when the shape mentions it; endpoints that do not exist
                // (C0 / B0 without the statement) cannot occur: connect_sets derives them from stmts
                shapes.fetch_add(1, Ordering::Relaxed);
                fam_shapes.fetch_add(1, Ordering::Relaxed);
                let Some(res) = census(&shape, Some(histo)) else { continue };
                if !seen_ops.insert(h128(&res.op_list)) {
                    histo.add("npo:duplicate_op_list");
                    continue;
                }
                distinct.fetch_add(1, Ordering::Relaxed);
                fam_distinct.fetch_add(1, Ordering::Relaxed);
                if shape.connects.iter().any(|(x, y)| matches!((x, y), (Atom::H, Atom::O(..)) | (Atom::O(..), Atom::H))) {
                    hint_perm_alias.fetch_add(1, Ordering::Relaxed);
                }
                let mclass = merkle_class(&shape.stmts);
                if let Some(c) = &mclass {
                    merkle_shapes.fetch_add(1, Ordering::Relaxed);
                    if res.merkle_unread_inputs > 0 {
                        merkle_unread.fetch_add(1, Ordering::Relaxed);
                    }
                    let mut g = merkle_classes.lock().unwrap();
                    let e = g.entry(c.clone()).or_insert([0; 4]);
                    e[0] += 1;
                    if !res.findings.is_empty() {
                        e[1] += 1;
                    }
                }
                histo.add(if res.findings.is_empty() { "npo:balanced" } else { "npo:census_finding" });
                if !res.findings.is_empty() {
                    with_findings.fetch_add(1, Ordering::Relaxed);
                }
                let mut honest: Option<Option<Honesty>> = None;
                for f in &res.findings {
                    // the first shape of every key that predicts an unbalanced bus is confirmed by
                    // an honest run: the real prover/verifier must refuse it, otherwise this
                    // census misreads the tables (machinery error, never a verdict)
                    let first = f.unbalanced && {
                        let mut g = confirmed.lock().unwrap();
                        if g.contains_key(&f.key) {
                            false
                        } else {
                            g.insert(f.key.clone(), String::new());
                            true
                        }
                    };
                    if first {
                        let hv = honest.get_or_insert_with(|| second_opinion(&shape)).clone();
                        let note = match hv {
                            Some(Honesty::Accepted) => vpcore::machinery_error(&format!("C09 npo census predicts an unbalanced bus for `{}` ({}) but the honest proof verifies", shape.show(), f.key)),
                            Some(o) => format!(" — confirmed by an honest run of `{}`: {}", shape.show(), format!("{o:?}").chars().take(220).collect::<String>()),
                            None => String::new(),
                        };
                        if note.is_empty() {
                            // no satisfying inputs for this shape: let a later shape confirm the key
                            confirmed.lock().unwrap().remove(&f.key);
                        } else {
                            confirmed.lock().unwrap().insert(f.key.clone(), note);
                        }
                    }
                    let note = confirmed.lock().unwrap().get(&f.key).cloned().unwrap_or_default();
                    report.violation_sized(
                        f.key.clone(),
                        format!("[{}] e.g. {} — {}{note}", f.key, shape.show(), f.detail),
                        json!({"shape": shape, "key": f.key, "detail": f.detail}),
                        shape.show().len(),
                    );
                }
                // second opinion on the first SATISFIABLE shape of every census signature
                let satisfiable = solve(&shape).is_some();
                if !satisfiable {
                    unsat.fetch_add(1, Ordering::Relaxed);
                }
                if satisfiable && seen_sig.insert(h128(&res.signature)) {
                    let hv = honest.get_or_insert_with(|| second_opinion(&shape)).clone();
                    match hv {
                        None => histo.add("npo:honest:no_satisfying_inputs"),
                        Some(o) => {
                            proofs.fetch_add(1, Ordering::Relaxed);
                            fam_proofs.fetch_add(1, Ordering::Relaxed);
                            let predicted_unbalanced = res.findings.iter().any(|f| f.unbalanced);
                            if let Some(c) = &mclass {
                                let mut g = merkle_classes.lock().unwrap();
                                let e = g.entry(c.clone()).or_insert([0; 4]);
                                e[2] += 1;
                                if o == Honesty::Accepted {
                                    e[3] += 1;
                                }
                                let mut ms = merkle_samples.lock().unwrap();
                                if ms.len() < 6 && o == Honesty::Accepted && shape.stmts.len() >= 3 {
                                    ms.push(shape.show());
                                }
                            }
                            // Merkle shapes: an honest execution the runner accepts must prove and
                            // verify with a balanced bus. A failure the census did not predict is a
                            // violation of its own, keyed by the shape class (a predicted one is
                            // already reported under the census key).
                            if let Some(c) = &mclass
                                && !predicted_unbalanced
                                && !matches!(o, Honesty::Accepted | Honesty::RunRejected(_))
                            {
                                let what = match &o {
                                    Honesty::LookupPanic(m) if m.contains("Lookup mismatch") => "bus_unbalanced",
                                    Honesty::LookupPanic(_) => "prover_panic",
                                    Honesty::ProveErr(_) => "prove_err",
                                    _ => "verify_err",
                                };
                                histo.add(&format!("npo:merkle:honest:{what}"));
                                report.violation_sized(
                                    format!("npo:merkle:honest_run_fails:{what}|{c}"),
                                    format!("[{c}] {} — census balanced, the runner accepts the honest inputs, but prove (p3 check_lookups on) + verify fails: {}", shape.show(), format!("{o:?}").chars().take(300).collect::<String>()),
                                    json!({"shape": shape, "class": c}),
                                    shape.show().len(),
                                );
                            }
                            match &o {
                                Honesty::Accepted => {
                                    accepted.fetch_add(1, Ordering::Relaxed);
                                    histo.add("npo:honest:accepted");
                                }
                                _ if mclass.is_some() && !predicted_unbalanced && !matches!(o, Honesty::RunRejected(_)) => {}
                                Honesty::LookupPanic(m) if m.contains("Lookup mismatch") && !predicted_unbalanced => {
                                    histo.add("npo:honest:lookup_mismatch_unpredicted");
                                    report.violation(
                                        format!("npo:audit_clean_but_multiset_unbalanced|{}", shape.show()),
                                        format!("{} — census balanced but p3 check_lookups fails on an honest run: {}", shape.show(), m.chars().take(300).collect::<String>()),
                                        json!({"shape": shape}),
                                    );
                                }
                                Honesty::LookupPanic(m) if m.contains("Lookup mismatch") => histo.add("npo:honest:lookup_mismatch_as_predicted"),
                                Honesty::LookupPanic(_) => histo.add("npo:honest:other_panic"),
                                Honesty::RunRejected(e) => histo.add(&format!("npo:honest:run_rejected:{}", e.split(|c: char| !c.is_alphanumeric()).next().unwrap_or(""))),
                                Honesty::ProveErr(_) => histo.add("npo:honest:prove_err"),
                                Honesty::VerifyErr(_) => histo.add(if predicted_unbalanced { "npo:honest:verify_err_as_predicted" } else { "npo:honest:verify_err" }),
                            }
                        }
                    }
                }
                let mut s = samples.lock().unwrap();
                if s.len() < 4 && shape.stmts.len() >= 3 && !shape.connects.is_empty() {
                    s.push(shape.show());
                }
            }
        });
        let ex = !cut.load(Ordering::Relaxed);
        all_exhaustive &= ex;
        eprintln!("npo family {} sequences={} shapes={} distinct_op_lists={} proofs={} exhaustive={} t={:.1}s", fam.name, seqs.len(), fam_shapes.load(Ordering::Relaxed), fam_distinct.load(Ordering::Relaxed), fam_proofs.load(Ordering::Relaxed), ex, ctx.elapsed_s() - t0);
        fam_reports.push(json!({"family": fam.name, "bounds": fam, "statement_sequences": seqs.len(), "shapes": fam_shapes.load(Ordering::Relaxed), "distinct_op_lists": fam_distinct.load(Ordering::Relaxed), "honest_proofs": fam_proofs.load(Ordering::Relaxed), "exhaustive": ex, "wall_s": ctx.elapsed_s() - t0}));
    }
    json!({
        "space": "builder shapes with 1-2 Poseidon2 D4/W16 sponge perm calls (new_start / chained) or 1-4 Poseidon2 rows drawn from sponge new_start / Merkle leaf / chained Merkle rows (index accumulator exposed or not), 0-1 decompose_ext_to_base_coeffs (plain / coeff-ctl), 0-1 decompose_to_bits, 1-3 ALU ops (add/sub/mul/div/mul_add), 0-2 connects, every dependency-respecting emission order; KoalaBear D=4, Poseidon2 + recompose + recompose/coeff tables",
        "families": fam_reports,
        "shapes": shapes.load(Ordering::Relaxed),
        "distinct_op_lists": distinct.load(Ordering::Relaxed),
        "distinct_census_signatures_with_satisfying_inputs": seen_sig.len(),
        "shapes_with_hint_connected_to_perm_output": hint_perm_alias.load(Ordering::Relaxed),
        "shapes_with_census_findings": with_findings.load(Ordering::Relaxed),
        "honest_prove_verify_runs": proofs.load(Ordering::Relaxed),
        "honest_accepted": accepted.load(Ordering::Relaxed),
        "distinct_op_lists_without_satisfying_inputs": unsat.load(Ordering::Relaxed),
        "merkle_mode": {
            "grammar": "PermMerkle{new_start (leaf row, limbs p0,p1,k,k2 explicit) | chained after the previous Merkle row (sibling = private data), direction bit const 0/1, mmcs_index_sum not exposed / own public input / shared public input, rate outputs exposed or not}; Poseidon2 tables of 1..4 rows mixing sponge new_start rows, leaf rows and chained Merkle rows",
            "distinct_op_lists": merkle_shapes.load(Ordering::Relaxed),
            "distinct_op_lists_with_explicit_merkle_inputs_off_the_bus": merkle_unread.load(Ordering::Relaxed),
            "classes": merkle_classes.lock().unwrap().iter().map(|(k, v)| json!({"class": k, "distinct_op_lists": v[0], "with_census_findings": v[1], "honest_proofs": v[2], "honest_accepted": v[3]})).collect::<Vec<_>>(),
            "samples_proved": *merkle_samples.lock().unwrap(),
        },
        "exhaustive": all_exhaustive,
        "samples": *samples.lock().unwrap(),
        "wall_s": ctx.elapsed_s() - t_start,
    })
}
