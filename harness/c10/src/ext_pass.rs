// Extension-field pass of C10; included once per element field (see `ext_pass!` in main.rs).
// The including module defines: type BF (prime field), type F (element field = extension of BF),
// const D (degree of F over BF), type SC (STARK configuration over BF), fn cfg() -> SC,
// const TAG (key prefix, e.g. "bb5"), const LABEL (human readable field name).
//
// Same oracle as the D = 1 pass: a builder program with a satisfying input (decided by the
// field-generic reference semantics `ref_eval::<BF, F>`) must run, prove and verify with the
// repository's real prover / verifier instantiated for this element field.
//
// Classification of the known structural defect classes (Horner accumulator not row-chained,
// unbalanced witness bus) is a property of the program's wiring, not of the element field: it is
// computed on the BabyBear D = 1 twin of the program (same calls, constants 0 / 1 / generic /
// generic) with the audit shared with C09. The twin is only trusted if both circuits have the
// same op list up to constant values (`shape_sig`); otherwise the program is counted as
// `twin_shape_mismatch` and no claim is made for it.

use std::sync::Mutex;
use std::sync::atomic::{AtomicU64, Ordering};

use p3_batch_stark::ProverData;
use p3_circuit::{Circuit, Traces};
use p3_circuit_prover::ConstraintProfile;
use p3_circuit_prover::batch_stark_prover::{BatchStarkProver, CircuitProverData, TablePacking};
use p3_circuit_prover::common::get_airs_and_degrees_with_prep;
use p3_field::{BasedVectorSpace, Field, PrimeCharacteristicRing, PrimeField64};
use vpcore::serde_json::{Value, json};
use vpcore::{Ctx, Histo, Report, quiet_catch};
use vpe1::accept::Verdict;
use vpe1::enumerate::Family;
use vpe1::explore::{SeenSet, Stats, explore, input_vectors};
use vpe1::prog::{Call, Program, materialize, ref_eval, remove_call};
use vpe1::Opnd;

fn e(c: [u64; 5]) -> F {
    let v: Vec<BF> = c[..D].iter().map(|x| BF::from_u64(*x)).collect();
    F::from_basis_coefficients_slice(&v).unwrap()
}

fn coeffs(x: &F) -> Vec<u64> {
    <F as BasedVectorSpace<BF>>::as_basis_coefficients_slice(x).iter().map(|c| c.as_canonical_u64()).collect()
}

fn all_nonzero(x: &F) -> bool {
    coeffs(x).iter().all(|c| *c != 0)
}

/// Constant alphabet: index 0 must be zero (start of a Horner chain), index 1 one; 2 and 3 are
/// generic extension elements with every coefficient non-zero.
pub fn consts() -> Vec<F> {
    vec![F::ZERO, F::ONE, e([5, 1, 2, 3, 4]), e([7, 3, 1, 2, 5])]
}

/// Input alphabet, every coefficient of every value non-zero; v0^-1 and -v0 make
/// `assert_bool(a*b)`, `assert_zero(a+b)`, `connect(a*b, c1)` satisfiable without leaving it.
fn alphabet() -> Vec<F> {
    let v0 = e([2, 3, 5, 7, 11]);
    let v = vec![v0, e([3, 1, 4, 1, 5]), e([9, 2, 6, 5, 3]), v0.inverse(), -v0];
    assert!(v.iter().all(all_nonzero), "C10 {TAG}: input alphabet has a zero coefficient");
    v
}

/// Vectors over `vals` of length n, position i rotated by i so that the first vectors give
/// different values to different inputs.
fn rotated_vectors(vals: &[F], n: usize) -> Vec<Vec<F>> {
    let idx: Vec<usize> = (0..vals.len()).collect();
    input_vectors(&idx, n).into_iter().map(|t| t.iter().enumerate().map(|(i, k)| vals[(k + i) % vals.len()]).collect()).collect()
}

/// First satisfying, fully defined input: over the all-non-zero alphabet if one exists (flag
/// true), else over the alphabet extended by 0 and 1 (e.g. `assert_bool(public)`).
fn sat_input(p: &Program, cs: &[F], n_pub: usize, n_priv: usize) -> Option<(Vec<F>, bool)> {
    let n = n_pub + n_priv;
    let a = alphabet();
    let a = if n >= 4 { a[..3].to_vec() } else { a };
    let ok = |v: &Vec<F>| {
        let re = ref_eval::<BF, F>(p, cs, &v[..n_pub], &v[n_pub..]);
        !re.undefined && re.sat
    };
    if let Some(v) = rotated_vectors(&a, n).into_iter().find(|v| ok(v)) {
        return Some((v, true));
    }
    let mut b = if n >= 4 { a[..2].to_vec() } else { a[..3.min(a.len())].to_vec() };
    b.push(F::ZERO);
    b.push(F::ONE);
    rotated_vectors(&b, n).into_iter().find(|v| ok(v)).map(|v| (v, false))
}

/// The repository's prover + verifier for this element field (test-grade FRI parameters).
fn prove_verify(circuit: &Circuit<F>, traces: &Traces<F>, packing: &TablePacking) -> Verdict {
    let r = quiet_catch(|| {
        let cfg = cfg();
        let (airs_degrees, prim, nonprim) = match get_airs_and_degrees_with_prep::<SC, _, D>(circuit, packing, &[], &[], ConstraintProfile::Standard) {
            Ok(x) => x,
            Err(e) => return Verdict::PrepErr(format!("{e:?}")),
        };
        let (airs, degs): (Vec<_>, Vec<usize>) = airs_degrees.into_iter().unzip();
        let pd = ProverData::from_airs_and_degrees(&cfg, &airs, &degs);
        let cpd = CircuitProverData::new(pd, prim, nonprim);
        let prover = BatchStarkProver::new(cfg).with_table_packing(packing.clone());
        let proof = match prover.prove_all_tables(traces, &cpd) {
            Ok(p) => p,
            Err(e) => return Verdict::ProveErr(format!("{e:?}")),
        };
        match prover.verify_all_tables::<F>(&proof) {
            Ok(()) => Verdict::Accepted,
            Err(e) => Verdict::VerifyErr(format!("{e:?}")),
        }
    });
    match r {
        Ok(v) => v,
        Err(p) => Verdict::Panic(p),
    }
}

struct XOutcome {
    stage: &'static str, // as in the D = 1 pass, plus "twin_shape_mismatch"
    detail: String,
    inputs: Vec<Vec<u64>>,
    all_nonzero: bool,
    expected_fail: Option<String>,
}

fn xo(stage: &'static str, detail: String, expected_fail: Option<String>) -> XOutcome {
    XOutcome { stage, detail, inputs: vec![], all_nonzero: false, expected_fail }
}

fn twin_classify(p: &Program, circuit: &Circuit<F>) -> Result<Option<String>, String> {
    let tcs = crate::consts();
    let m = materialize::<crate::F, crate::F>(p, &tcs).map_err(|e| format!("twin_shape_mismatch: twin materialize: {e}"))?;
    let nodes = m.nodes.clone();
    let twin = m.builder.build().map_err(|e| format!("twin_shape_mismatch: twin build: {e:?}"))?;
    if crate::shape_sig(&twin) != crate::shape_sig(circuit) {
        return Err("twin_shape_mismatch".into());
    }
    crate::classify(&twin, &nodes)
}

fn check_program(p: &Program, cs: &[F], packing: &TablePacking, prove_expected_fail: bool) -> Option<XOutcome> {
    let m = materialize::<BF, F>(p, cs).ok()?;
    let (np, nv) = (m.n_pub, m.n_priv);
    let circuit = m.builder.build().ok()?; // not accepted by the builder: no claim
    let Some((v, nz)) = sat_input(p, cs, np, nv) else {
        return Some(xo("nosat", String::new(), None));
    };
    let expected_fail = match twin_classify(p, &circuit) {
        Ok(c) => c,
        Err(e) if e.contains("UnclaimedPrivateInput") => return Some(xo("precondition", e, None)),
        Err(e) if e.starts_with("twin_shape_mismatch") => return Some(xo("twin_shape_mismatch", e, None)),
        Err(e) => return Some(xo("prep", e, None)),
    };
    if expected_fail.is_some() && !prove_expected_fail {
        return Some(xo("skipped", String::new(), expected_fail));
    }
    let iv: Vec<Vec<u64>> = v.iter().map(coeffs).collect();
    let mut r = circuit.runner();
    let run = (|| {
        r.set_public_inputs(&v[..np]).map_err(|e| format!("{e:?}"))?;
        r.set_private_inputs(&v[np..]).map_err(|e| format!("{e:?}"))?;
        r.run().map_err(|e| format!("{e:?}"))
    })();
    let traces = match run {
        Ok(t) => t,
        Err(e) => return Some(XOutcome { stage: "run", detail: e, inputs: iv, all_nonzero: nz, expected_fail }),
    };
    let (stage, detail) = match prove_verify(&circuit, &traces, packing) {
        Verdict::Accepted => ("ok", String::new()),
        Verdict::PrepErr(e) => ("prep", e),
        Verdict::ProveErr(e) => ("prove", e),
        Verdict::VerifyErr(e) => ("verify", e),
        Verdict::Panic(e) => ("panic", e),
    };
    Some(XOutcome { stage, detail, inputs: iv, all_nonzero: nz, expected_fail })
}

fn is_failure(stage: &str) -> bool {
    !matches!(stage, "ok" | "nosat" | "precondition" | "skipped" | "twin_shape_mismatch")
}

fn minimise(p: &Program, stage: &str, cs: &[F], packing: &TablePacking) -> Program {
    let fails = |q: &Program| check_program(q, cs, packing, false).is_some_and(|o| o.stage == stage && o.expected_fail.is_none());
    let mut cur = p.clone();
    loop {
        let mut improved = false;
        for j in (0..cur.calls.len()).rev() {
            if let Some(q) = remove_call(&cur, j)
                && fails(&q)
            {
                cur = q;
                improved = true;
                break;
            }
        }
        if !improved {
            return cur;
        }
    }
}

/// Failures of programs in a known structural class are the SAME defect as over D = 1 (the
/// class does not depend on the element field): reported under the unprefixed class key.
/// Everything else is a completeness failure of this field: key prefixed with the field tag.
fn key_of(o: &XOutcome) -> String {
    match &o.expected_fail {
        Some(c) => format!("honest_proof_fails:{c}"),
        None => format!("{TAG}:unexplained_failure:{}:{}", o.stage, crate::short(&o.detail)),
    }
}

pub fn packings() -> Vec<(String, TablePacking)> {
    vec![("default".to_string(), TablePacking::default()), ("pub2-alu2-k3".to_string(), TablePacking::new(2, 2).with_horner_pack_k(3))]
}

pub fn replay(p: &Program, pk: &str, report: &Report) {
    let cs = consts();
    let packs = packings();
    let packing = packs.iter().find(|(n, _)| n == pk).map(|(_, p)| p.clone()).unwrap_or_default();
    println!("[{TAG}] replaying over {LABEL}: {} [{pk}]", p.show());
    if let Ok(m) = materialize::<BF, F>(p, &cs)
        && let Ok(c) = m.builder.build()
    {
        for op in &c.ops {
            println!("  op {op:?}");
        }
    }
    if let Some(o) = check_program(p, &cs, &packing, true) {
        println!("  stage={} expected_fail={:?} inputs={:?} all_nonzero={} {}", o.stage, o.expected_fail, o.inputs, o.all_nonzero, o.detail);
        if is_failure(o.stage) {
            report.violation(key_of(&o), o.detail.clone(), json!({"program": p, "packing": pk, "field": TAG}));
        }
    }
}

/// 2–3-step Horner chains from the zero accumulator: step 1 over fresh (alpha, z, x); each later
/// step takes alpha / z / x either from step 1's operand or from the previous step's output;
/// alone or followed by one multiplication reading the final accumulator.
fn horner_chain_shapes() -> Vec<Program> {
    let mut out = vec![];
    for len in 2..=3usize {
        let choices = 8usize.pow(len as u32 - 1);
        for code in 0..choices {
            for extra in 0..2 {
                let mut calls = vec![Call::Horner(Opnd::C(0), Opnd::NewPub, Opnd::NewPub, Opnd::NewPub)];
                let mut last = 3u8;
                let mut c = code;
                for _ in 1..len {
                    let pick = |bit: usize, own: u8| if (c >> bit) & 1 == 1 { Opnd::H(last) } else { Opnd::H(own) };
                    calls.push(Call::Horner(Opnd::H(last), pick(0, 0), pick(1, 1), pick(2, 2)));
                    c >>= 3;
                    last += 1;
                }
                if extra == 1 {
                    calls.push(Call::Mul(Opnd::H(last), Opnd::H(0)));
                }
                out.push(Program { calls });
            }
        }
    }
    out
}

fn has_ext_mul(p: &Program) -> bool {
    p.calls.iter().any(|c| matches!(c, Call::Mul(..) | Call::Div(..) | Call::MulAdd(..) | Call::Horner(..) | Call::Select(..) | Call::AssertBool(..)))
}

/// Explores `fams` plus the Horner chain shapes over this element field until `stop_at`
/// (fraction of the check's budget). Returns the coverage fragment of the field.
pub fn run_pass(ctx: &Ctx, report: &Report, fams: &[Family], stop_at: f64) -> Value {
    use vpcore::rayon::prelude::*;
    let cs = consts();
    let packs = packings();
    let histo = Histo::new();
    let seen_keys = SeenSet::default();
    let proved = AtomicU64::new(0);
    let proved_nz = AtomicU64::new(0);
    let proved_nz_mul = AtomicU64::new(0);
    let fallback = AtomicU64::new(0);
    let raw = AtomicU64::new(0);
    let mismatch = AtomicU64::new(0);
    let minimise_budget = AtomicU64::new(40);
    let per_class: Mutex<std::collections::HashMap<String, u32>> = Mutex::new(Default::default());
    let samples: Mutex<Vec<Value>> = Mutex::new(vec![]);
    let t_start = ctx.elapsed_s();

    let record = |p: &Program, o: XOutcome, pk: &str, packing: &TablePacking| {
        raw.fetch_add(1, Ordering::Relaxed);
        let (q, minimised) = if o.expected_fail.is_none() && minimise_budget.fetch_update(Ordering::Relaxed, Ordering::Relaxed, |b| b.checked_sub(1)).is_ok() {
            (minimise(p, o.stage, &cs, packing), true)
        } else {
            (p.clone(), false)
        };
        let o2 = check_program(&q, &cs, packing, true).filter(|x| x.stage == o.stage).unwrap_or(o);
        let key = key_of(&o2);
        report.violation_sized(
            key.clone(),
            format!("[{key}] over {LABEL}, e.g. {} inputs={:?} packing={pk}: {} fails: {}", q.show(), o2.inputs, o2.stage, o2.detail),
            json!({"program": q, "found_in": p, "inputs": o2.inputs, "stage": o2.stage, "detail": o2.detail, "packing": pk, "minimised": minimised, "field": TAG}),
            q.show().len(),
        );
    };

    // one program under every packing of the pass
    let visit = |p: &Program| {
        for (pi, (pk, packing)) in packs.iter().enumerate() {
            let Some(mut o) = check_program(p, &cs, packing, false) else {
                histo.add("build_rejected");
                return;
            };
            // the first programs of every structural class are proven anyway (default packing):
            // validates the twin classification against this field's prover
            if o.stage == "skipped" && pi == 0 {
                let class = o.expected_fail.clone().unwrap_or_default();
                let take = {
                    let mut m = per_class.lock().unwrap();
                    let n = m.entry(class).or_insert(0u32);
                    *n += 1;
                    *n <= 3
                };
                if take && let Some(o2) = check_program(p, &cs, packing, true) {
                    o = o2;
                }
            }
            let tag = if o.expected_fail.is_some() { "known_class" } else { "clean" };
            histo.add(&format!("{pk}/{tag}/{}", o.stage));
            if o.stage == "twin_shape_mismatch" {
                mismatch.fetch_add(1, Ordering::Relaxed);
            }
            if matches!(o.stage, "nosat" | "precondition" | "skipped" | "twin_shape_mismatch") {
                return; // the same under every packing
            }
            proved.fetch_add(1, Ordering::Relaxed);
            if o.all_nonzero {
                proved_nz.fetch_add(1, Ordering::Relaxed);
                if has_ext_mul(p) {
                    proved_nz_mul.fetch_add(1, Ordering::Relaxed);
                }
            } else {
                fallback.fetch_add(1, Ordering::Relaxed);
            }
            if pi == 0 && o.stage == "ok" && o.expected_fail.is_none() && o.all_nonzero && p.calls.len() >= 2 && has_ext_mul(p) {
                let mut s = samples.lock().unwrap();
                if s.len() < 3 {
                    s.push(json!({"field": LABEL, "program": p.show(), "inputs": o.inputs}));
                }
            }
            if o.stage != "ok" {
                record(p, o, pk, packing);
            }
        }
    };

    let shapes = horner_chain_shapes();
    let shapes_done = AtomicU64::new(0);
    let run_shapes = || {
        shapes.par_iter().for_each(|p| {
            if ctx.used() >= stop_at {
                return;
            }
            visit(p);
            shapes_done.fetch_add(1, Ordering::Relaxed);
        });
        eprintln!("[{TAG}] horner chain shapes {}/{} proofs={} t={:.1}s", shapes_done.load(Ordering::Relaxed), shapes.len(), proved.load(Ordering::Relaxed), ctx.elapsed_s() - t_start);
    };

    let mut fam_reports = vec![];
    let (mut th, mut tc) = (0u64, 0u64);
    let mut all_exhaustive = true;
    for (fi, fam) in fams.iter().enumerate() {
        // order: single calls, then the Horner chain shapes, then the larger families
        if fi == 1 {
            run_shapes();
        }
        let stats = Stats::default();
        let seen_prune = SeenSet::default();
        let t0 = ctx.elapsed_s();
        explore::<BF, F>(fam, &cs, ctx, stop_at, &seen_keys, &seen_prune, &stats, &|_p, _m| {}, &|p, _m| visit(p));
        let h = stats.histories.load(Ordering::Relaxed);
        let c = stats.canonical.load(Ordering::Relaxed);
        let to = stats.timed_out.load(Ordering::Relaxed);
        th += h;
        tc += c;
        all_exhaustive &= !to;
        fam_reports.push(json!({"family": fam.name, "bounds": fam, "histories": h, "new_canonical_programs": c, "exhaustive": !to, "wall_s": ctx.elapsed_s() - t0}));
        eprintln!("[{TAG}] family {} histories={} canonical={} exhaustive={} t={:.1}s", fam.name, h, c, !to, ctx.elapsed_s() - t0);
    }

    if fams.len() <= 1 {
        run_shapes();
    }
    let shapes_complete = shapes_done.load(Ordering::Relaxed) as usize == shapes.len();
    eprintln!("[{TAG}] pass done proofs={} t={:.1}s", proved.load(Ordering::Relaxed), ctx.elapsed_s() - t_start);

    json!({
        "field": LABEL,
        "tag": TAG,
        "extension_degree": D,
        "states": tc + shapes_done.load(Ordering::Relaxed),
        "transitions": th + shapes_done.load(Ordering::Relaxed),
        "families": fam_reports,
        "horner_chain_shapes": {"planned": shapes.len(), "done": shapes_done.load(Ordering::Relaxed), "what": "2-3 steps from the zero accumulator, later operands from step 1's operands or the previous output, alone / followed by one mul"},
        "packings": packs.iter().map(|(n, _)| n.clone()).collect::<Vec<_>>(),
        "proved_and_verified_runs": proved.load(Ordering::Relaxed),
        "runs_with_every_input_coefficient_nonzero": proved_nz.load(Ordering::Relaxed),
        "of_which_with_a_multiplicative_op": proved_nz_mul.load(Ordering::Relaxed),
        "runs_on_fallback_inputs_containing_0_or_1": fallback.load(Ordering::Relaxed),
        "twin_shape_mismatch_no_claim": mismatch.load(Ordering::Relaxed),
        "raw_failures": raw.load(Ordering::Relaxed),
        "outcome_histogram": histo.to_json(),
        "const_alphabet": cs.iter().map(coeffs).collect::<Vec<_>>(),
        "input_alphabet": alphabet().iter().map(coeffs).collect::<Vec<_>>(),
        "samples": *samples.lock().unwrap(),
        "exhaustive": all_exhaustive && shapes_complete && mismatch.load(Ordering::Relaxed) == 0,
        "wall_s": ctx.elapsed_s() - t_start,
    })
}
