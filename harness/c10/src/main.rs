//! C10 — every buildable circuit with satisfying inputs can be proven and verified.
//!
//! Exhaustive exploration (E1) of builder programs (bounded families, Horner shapes
//! emphasised); for each program the first satisfying, fully defined input vector over the
//! alphabet (per the reference semantics) is run, proven and verified with the real prover
//! and verifier; all three must succeed. A representative subset is repeated under every
//! prover configuration (lanes, Horner packing, minimum trace height).
//!
//! Extension-field pass (`ext_pass.rs`, instantiated per element field): a reduced program
//! space (every single call kind, two-call programs of the multiplicative kinds, 2-3-step Horner
//! chains) over BabyBear^4, BabyBear^5 (binomial), KoalaBear^5 (quintic trinomial) and
//! Goldilocks^2 with inputs whose extension coefficients are all non-zero, proven and verified
//! with the real prover / verifier of that field under two packings.

use std::sync::Mutex;
use std::sync::atomic::{AtomicU64, Ordering};

use p3_baby_bear::BabyBear;
use p3_circuit_prover::batch_stark_prover::TablePacking;
use p3_field::{PrimeCharacteristicRing, PrimeField64};
use vpcore::serde_json::{Value, json};
use vpcore::{Ctx, Histo, Report, finish};
use vpe1::accept::{Verdict, prove_verify_bb1};
use vpe1::enumerate::{AK, Family, VK};
use vpe1::explore::{SeenSet, Stats, explore, input_vectors};
use vpe1::prog::{Program, materialize, ref_eval, remove_call};

type F = BabyBear;

/// One extension-field pass module per element field (body: ext_pass.rs).
macro_rules! ext_pass {
    ($name:ident, $tag:literal, $label:literal, $bf:ty, $ef:ty, $d:literal, $sc:ty, $cfg:expr) => {
        mod $name {
            pub type BF = $bf;
            pub type F = $ef;
            pub const D: usize = $d;
            pub type SC = $sc;
            pub const TAG: &str = $tag;
            pub const LABEL: &str = $label;
            pub fn cfg() -> SC {
                $cfg
            }
            include!("ext_pass.rs");
        }
    };
}

ext_pass!(bb4, "bb4", "BabyBear^4 binomial", p3_baby_bear::BabyBear, p3_field::extension::BinomialExtensionField<p3_baby_bear::BabyBear, 4>, 4,
    p3_circuit_prover::config::BabyBearConfig, vpe1::accept::fast_baby_bear());
ext_pass!(bb5, "bb5", "BabyBear^5 binomial", p3_baby_bear::BabyBear, p3_field::extension::BinomialExtensionField<p3_baby_bear::BabyBear, 5>, 5,
    p3_circuit_prover::config::BabyBearConfig, vpe1::accept::fast_baby_bear());
ext_pass!(kb5, "kb5", "KoalaBear^5 quintic trinomial", p3_koala_bear::KoalaBear, p3_field::extension::QuinticTrinomialExtensionField<p3_koala_bear::KoalaBear>, 5,
    p3_circuit_prover::config::KoalaBearConfig, vpe1::accept::fast_koala_bear());
ext_pass!(gl2, "gl2", "Goldilocks^2 binomial", p3_goldilocks::Goldilocks, p3_field::extension::BinomialExtensionField<p3_goldilocks::Goldilocks, 2>, 2,
    p3_circuit_prover::config::GoldilocksConfig, crate::fast_goldilocks());

/// The repository's Goldilocks configuration (`config::goldilocks()`: same permutation seed,
/// hash, compression, MMCS, DFT, challenger) with test-grade FRI parameters, like
/// `vpe1::accept::fast_baby_bear`.
fn fast_goldilocks() -> p3_circuit_prover::config::GoldilocksConfig {
    use p3_symmetric::{PaddingFreeSponge, TruncatedPermutation};
    use rand::SeedableRng;
    let mut rng = rand::rngs::SmallRng::seed_from_u64(1);
    let perm = p3_goldilocks::Poseidon2Goldilocks::<8>::new_from_rng_128(&mut rng);
    let hash = PaddingFreeSponge::<_, 8, 4, 4>::new(perm.clone());
    let compress = TruncatedPermutation::<_, 2, 4, 8>::new(perm.clone());
    let val_mmcs = p3_merkle_tree::MerkleTreeMmcs::new(hash, compress, 3);
    let challenge_mmcs = p3_commit::ExtensionMmcs::new(val_mmcs.clone());
    let dft = p3_dft::Radix2DitParallel::default();
    let fri_params = p3_fri::FriParameters::new_testing(challenge_mmcs, 0);
    let pcs = p3_fri::TwoAdicFriPcs::new(dft, val_mmcs, fri_params);
    let challenger = p3_challenger::DuplexChallenger::new(perm);
    p3_uni_stark::StarkConfig::new(pcs, challenger)
}

/// Op list of a compiled circuit without constant values (which constants are zero is kept:
/// the Horner chaining class depends on it). Equal signatures = same tables, same wiring.
fn shape_sig<T: PrimeCharacteristicRing + PartialEq>(c: &p3_circuit::Circuit<T>) -> String {
    use p3_circuit::ops::Op;
    let mut s = String::new();
    for o in &c.ops {
        s.push_str(&match o {
            Op::Const { out, val } => format!("C{:?}{};", out, if *val == T::ZERO { "z" } else { "" }),
            Op::Public { out, public_pos } => format!("P{out:?}@{public_pos};"),
            Op::Alu { kind, a, b, c, out, intermediate_out } => format!("A{kind:?}({a:?},{b:?},{c:?},{out:?},{intermediate_out:?});"),
            Op::Hint { inputs, outputs, .. } => format!("H{inputs:?}->{outputs:?};"),
            Op::NonPrimitiveOpWithExecutor { inputs, outputs, .. } => format!("N{inputs:?}->{outputs:?};"),
        });
    }
    s
}

/// Reduced families of the extension-field pass.
fn ext_families(thorough: bool) -> Vec<Family> {
    const ALLA: [AK; 3] = [AK::Connect, AK::AssertZero, AK::AssertBool];
    const CONN: [AK; 2] = [AK::Connect, AK::AssertZero];
    const MULK: [VK; 4] = [VK::Mul, VK::Div, VK::MulAdd, VK::Horner];
    let single = [VK::Add, VK::Sub, VK::Mul, VK::Div, VK::MulAdd, VK::Select, VK::Horner];
    let mut v = vec![
        // every single call kind over fresh inputs / constants, with at most one assertion
        fam("x-single-k1-c1", &single, &ALLA, 1, 1, 4, 0, &[0, 1, 2], 1),
        // two calls of the multiplicative kinds
        fam("x-mulkinds-k2-c0", &MULK, &CONN, 2, 0, 3, 0, &[2], 2),
    ];
    if thorough {
        v.push(fam("x-single-k1-c1-priv", &single, &ALLA, 1, 1, 4, 1, &[0, 1, 2, 3], 1));
        v.push(fam("x-bin-k2-c1", &[VK::Add, VK::Sub, VK::Mul, VK::Div], &ALLA, 2, 1, 2, 0, &[0, 1, 2], 0));
        v.push(fam("x-mulkinds-k2-c1", &MULK, &CONN, 2, 1, 3, 0, &[2], 2));
        v.push(fam("x-horner-k3-c0", &[VK::Horner], &CONN, 3, 0, 2, 0, &[2], 3));
    }
    v
}

fn consts() -> Vec<F> {
    vec![F::ZERO, F::ONE, F::from_u64(5), F::from_u64(7)]
}

fn fam(name: &str, vk: &[VK], ak: &[AK], k: usize, c: usize, mp: usize, mv: usize, cs: &[u8], wide: usize) -> Family {
    Family {
        name: name.into(),
        value_kinds: vk.to_vec(),
        assert_kinds: ak.to_vec(),
        max_value_ops: k,
        max_asserts: c,
        max_pub: mp,
        max_priv: mv,
        consts: cs.to_vec(),
        max_wide: wide,
        wide_no_atoms: true,
        sym_reduce: true,
        stages: vec![],
        assert_split: None,
    }
}

fn c10_families(thorough: bool) -> Vec<Family> {
    const BIN: [VK; 4] = [VK::Add, VK::Sub, VK::Mul, VK::Div];
    const ALLA: [AK; 3] = [AK::Connect, AK::AssertZero, AK::AssertBool];
    const CONN: [AK; 2] = [AK::Connect, AK::AssertZero];
    let wide = [VK::Add, VK::Mul, VK::Sub, VK::MulAdd, VK::Select, VK::Horner, VK::Bits(2)];
    let mut v = vec![
        // single call of every kind (empty / single-row tables)
        fam("all-k1-c1", &[VK::Add, VK::Sub, VK::Mul, VK::Div, VK::MulAdd, VK::Select, VK::Horner, VK::Bits(2), VK::Bits(3)], &ALLA, 1, 1, 4, 1, &[0, 1, 2], 1),
        // Horner shapes: chains from zero, arbitrary accumulators, shared operands, adjacent chains
        fam("horner-k2-c0", &[VK::Horner], &CONN, 2, 0, 3, 0, &[2], 2),
        fam("horner-k3-c0", &[VK::Horner], &CONN, 3, 0, 2, 0, &[2], 3),
        // aliasing chains: up to three assertions among four publics, constants and one computed
        // value (several Const/Public rows on one slot)
        {
            let mut f = fam("alias-k1-c3", &[VK::Add, VK::Mul], &CONN, 1, 3, 4, 0, &[1, 2], 0);
            f.assert_split = Some((3, 1));
            f
        },
        // binary arithmetic with aliasing through one assertion
        fam("bin-k2-c1", &BIN, &ALLA, 2, 1, 3, 1, &[0, 1, 2], 0),
        // one wide call + one more call
        fam("wide-k2-c1", &wide, &CONN, 2, 1, 3, 1, &[2], 1),
    ];
    if thorough {
        v.push(fam("bin-k2-c2", &BIN, &ALLA, 2, 2, 3, 1, &[0, 1, 2], 0));
        v.push(fam("horner-k4-c0", &[VK::Horner], &CONN, 4, 0, 2, 0, &[2], 4));
        v.push(fam("horner-mix-k3-c1", &[VK::Horner, VK::Add, VK::Mul], &CONN, 3, 1, 3, 0, &[2], 3));
        v.push(fam("wide-k2-c1-w2", &wide, &ALLA, 2, 1, 4, 1, &[0, 1, 2], 2));
        v.push(fam("bin-k3-c1", &BIN, &CONN, 3, 1, 2, 1, &[2], 0));
    }
    v
}

fn packings(thorough: bool) -> Vec<(String, TablePacking)> {
    let mut v = vec![("default".to_string(), TablePacking::default())];
    v.push(("pub2-alu2".into(), TablePacking::new(2, 2)));
    v.push(("pub1-alu3-k3".into(), TablePacking::new(1, 3).with_horner_pack_k(3)));
    v.push(("pub2-alu1-min8".into(), TablePacking::new(2, 1).with_min_trace_height(8)));
    v.push(("pub1-alu2-k4".into(), TablePacking::new(1, 2).with_horner_pack_k(4)));
    // k >= 5 has two intermediate columns: the smallest k where a short run leaves one unused
    v.push(("pub1-alu1-k5".into(), TablePacking::new(1, 1).with_horner_pack_k(5)));
    if thorough {
        v.push(("pub3-alu4-k2-min16".into(), TablePacking::new(3, 4).with_min_trace_height(16)));
        v.push(("pub1-alu2-k6".into(), TablePacking::new(1, 2).with_horner_pack_k(6)));
        v.push(("pub1-alu1-k7".into(), TablePacking::new(1, 1).with_horner_pack_k(7)));
    }
    v
}

struct Outcome {
    stage: &'static str, // "run" | "prove" | "verify" | "prep" | "panic" | "ok" | "nosat" | "precondition" | "skipped"
    detail: String,
    inputs: Vec<u64>,
    /// Some(class) if the circuit exhibits a structural defect class (C09 audit / Horner
    /// chaining) that makes an honest proof fail by design; such programs are not required
    /// to pass, their failures are reported under the class key.
    expected_fail: Option<String>,
}

fn first_sat_input(p: &Program, cs: &[F], n_pub: usize, n_priv: usize) -> Option<Vec<F>> {
    let vals = [F::ONE, F::TWO, F::ZERO, F::from_u64(3), F::from_u64(5)];
    let vals = if n_pub + n_priv >= 4 { &vals[..3] } else { &vals[..] };
    for v in input_vectors(vals, n_pub + n_priv) {
        let re = ref_eval::<F, F>(p, cs, &v[..n_pub], &v[n_pub..]);
        if !re.undefined && re.sat {
            return Some(v);
        }
    }
    None
}

fn classify(circuit: &p3_circuit::Circuit<F>, nodes: &[p3_circuit::expr::Expr<F>]) -> Result<Option<String>, String> {
    use vpe1::bus::{audit, horner_not_row_chained, ports, prepare, slot_sources};
    if horner_not_row_chained(circuit) {
        return Ok(Some("horner_acc_not_row_chained".into()));
    }
    // classification uses the per-op view (independent of packing): a packing-specific
    // imbalance is NOT a known class and must surface as an unexplained failure
    let prim = prepare(circuit)?;
    let ps = ports(circuit, &prim).unwrap_or_else(|e| vpcore::machinery_error(&format!("C10 cannot read preprocessed layout: {e}")));
    let f = audit(&ps, &slot_sources(nodes, circuit));
    Ok(f.iter().find(|x| x.unbalanced).map(|x| format!("bus_unbalanced:{}", x.key())))
}

fn check_program(p: &Program, cs: &[F], packing: &TablePacking, prove_expected_fail: bool) -> Option<Outcome> {
    let m = materialize::<F, F>(p, cs).ok()?;
    let (np, nv) = (m.n_pub, m.n_priv);
    let nodes = m.nodes.clone();
    let circuit = m.builder.build().ok()?; // not accepted by the builder: no claim
    let Some(v) = first_sat_input(p, cs, np, nv) else {
        return Some(Outcome { stage: "nosat", detail: String::new(), inputs: vec![], expected_fail: None });
    };
    let expected_fail = match classify(&circuit, &nodes) {
        Ok(c) => c,
        Err(e) if e.contains("UnclaimedPrivateInput") => {
            // documented precondition: a private input must be consumed by an ALU op
            return Some(Outcome { stage: "precondition", detail: e, inputs: vec![], expected_fail: None });
        }
        Err(e) => return Some(Outcome { stage: "prep", detail: e, inputs: vec![], expected_fail: None }),
    };
    if expected_fail.is_some() && !prove_expected_fail {
        return Some(Outcome { stage: "skipped", detail: String::new(), inputs: vec![], expected_fail });
    }
    let iv: Vec<u64> = v.iter().map(|x| x.as_canonical_u64()).collect();
    let mut r = circuit.runner();
    let run = (|| {
        r.set_public_inputs(&v[..np]).map_err(|e| format!("{e:?}"))?;
        r.set_private_inputs(&v[np..]).map_err(|e| format!("{e:?}"))?;
        r.run().map_err(|e| format!("{e:?}"))
    })();
    let traces = match run {
        Ok(t) => t,
        Err(e) => return Some(Outcome { stage: "run", detail: e, inputs: iv, expected_fail }),
    };
    let verdict = prove_verify_bb1(&circuit, &traces, packing);
    let (stage, detail) = match verdict {
        Verdict::Accepted => ("ok", String::new()),
        Verdict::PrepErr(e) => ("prep", e),
        Verdict::ProveErr(e) => ("prove", e),
        Verdict::VerifyErr(e) => ("verify", e),
        Verdict::Panic(e) => ("panic", e),
    };
    Some(Outcome { stage, detail, inputs: iv, expected_fail })
}

fn short(detail: &str) -> String {
    // error kind without witness numbers
    let mut s: String = detail.chars().filter(|c| !c.is_ascii_digit()).collect();
    s.truncate(60);
    s
}

fn minimise(p: &Program, stage: &str, cs: &[F], packing: &TablePacking) -> Program {
    let fails = |q: &Program| check_program(q, cs, packing, false).is_some_and(|o| o.stage == stage && o.expected_fail.is_none());
    let mut cur = p.clone();
    loop {
        let mut improved = false;
        for j in (0..cur.calls.len()).rev() {
            if let Some(q) = remove_call(&cur, j)
                && fails(&q)
            {
                cur = q;
                improved = true;
                break;
            }
        }
        if !improved {
            return cur;
        }
    }
}

fn main() {
    vpcore::install_quiet_panic_hook();
    let ctx = Ctx::from_args("C10", "model_checking");
    let cs = consts();
    let report = Report::new();
    let packs = packings(!ctx.quick());

    if let Some(path) = &ctx.replay {
        let r = vpcore::load_replay(path);
        let p: Program = vpcore::serde_json::from_value(r["program"].clone()).unwrap_or_else(|e| vpcore::machinery_error(&format!("bad replay: {e}")));
        let pk = r["packing"].as_str().unwrap_or("default").to_string();
        if let Some(field) = r["field"].as_str() {
            match field {
                "bb4" => bb4::replay(&p, &pk, &report),
                "bb5" => bb5::replay(&p, &pk, &report),
                "kb5" => kb5::replay(&p, &pk, &report),
                "gl2" => gl2::replay(&p, &pk, &report),
                other => vpcore::machinery_error(&format!("bad replay: unknown field {other}")),
            }
            let cov = json!({"states":1,"transitions":1,"traces_validated_against_impl":1,"samples":[p.show()],"replay":true});
            finish(&ctx, cov, vec![], &report);
        }
        let packing = packs.iter().find(|(n, _)| *n == pk).map(|(_, p)| p.clone()).unwrap_or_default();
        println!("replaying: {} [{pk}]", p.show());
        if let Ok(m) = materialize::<F, F>(&p, &cs) {
            if let Ok(c) = m.builder.build() {
                for op in &c.ops {
                    println!("  op {op:?}");
                }
            }
        }
        if let Some(o) = check_program(&p, &cs, &packing, true) {
            println!("  stage={} expected_fail={:?} inputs={:?} {}", o.stage, o.expected_fail, o.inputs, o.detail);
            if !matches!(o.stage, "ok" | "nosat" | "precondition" | "skipped") {
                let key = match &o.expected_fail {
                    Some(c) => format!("honest_proof_fails:{c}"),
                    None => format!("unexplained_failure:{}:{}", o.stage, short(&o.detail)),
                };
                report.violation(key, o.detail, json!({"program": p, "packing": pk}));
            }
        }
        let cov = json!({"states":1,"transitions":1,"traces_validated_against_impl":1,"samples":[p.show()],"replay":true});
        finish(&ctx, cov, vec![], &report);
    }

    // budget fractions: D = 1 families, derived programs, configuration sweep, Horner shape sweep;
    // the rest (up to 0.98) belongs to the extension-field pass
    let (cap_fam, cap_derived, cap_sweep, cap_shapes) = if ctx.quick() { (0.68, 0.72, 0.77, 0.79) } else { (0.70, 0.75, 0.80, 0.82) };
    let mut fams = c10_families(!ctx.quick());
    if let Some(f) = ctx.opt("family") {
        fams = c10_families(true).into_iter().filter(|x| x.name == f).collect();
    }
    let seen_keys = SeenSet::default();
    let histo = Histo::new();
    let samples: Mutex<Vec<Value>> = Mutex::new(vec![]);
    let proved = AtomicU64::new(0);
    let raw = AtomicU64::new(0);
    let minimise_budget = AtomicU64::new(150);
    let ef_budget = AtomicU64::new(if ctx.quick() { 3000 } else { 100000 });
    let per_class_proved: Mutex<std::collections::HashMap<String, u32>> = Mutex::new(Default::default());
    let class_passed = AtomicU64::new(0);
    let mut fam_reports = vec![];
    let (mut th, mut tc) = (0u64, 0u64);
    let mut all_exhaustive = true;
    // representatives for the configuration sweep: first program of each (family, #calls, last call kind)
    let reps: Mutex<Vec<Program>> = Mutex::new(vec![]);
    let rep_seen = SeenSet::default();

    let record = |p: &Program, o: Outcome, pk: &str, packing: &TablePacking| {
        raw.fetch_add(1, Ordering::Relaxed);
        let (q, minimised) = if o.expected_fail.is_none() && minimise_budget.fetch_update(Ordering::Relaxed, Ordering::Relaxed, |b| b.checked_sub(1)).is_ok() {
            (minimise(p, o.stage, &cs, packing), true)
        } else {
            (p.clone(), false)
        };
        let o2 = check_program(&q, &cs, packing, true).filter(|x| x.stage == o.stage).unwrap_or(o);
        let key = match &o2.expected_fail {
            Some(c) => format!("honest_proof_fails:{c}"),
            None => format!("unexplained_failure:{}:{}", o2.stage, short(&o2.detail)),
        };
        report.violation_sized(
            key.clone(),
            format!("[{key}] e.g. {} inputs={:?} packing={pk}: {} fails: {}", q.show(), o2.inputs, o2.stage, o2.detail),
            json!({"program": q, "found_in": p, "inputs": o2.inputs, "stage": o2.stage, "detail": o2.detail, "packing": pk, "minimised": minimised}),
            q.show().len(),
        );
    };

    for (fi, fam) in fams.iter().enumerate() {
        let stats = Stats::default();
        let seen_prune = SeenSet::default();
        let per_class_proved = &per_class_proved;
        let stop_at = ((cap_fam - 0.02) * (fi as f64 + 1.0) / fams.len() as f64 + 0.02).min(cap_fam);
        let t0 = ctx.elapsed_s();
        explore::<F, F>(fam, &cs, &ctx, stop_at, &seen_keys, &seen_prune, &stats, &|_p, _m| {}, &|p, _m| {
            // a budgeted number of expected-to-fail programs is proven anyway: it validates the
            // structural classification against the implementation
            let prove_ef = ef_budget.fetch_update(Ordering::Relaxed, Ordering::Relaxed, |b| b.checked_sub(1)).is_ok();
            let Some(mut o) = check_program(p, &cs, &packs[0].1, prove_ef) else {
                histo.add("build_rejected");
                return;
            };
            // independently of the global budget, the first programs of EVERY structural class
            // are proven: a class the known-findings file does not list must not hide behind it
            if o.stage == "skipped" {
                let class = o.expected_fail.clone().unwrap_or_default();
                let take = {
                    let mut m = per_class_proved.lock().unwrap();
                    let n = m.entry(class).or_insert(0u32);
                    if *n < 6 {
                        *n += 1;
                        true
                    } else {
                        false
                    }
                };
                if take {
                    if let Some(o2) = check_program(p, &cs, &packs[0].1, true) {
                        o = o2;
                    }
                }
            }
            let tag = if o.expected_fail.is_some() { "known_class" } else { "clean" };
            histo.add(&format!("default/{tag}/{}", o.stage));
            if matches!(o.stage, "nosat" | "precondition" | "skipped") {
                if o.stage != "skipped" && prove_ef {
                    ef_budget.fetch_add(1, Ordering::Relaxed);
                }
                return;
            }
            if o.expected_fail.is_none() && prove_ef {
                ef_budget.fetch_add(1, Ordering::Relaxed);
            }
            proved.fetch_add(1, Ordering::Relaxed);
            if o.stage != "ok" {
                record(p, o, "default", &packs[0].1);
            } else if o.expected_fail.is_some() {
                // classified as unbalanced / not chained but the honest proof verifies:
                // value-dependent (e.g. accumulator value 0) or the audit model is off
                class_passed.fetch_add(1, Ordering::Relaxed);
            } else {
                // representative per shape class: multiset of call kinds
                // shape class for the configuration sweep: call kinds in order, with operands
                // abstracted to handle / fresh / constant
                let kinds: Vec<String> = p
                    .calls
                    .iter()
                    .map(|c| {
                        let name = format!("{c:?}");
                        let name = name.split('(').next().unwrap().to_string();
                        let ops: String = c
                            .operands()
                            .iter()
                            .map(|o| match o {
                                vpe1::Opnd::H(_) => 'h',
                                vpe1::Opnd::C(_) => 'c',
                                _ => 'n',
                            })
                            .collect();
                        format!("{name}:{ops}")
                    })
                    .collect();
                if rep_seen.insert(vpe1::explore::h128(&kinds.join(","))) {
                    reps.lock().unwrap().push(p.clone());
                }
            }
            let mut s = samples.lock().unwrap();
            if s.len() < 6 && p.calls.len() >= 2 {
                s.push(json!(p.show()));
            }
        });
        let h = stats.histories.load(Ordering::Relaxed);
        let c = stats.canonical.load(Ordering::Relaxed);
        let to = stats.timed_out.load(Ordering::Relaxed);
        th += h;
        tc += c;
        all_exhaustive &= !to;
        fam_reports.push(json!({"family": fam.name, "bounds": fam, "histories": h, "new_canonical_programs": c, "exhaustive": !to, "wall_s": ctx.elapsed_s() - t0}));
        eprintln!("family {} histories={} canonical={} exhaustive={} t={:.1}s", fam.name, h, c, !to, ctx.elapsed_s() - t0);
    }

    // derived programs (de-duplication stress): every value-only program of at most two calls,
    // emitted twice over aliased inputs, the copy pinned to a public input, three consumers
    let derived_done = AtomicU64::new(0);
    {
        use vpe1::enumerate::Family;
        let base = Family {
            name: "dupbase-k2-c0".into(),
            value_kinds: vec![VK::Add, VK::Sub, VK::Mul, VK::MulAdd],
            assert_kinds: vec![],
            max_value_ops: 2,
            max_asserts: 0,
            max_pub: 3,
            max_priv: 0,
            consts: vec![2],
            max_wide: 1,
            wide_no_atoms: true,
            sym_reduce: true,
            stages: vec![],
            assert_split: None,
        };
        let (s2, p2, st2) = (SeenSet::default(), SeenSet::default(), Stats::default());
        explore::<F, F>(&base, &cs, &ctx, cap_derived, &s2, &p2, &st2, &|_p, _m| {}, &|p, _m| {
            let Some(q) = vpe1::prog::duplicate_with_aliases(p) else { return };
            if let Some(o) = check_program(&q, &cs, &packs[0].1, false) {
                derived_done.fetch_add(1, Ordering::Relaxed);
                histo.add(&format!("derived_alias_dup/{}", o.stage));
                if !matches!(o.stage, "ok" | "nosat" | "precondition" | "skipped") {
                    record(&q, o, "default", &packs[0].1);
                }
            }
        });
    }

    // configuration sweep on the representatives
    use vpcore::rayon::prelude::*;
    let reps = reps.into_inner().unwrap();
    let sweep_done = AtomicU64::new(0);
    let sweep: Vec<(usize, usize)> = (0..reps.len()).flat_map(|i| (1..packs.len()).map(move |j| (i, j))).collect();
    sweep.par_iter().for_each(|&(i, j)| {
        if ctx.used() > cap_sweep {
            return;
        }
        let (pk, packing) = &packs[j];
        if let Some(o) = check_program(&reps[i], &cs, packing, false) {
            sweep_done.fetch_add(1, Ordering::Relaxed);
            histo.add(&format!("{pk}/{}", o.stage));
            if !matches!(o.stage, "ok" | "nosat" | "precondition" | "skipped") {
                record(&reps[i], o, pk, packing);
            }
        }
    });
    let sweep_complete = sweep_done.load(Ordering::Relaxed) as usize == sweep.len();

    // Horner chain shapes × scheduler configurations: chains of L steps from the zero accumulator
    // (L up to several packed rows), alone or with one / two other ALU ops around them, under every
    // (ALU lanes, packing factor) pair: row cuts of arity K_max / shorter tails, separators in the
    // other lanes, chains ending the table.
    let (max_len, lanes_set, k_set): (usize, Vec<usize>, Vec<usize>) =
        if ctx.quick() { (11, vec![1, 2, 3], vec![2, 3, 4, 5]) } else { (16, vec![1, 2, 3, 4], vec![2, 3, 4, 5, 6, 7]) };
    let mut shapes: Vec<Program> = vec![];
    for len in 1..=max_len {
        for extra in 0..3u8 {
            use vpe1::Opnd::{C, H, NewPub};
            use vpe1::prog::Call;
            let mut calls = vec![];
            // h0 = alpha, h1 = z (publics created by the first step, or by the leading add)
            let mut last;
            if extra == 2 {
                calls.push(Call::Add(NewPub, NewPub)); // h0, h1, h2 = h0 + h1
                calls.push(Call::Horner(C(0), H(0), H(1), H(2)));
                last = 3u8;
            } else {
                calls.push(Call::Horner(C(0), NewPub, NewPub, H(0)));
                last = 2u8;
            }
            for _ in 1..len {
                calls.push(Call::Horner(H(last), H(0), H(1), H(0)));
                last += 1;
            }
            if extra >= 1 {
                calls.push(Call::Sub(H(last), H(1)));
            }
            shapes.push(Program { calls });
        }
    }
    let shape_packs: Vec<(String, TablePacking)> = lanes_set
        .iter()
        .flat_map(|&l| k_set.iter().map(move |&k| (format!("pub1-alu{l}-k{k}"), TablePacking::new(1, l).with_horner_pack_k(k))))
        .collect();
    let shape_jobs: Vec<(usize, usize)> = (0..shapes.len()).flat_map(|i| (0..shape_packs.len()).map(move |j| (i, j))).collect();
    let shape_done = AtomicU64::new(0);
    shape_jobs.par_iter().for_each(|&(i, j)| {
        if ctx.used() > cap_shapes {
            return;
        }
        let (pk, packing) = &shape_packs[j];
        if let Some(o) = check_program(&shapes[i], &cs, packing, false) {
            shape_done.fetch_add(1, Ordering::Relaxed);
            histo.add(&format!("horner_shapes/{}", o.stage));
            if !matches!(o.stage, "ok" | "nosat" | "precondition" | "skipped") {
                record(&shapes[i], o, pk, packing);
            }
        }
    });
    let shapes_complete = shape_done.load(Ordering::Relaxed) as usize == shape_jobs.len();

    // extension-field pass: the remaining window is shared equally between the fields still to run
    let xfams = ext_families(!ctx.quick());
    let only_field = ctx.opt("field").map(|s| s.to_string());
    type Pass = fn(&Ctx, &Report, &[Family], f64) -> Value;
    let passes: Vec<(&str, Pass)> = vec![("bb5", bb5::run_pass as Pass), ("kb5", kb5::run_pass as Pass), ("bb4", bb4::run_pass as Pass), ("gl2", gl2::run_pass as Pass)]
        .into_iter()
        .filter(|(t, _)| only_field.as_deref().is_none_or(|f| f == *t))
        .collect();
    let mut ext_cov = vec![];
    let ext_end = 0.98f64;
    for (i, (_tag, pass)) in passes.iter().enumerate() {
        let now = ctx.used();
        let stop_at = now + (ext_end - now).max(0.0) / (passes.len() - i) as f64;
        ext_cov.push(pass(&ctx, &report, &xfams, stop_at));
    }
    let n = |v: &Value, k: &str| v[k].as_u64().unwrap_or(0);
    let ext_states: u64 = ext_cov.iter().map(|c| n(c, "states")).sum();
    let ext_transitions: u64 = ext_cov.iter().map(|c| n(c, "transitions")).sum();
    let ext_runs: u64 = ext_cov.iter().map(|c| n(c, "proved_and_verified_runs")).sum();
    let ext_exhaustive = ext_cov.iter().all(|c| c["exhaustive"].as_bool().unwrap_or(false));
    {
        let mut s = samples.lock().unwrap();
        for c in &ext_cov {
            if let Some(x) = c["samples"].as_array().and_then(|a| a.first()) {
                s.push(x.clone());
            }
        }
    }

    let cov = json!({
        "states": tc + ext_states,
        "transitions": th + ext_transitions,
        "traces_validated_against_impl": proved.load(Ordering::Relaxed) + sweep_done.load(Ordering::Relaxed) + ext_runs,
        "samples": *samples.lock().unwrap(),
        "state_definition": "a state is a builder program identified by the H1 snapshot; for every state with a satisfying input over the alphabet the real runner, prover and verifier are executed",
        "families": fam_reports,
        "exhaustive": all_exhaustive && sweep_complete && shapes_complete && ext_exhaustive,
        "extension_field_pass": {
            "fields": ext_cov,
            "per_field_counts": ext_cov.iter().map(|c| json!({"field": c["field"], "programs": c["states"], "proved_and_verified_runs": c["proved_and_verified_runs"],
                "all_coefficients_nonzero": c["runs_with_every_input_coefficient_nonzero"], "exhaustive": c["exhaustive"]})).collect::<Vec<_>>(),
            "exhaustive": ext_exhaustive,
        },
        "derived_alias_duplicated_programs_checked": derived_done.load(Ordering::Relaxed),
        "horner_shape_sweep": {"chain_lengths": format!("1..={max_len}"), "surrounding_ops": ["none", "one sub after", "one add before + one sub after"], "alu_lanes": lanes_set, "packing_factors": k_set,
            "proved_and_verified": shape_done.load(Ordering::Relaxed), "planned": shape_jobs.len()},
        "programs_proved_default_config": proved.load(Ordering::Relaxed),
        "configuration_sweep": {"representatives": reps.len(), "configurations": packs.iter().map(|(n, _)| n.clone()).collect::<Vec<_>>(), "runs": sweep_done.load(Ordering::Relaxed), "complete": sweep_complete},
        "outcome_histogram": histo.to_json(),
        "raw_failures": raw.load(Ordering::Relaxed),
        "known_class_programs_whose_honest_proof_verified_anyway": class_passed.load(Ordering::Relaxed),
        "field": "BabyBear D=1 (full families, packing sweeps); BabyBear^4, BabyBear^5, KoalaBear^5 (trinomial), Goldilocks^2 (reduced program space, see extension_field_pass)",
    });
    finish(&ctx, cov, vec![
        "satisfying inputs are decided by the reference semantics (vpe1::prog::ref_eval)".into(),
        "one satisfying input per program (the first over a 5-value alphabet)".into(),
        "extension-field pass: known structural classes are decided on the BabyBear D=1 twin of the program (same op list up to constant values, checked); test-grade FRI parameters".into(),
    ], &report);
}
