fn main() {
    eprintln!("MACHINERY-ERROR: check c10 not built yet");
    std::process::exit(2);
}
