//! ALU table: row-level exhaustive check of `AluAir` (all op kinds, reductions, lanes,
//! packed-Horner arities).
//!
//! Oracle. The *reference relation* of a row is written here with native Plonky3
//! extension-field arithmetic (`BinomialExtensionField`, `QuinticTrinomialExtensionField`,
//! or the base field) — it never touches the hand-expanded multiplication of the AIR:
//!
//! * Add      `a + b = out`
//! * Mul      `a · b = out`
//! * Bool     `a ∈ {0, 1}` (as an extension element: `a[0] ∈ {0,1}`, `a[i≥1] = 0`) and
//!            `out = a` (the runner defines the op as `out := a`)
//! * MulAdd   `a · b + c = out`
//! * Horner, arity k (k = 1 single step, k ≥ 2 packed): with `acc_0 = out` of the previous
//!   row (cyclically) and `acc_{t+1} = acc_t · b + c_t − a_t`:  `out = acc_k`; every stored
//!   intermediate `int_j` with `2(j+1) < k` equals `acc_{2(j+1)}`; for k ≥ 2 the witness
//!   `b_sq = b · b`. Cells a row's arity does not use are free.
//! * idle / separator / padding lanes (all selectors 0): `out = 0` in every coefficient (a
//!   Horner chain takes its first accumulator from the separator row's `out`), other cells free.
//!
//! A case is one concrete trace = a base trace every row of which satisfies its relation
//! (checked in full by AIR and reference) with the cells of ONE row edited. Verdicts are
//! compared:  AIR accepts (no failing constraint at the two evaluation indices that can see
//! the row) ⇔ reference accepts (relation of the row and of its successor, whose Horner
//! accumulator is this row's `out`).

use p3_air::BaseAir;
use p3_circuit::tables::AluTrace;
use p3_circuit::{AluOpKind, WitnessId};
use p3_circuit_prover::air::{AluAir, AluExtMulKind};
use p3_field::{BasedVectorSpace, Field, PrimeField64};
use p3_matrix::Matrix;
use vpcore::serde_json::{Value, json};

use crate::evalrow::{Mat, affected, any_failure, failures_at};
use crate::stats::{Stats, fnv64};
use crate::{Env, mach};

const PLW: usize = 13; // preprocessed columns per lane (documented layout)
const STEP_PW: usize = 6; // preprocessed columns per packed step

#[derive(Clone, Copy, Debug, PartialEq, Eq)]
pub enum Kind {
    Idle,
    Add,
    Mul,
    Bool,
    MulAdd,
    Horner,
}

/// Column layout of the ALU main / preprocessed traces, as documented in `alu_air.rs`.
/// Cross-checked against the real AIR widths and (for Horner rows) against the repo's
/// trace generator cell by cell.
#[derive(Clone, Copy)]
pub struct Layout {
    pub d: usize,
    pub lanes: usize,
    pub k_max: usize,
    pub num_int: usize,
    pub extra0: usize,
    pub ac0: usize,
    pub bsq0: usize,
    pub width: usize,
    pub p_extra0: usize,
    pub p_width: usize,
}
impl Layout {
    pub fn new(d: usize, lanes: usize, k_max: usize) -> Self {
        let num_int = (k_max - 1) / 2;
        let extra0 = lanes * 4 * d;
        let ac0 = extra0 + num_int * d;
        let bsq0 = ac0 + 2 * (k_max - 1) * d;
        Layout {
            d,
            lanes,
            k_max,
            num_int,
            extra0,
            ac0,
            bsq0,
            width: bsq0 + d,
            p_extra0: lanes * PLW,
            p_width: lanes * PLW + (k_max - 1) + STEP_PW * (k_max - 1),
        }
    }
    /// column of coefficient `i` of operand `op` (0=a,1=b,2=c,3=out) in `lane`
    pub fn cell(&self, lane: usize, op: usize, i: usize) -> usize {
        lane * 4 * self.d + op * self.d + i
    }
    pub fn int_cell(&self, j: usize, i: usize) -> usize {
        self.extra0 + j * self.d + i
    }
    /// packed step t ≥ 1: which=0 → a_t, which=1 → c_t
    pub fn ac_cell(&self, t: usize, which: usize, i: usize) -> usize {
        self.ac0 + (2 * (t - 1) + which) * self.d + i
    }
    pub fn bsq_cell(&self, i: usize) -> usize {
        self.bsq0 + i
    }
    pub fn describe(&self, col: usize) -> String {
        let d = self.d;
        if col < self.extra0 {
            let lane = col / (4 * d);
            let op = (col % (4 * d)) / d;
            format!("lane{lane}.{}[{}]", ["a", "b", "c", "out"][op], col % d)
        } else if col < self.ac0 {
            format!("int{}[{}]", (col - self.extra0) / d, col % d)
        } else if col < self.bsq0 {
            let q = (col - self.ac0) / d;
            format!("{}{}[{}]", if q % 2 == 0 { "a" } else { "c" }, q / 2 + 1, (col - self.ac0) % d)
        } else {
            format!("b_sq[{}]", col - self.bsq0)
        }
    }
    /// coarse class of a column, used in violation keys
    pub fn class(&self, col: usize) -> &'static str {
        let d = self.d;
        if col < self.extra0 {
            ["a", "b", "c", "out"][(col % (4 * d)) / d]
        } else if col < self.ac0 {
            "int"
        } else if col < self.bsq0 {
            if ((col - self.ac0) / d) % 2 == 0 { "a_t" } else { "c_t" }
        } else {
            "b_sq"
        }
    }
}

pub struct Table<F: Field, const D: usize> {
    pub air: AluAir<F, D>,
    pub prep: Mat<F>,
    pub lay: Layout,
    pub cfg: String,
    pub red: String,
}

pub fn ef_from<F: Field, EF: BasedVectorSpace<F>>(c: &[F]) -> EF {
    EF::from_basis_coefficients_slice(c).unwrap_or_else(|| mach("bad coefficient slice"))
}
fn fu<F: PrimeField64>(x: &F) -> u64 {
    x.as_canonical_u64()
}
pub fn show<F: PrimeField64, EF: BasedVectorSpace<F>>(x: &EF) -> Vec<u64> {
    x.as_basis_coefficients_slice().iter().map(fu).collect()
}

impl<F: PrimeField64, const D: usize> Table<F, D> {
    pub fn build(
        cfg: &str,
        red: &str,
        kind: AluExtMulKind<F>,
        lanes: usize,
        k_max: usize,
        ops: &[(AluOpKind, [u32; 4], u32)],
    ) -> Self {
        let neg1 = F::ZERO - F::ONE;
        let mut p = Vec::with_capacity(ops.len() * PLW);
        for (k, idx, mult_out) in ops {
            let (s_add, s_bool, s_ma, s_h) = match k {
                AluOpKind::Add => (1, 0, 0, 0),
                AluOpKind::Mul => (0, 0, 0, 0),
                AluOpKind::BoolCheck => (0, 1, 0, 0),
                AluOpKind::MulAdd => (0, 0, 1, 0),
                AluOpKind::HornerAcc => (0, 0, 0, 1),
            };
            p.extend([
                neg1,
                F::from_u32(s_add),
                F::from_u32(s_bool),
                F::from_u32(s_ma),
                F::from_u32(s_h),
                F::from_u32(idx[0] * D as u32),
                F::from_u32(idx[1] * D as u32),
                F::from_u32(idx[2] * D as u32),
                F::from_u32(idx[3] * D as u32),
                neg1,
                // mult_out: number of readers of the created output (0 = off the bus); the
                // scheduler packs a Horner step only when its inner outputs are off the bus
                F::from_u32(*mult_out),
                F::ONE,
                F::ONE,
            ]);
        }
        let air =
            AluAir::<F, D>::from_reduction_with_preprocessed(ops.len(), lanes, kind, p, k_max);
        let lay = Layout::new(D, lanes, k_max);
        let pm = BaseAir::<F>::preprocessed_trace(&air)
            .unwrap_or_else(|| mach("AluAir has no preprocessed trace"));
        if BaseAir::<F>::width(&air) != lay.width || pm.width() != lay.p_width {
            mach(&format!(
                "ALU layout drift: air width {} prep {} vs documented {} / {}",
                BaseAir::<F>::width(&air),
                pm.width(),
                lay.width,
                lay.p_width
            ));
        }
        let prep = Mat { w: pm.width(), v: pm.values };
        Table { air, prep, lay, cfg: cfg.to_string(), red: red.to_string() }
    }

    pub fn kind(&self, r: usize, lane: usize) -> Kind {
        let p = &self.prep.row(r)[lane * PLW..lane * PLW + 5];
        let neg1 = F::ZERO - F::ONE;
        let sel: Vec<bool> = p[1..5]
            .iter()
            .map(|x| {
                if *x == F::ONE {
                    true
                } else if *x == F::ZERO {
                    false
                } else {
                    mach("non-boolean ALU selector in preprocessed trace")
                }
            })
            .collect();
        let n = sel.iter().filter(|b| **b).count();
        if p[0] == F::ZERO {
            if n != 0 {
                mach("selector set on an inactive ALU row");
            }
            Kind::Idle
        } else if p[0] == neg1 {
            match (n, sel[0], sel[1], sel[2], sel[3]) {
                (0, ..) => Kind::Mul,
                (1, true, ..) => Kind::Add,
                (1, _, true, ..) => Kind::Bool,
                (1, _, _, true, _) => Kind::MulAdd,
                (1, _, _, _, true) => Kind::Horner,
                _ => mach("several ALU selectors set"),
            }
        } else {
            mach("unexpected mult_a in ALU preprocessed trace")
        }
    }
    /// packed arity of lane 0 in row r (0 = no arity selector)
    pub fn arity(&self, r: usize) -> usize {
        let p = self.prep.row(r);
        let mut k = 0;
        for kk in 2..=self.lay.k_max {
            let s = p[self.lay.p_extra0 + kk - 2];
            if s == F::ONE {
                if k != 0 {
                    mach("two arity selectors set");
                }
                k = kk;
            } else if s != F::ZERO {
                mach("non-boolean arity selector");
            }
        }
        k
    }
    pub fn kind_name(&self, r: usize, lane: usize) -> String {
        match self.kind(r, lane) {
            Kind::Horner => format!("Horner/k{}", self.arity(r).max(1)),
            k => format!("{k:?}"),
        }
    }

    pub fn get<EF: BasedVectorSpace<F>>(&self, m: &Mat<F>, r: usize, col: usize) -> EF {
        ef_from(&m.row(r)[col..col + D])
    }
    pub fn put<EF: BasedVectorSpace<F>>(&self, m: &mut Mat<F>, r: usize, col: usize, x: &EF) {
        m.row_mut(r)[col..col + D].copy_from_slice(x.as_basis_coefficients_slice());
    }

    /// The reference relation of row `r` (all lanes). See module doc.
    pub fn rel<EF: Field + BasedVectorSpace<F>>(&self, m: &Mat<F>, r: usize) -> bool {
        let l = &self.lay;
        for lane in 0..l.lanes {
            let a: EF = self.get(m, r, l.cell(lane, 0, 0));
            let b: EF = self.get(m, r, l.cell(lane, 1, 0));
            let c: EF = self.get(m, r, l.cell(lane, 2, 0));
            let out: EF = self.get(m, r, l.cell(lane, 3, 0));
            let ok = match self.kind(r, lane) {
                Kind::Idle => out == EF::ZERO,
                Kind::Add => a + b == out,
                Kind::Mul => a * b == out,
                Kind::Bool => (a == EF::ZERO || a == EF::ONE) && out == a,
                Kind::MulAdd => a * b + c == out,
                Kind::Horner => {
                    if lane != 0 {
                        mach("Horner op scheduled outside lane 0");
                    }
                    let h = m.h();
                    let prev: EF = self.get(m, (r + h - 1) % h, l.cell(0, 3, 0));
                    let k = self.arity(r).max(1);
                    let mut acc = prev;
                    let mut accs = vec![acc];
                    for t in 0..k {
                        let (at, ct): (EF, EF) = if t == 0 {
                            (a, c)
                        } else {
                            (
                                self.get(m, r, l.ac_cell(t, 0, 0)),
                                self.get(m, r, l.ac_cell(t, 1, 0)),
                            )
                        };
                        acc = acc * b + ct - at;
                        accs.push(acc);
                    }
                    let mut ok = out == accs[k];
                    for j in 0..l.num_int {
                        if 2 * (j + 1) < k {
                            let int_j: EF = self.get(m, r, l.int_cell(j, 0));
                            ok &= int_j == accs[2 * (j + 1)];
                        }
                    }
                    if k >= 2 {
                        let bsq: EF = self.get(m, r, l.bsq_cell(0));
                        ok &= bsq == b * b;
                    }
                    ok
                }
            };
            if !ok {
                return false;
            }
        }
        true
    }

    /// Full check of a base trace. Returns per evaluation index whether the AIR passes.
    /// A row the reference rejects in a *base* trace is a harness/generator fault.
    pub fn check_base<EF: Field + BasedVectorSpace<F>>(
        &self,
        env: &Env,
        st: &mut Stats,
        m: &Mat<F>,
        what: &str,
    ) -> Vec<bool> {
        let h = m.h();
        if h != self.prep.h() || m.w != self.lay.width {
            mach(&format!("{}: base trace shape {}x{} vs prep height {}", self.cfg, h, m.w, self.prep.h()));
        }
        st.base_traces += 1;
        st.base_rows += h as u64;
        let mut pass = vec![true; h];
        if let Some(r) = (0..h).find(|r| !self.rel::<EF>(m, *r)) {
            // Only traces produced by the repository's generator can get here (the harness'
            // own filler satisfies the reference by construction).
            let air_rejects = (0..h).any(|i| failures_at(&self.air, &self.prep, m, i) > 0);
            if !air_rejects {
                // AIR and generator agree with each other and disagree with the documented
                // layout the reference decodes rows with: the harness is stale, no verdict.
                mach(&format!(
                    "{} {what}: generated row {r} ({}) violates the reference relation but the AIR accepts \
                     the whole trace — column layout drift between /repo and the harness",
                    self.cfg,
                    self.kind_name(r, 0)
                ));
            }
            // a faulty trace generator is not C11's subject (the AIR rightly refuses its rows)
            st.bump("generated trace invalid: rejected by reference and by AIR (not a C11 matter)");
            st.notes.push(format!("{} {what}: the repository's trace generator produced a row violating its relation (row {r}); AIR rejects it too", self.cfg));
            return vec![false; h];
        }
        for i in 0..h {
            if failures_at(&self.air, &self.prep, m, i) > 0 {
                pass[i] = false;
                // which row's relation is being refused: intra-row constraints belong to
                // row i, inter-row Horner constraints to row i+1
                let n = (i + 1) % h;
                let kinds = format!(
                    "{}{}",
                    (0..self.lay.lanes).map(|l| self.kind_name(i, l)).collect::<Vec<_>>().join("+"),
                    if self.kind(n, 0) == Kind::Horner {
                        format!("->{}", self.kind_name(n, 0))
                    } else {
                        String::new()
                    }
                );
                st.bump("MISMATCH ref_accept/air_reject (base)");
                env.report.violation(
                    format!("C11|alu|valid_rejected|{}|{}", self.red, kinds),
                    format!(
                        "{}: a row satisfying its relation is rejected by AluAir at eval index {i} ({what}); row {:?} next {:?}",
                        self.cfg,
                        m.row(i).iter().map(fu).collect::<Vec<_>>(),
                        m.row(n).iter().map(fu).collect::<Vec<_>>()
                    ),
                    json!({"family":"alu","task":env.task,"cfg":self.cfg,"case":what,"eval_index":i,
                           "row":m.row(i).iter().map(fu).collect::<Vec<_>>(),
                           "next":m.row(n).iter().map(fu).collect::<Vec<_>>()}),
                );
            }
        }
        st.bump(if pass.iter().all(|p| *p) { "base accepted by both" } else { "base rejected by AIR" });
        pass
    }

    /// Judge one case: `edits` applied to row `r` of `m` (restored afterwards).
    pub fn judge<EF: Field + BasedVectorSpace<F>>(
        &self,
        env: &Env,
        st: &mut Stats,
        m: &mut Mat<F>,
        base_pass: &[bool],
        r: usize,
        lane: usize,
        edits: &[(usize, F)],
        label: &str,
        class: &str,
    ) {
        let h = m.h();
        let aff = affected(h, r);
        // a base trace the AIR already refuses here has been reported; do not pile on
        if !base_pass[aff[0]] || !base_pass[aff[1]] {
            return;
        }
        let old: Vec<F> = edits.iter().map(|(c, _)| m.row(r)[*c]).collect();
        if edits.iter().zip(&old).all(|((_, v), o)| v == o) {
            return; // not an edit
        }
        for (c, v) in edits {
            m.row_mut(r)[*c] = *v;
        }
        let n = (r + 1) % h;
        let ref_ok = self.rel::<EF>(m, r) && self.rel::<EF>(m, n);
        let air_ok = !any_failure(&self.air, &self.prep, m, &aff);
        let p = (r + h - 1) % h;
        // kind of the lane whose cells were edited (extra columns belong to lane 0)
        let kind = self.kind_name(r, lane);
        let hash = {
            let bytes = |row: &[F]| row.iter().flat_map(|x| fu(x).to_le_bytes()).collect::<Vec<u8>>();
            fnv64(&[
                self.cfg.as_bytes(),
                kind.as_bytes(),
                &bytes(self.prep.row(r)),
                &bytes(self.prep.row(n)),
                &bytes(m.row(r)),
                &bytes(&m.row(p)[self.lay.cell(0, 3, 0)..self.lay.cell(0, 3, 0) + D]),
                &bytes(m.row(n)),
            ])
        };
        st.case(&self.cfg, &kind, !ref_ok, hash);
        st.bump(match (ref_ok, air_ok) {
            (true, true) => "ref_accept/air_accept",
            (false, false) => "ref_reject/air_reject",
            (true, false) => "MISMATCH ref_accept/air_reject",
            (false, true) => "MISMATCH ref_reject/air_accept",
        });
        if st.samples.len() < 3 && !ref_ok && st.evals % 97 == 1 {
            st.samples.push(json!({"table":self.cfg,"row_kind":kind,"edit":label,
                "row_after_edit":m.row(r).iter().map(fu).collect::<Vec<_>>(),
                "reference":"reject","air":if air_ok {"accept"} else {"reject"}}));
        }
        if ref_ok != air_ok {
            let kinds = kind.clone();
            // an edit of lane 0 also changes the accumulator the next Horner row starts from
            let nk = if lane == 0 && self.kind(n, 0) == Kind::Horner {
                format!("->{}", self.kind_name(n, 0))
            } else {
                String::new()
            };
            let clause = if ref_ok { "valid_rejected" } else { "invalid_accepted" };
            env.report.violation(
                format!("C11|alu|{clause}|{}|{kinds}{nk}|edit={class}", self.red),
                format!(
                    "{}: row {r} ({kinds}{nk}) after edit `{label}`: reference relation {} but AluAir {}; prev.out {:?} row {:?} next {:?}",
                    self.cfg,
                    if ref_ok { "holds" } else { "is violated" },
                    if air_ok { "accepts" } else { "rejects" },
                    m.row(p)[self.lay.cell(0, 3, 0)..self.lay.cell(0, 3, 0) + D].iter().map(fu).collect::<Vec<_>>(),
                    m.row(r).iter().map(fu).collect::<Vec<_>>(),
                    m.row(n).iter().map(fu).collect::<Vec<_>>(),
                ),
                json!({"family":"alu","task":env.task,"cfg":self.cfg,"case":label,"row_index":r,
                       "row":m.row(r).iter().map(fu).collect::<Vec<_>>()}),
            );
        }
        for ((c, _), o) in edits.iter().zip(&old) {
            m.row_mut(r)[*c] = *o;
        }
    }

    /// Judge a whole alternative trace (edits spanning several rows): every row's relation vs
    /// every evaluation index of the AIR. `r` names the row the case is attributed to.
    pub fn judge_whole<EF: Field + BasedVectorSpace<F>>(
        &self,
        env: &Env,
        st: &mut Stats,
        m: &Mat<F>,
        r: usize,
        label: &str,
        class: &str,
    ) {
        let h = m.h();
        let ref_ok = (0..h).all(|i| self.rel::<EF>(m, i));
        let air_ok = (0..h).all(|i| failures_at(&self.air, &self.prep, m, i) == 0);
        let kind = self.kind_name(r, 0);
        let bytes: Vec<u8> = m.v.iter().flat_map(|x| fu(x).to_le_bytes()).collect();
        st.case(&self.cfg, &kind, !ref_ok, fnv64(&[self.cfg.as_bytes(), label.as_bytes(), &bytes]));
        st.bump(match (ref_ok, air_ok) {
            (true, true) => "ref_accept/air_accept",
            (false, false) => "ref_reject/air_reject",
            (true, false) => "MISMATCH ref_accept/air_reject",
            (false, true) => "MISMATCH ref_reject/air_accept",
        });
        if ref_ok != air_ok {
            let n = (r + 1) % h;
            let nk = if self.kind(n, 0) == Kind::Horner { format!("->{}", self.kind_name(n, 0)) } else { String::new() };
            let clause = if ref_ok { "valid_rejected" } else { "invalid_accepted" };
            env.report.violation(
                format!("C11|alu|{clause}|{}|{kind}{nk}|edit={class}", self.red),
                format!(
                    "{}: trace with `{label}`: reference relation {} but AluAir {}; row {r} {:?} next {:?}",
                    self.cfg,
                    if ref_ok { "holds on every row" } else { "is violated" },
                    if air_ok { "accepts every row" } else { "rejects" },
                    m.row(r).iter().map(fu).collect::<Vec<_>>(),
                    m.row(n).iter().map(fu).collect::<Vec<_>>(),
                ),
                json!({"family":"alu","task":env.task,"cfg":self.cfg,"case":label,"row_index":r,
                       "row":m.row(r).iter().map(fu).collect::<Vec<_>>()}),
            );
        }
    }

    /// ±1 on every listed column of row r.
    pub fn unit_edits<EF: Field + BasedVectorSpace<F>>(
        &self,
        env: &Env,
        st: &mut Stats,
        m: &mut Mat<F>,
        base_pass: &[bool],
        r: usize,
        cols: impl Iterator<Item = usize>,
    ) {
        for col in cols {
            for (sgn, delta) in [("+1", F::ONE), ("-1", F::ZERO - F::ONE)] {
                let v = m.row(r)[col] + delta;
                let label = format!("row{r}.{}{sgn}", self.lay.describe(col));
                let lane = if col < self.lay.extra0 { col / (4 * D) } else { 0 };
                self.judge::<EF>(env, st, m, base_pass, r, lane, &[(col, v)], &label, self.lay.class(col));
            }
        }
    }
    /// operand := x (all D coefficients)
    pub fn set_operand<EF: Field + BasedVectorSpace<F>>(
        &self,
        env: &Env,
        st: &mut Stats,
        m: &mut Mat<F>,
        base_pass: &[bool],
        r: usize,
        lane: usize,
        op: usize,
        x: &EF,
        label: &str,
    ) {
        let c0 = self.lay.cell(lane, op, 0);
        let edits: Vec<(usize, F)> =
            x.as_basis_coefficients_slice().iter().enumerate().map(|(i, v)| (c0 + i, *v)).collect();
        let label = format!("row{r}.lane{lane}.{}:={label}", ["a", "b", "c", "out"][op]);
        self.judge::<EF>(env, st, m, base_pass, r, lane, &edits, &label, ["a", "b", "c", "out"][op]);
    }
}

/// Basis-complete operand alphabet of degree D: 0, 1, every basis monomial e_i and −e_i
/// (coefficient p−1), the all-ones element, a dense element with distinct small prime
/// coefficients (rotated by VERIF_SEED) and a dense element with large coefficients.
pub fn alphabet<F: PrimeField64, EF: Field + BasedVectorSpace<F>, const D: usize>(
    seed: u64,
) -> Vec<(String, EF)> {
    let primes = [2u64, 3, 5, 7, 11, 13, 17, 19];
    let mut v: Vec<(String, EF)> = vec![("0".into(), EF::ZERO), ("1".into(), EF::ONE)];
    for i in 0..D {
        let mut c = [F::ZERO; D];
        c[i] = F::ONE;
        v.push((format!("e{i}"), ef_from(&c)));
        c[i] = F::ZERO - F::ONE;
        v.push((format!("-e{i}"), ef_from(&c)));
    }
    let ones = [F::ONE; D];
    v.push(("ones".into(), ef_from(&ones)));
    let gen_: Vec<F> = (0..D).map(|i| F::from_u64(primes[(i + seed as usize) % 8])).collect();
    v.push(("gen".into(), ef_from(&gen_)));
    let big: Vec<F> = (0..D).map(|i| F::ZERO - F::from_u64(2 + i as u64)).collect();
    v.push(("big".into(), ef_from(&big)));
    let mut out: Vec<(String, EF)> = vec![];
    for (n, x) in v {
        if !out.iter().any(|(_, y)| *y == x) {
            out.push((n, x));
        }
    }
    out
}
fn basis<F: PrimeField64, EF: Field + BasedVectorSpace<F>, const D: usize>() -> Vec<(String, EF)> {
    (0..D)
        .map(|i| {
            let mut c = [F::ZERO; D];
            c[i] = F::ONE;
            (format!("e{i}"), ef_from(&c))
        })
        .collect()
}
/// The named dense elements of the alphabet (they may coincide with 0/1/e_0 when D = 1).
fn pick<F: PrimeField64, EF: Field + BasedVectorSpace<F>, const D: usize>(seed: u64, n: &str) -> EF {
    let primes = [2u64, 3, 5, 7, 11, 13, 17, 19];
    let c: Vec<F> = match n {
        "ones" => vec![F::ONE; D],
        "gen" => (0..D).map(|i| F::from_u64(primes[(i + seed as usize) % 8])).collect(),
        "big" => (0..D).map(|i| F::ZERO - F::from_u64(2 + i as u64)).collect(),
        _ => mach("alphabet name"),
    };
    ef_from(&c)
}

// ---------------------------------------------------------------------------------------
// Scenario S1: Add / Mul / BoolCheck / MulAdd rows

pub fn run_plain<F: PrimeField64, EF: Field + BasedVectorSpace<F>, const D: usize>(
    env: &Env,
    cfg: &str,
    red: &str,
    kind: AluExtMulKind<F>,
    lanes: usize,
    k_max: usize,
    part: usize,
) -> Stats {
    let mut st = Stats::default();
    let s = alphabet::<F, EF, D>(env.seed);
    let gen_: EF = pick::<F, EF, D>(env.seed, "gen");
    let big: EF = pick::<F, EF, D>(env.seed, "big");
    let elast = basis::<F, EF, D>().last().unwrap().1;
    let mut rows: Vec<(AluOpKind, [EF; 4])> = vec![];
    // part 0: Mul, part 1: MulAdd, part 2: Add + BoolCheck (separate tasks, same table kind)
    // Mul over the whole alphabet squared (contains every pair of basis monomials)
    for (_, a) in &s {
        for (_, b) in &s {
            if part == 0 {
                rows.push((AluOpKind::Mul, [*a, *b, EF::ZERO, *a * *b]));
            }
        }
    }
    // MulAdd: (basis ∪ dense)² × c
    let mut ma: Vec<EF> = basis::<F, EF, D>().into_iter().map(|x| x.1).collect();
    ma.push(gen_);
    ma.push(big);
    for a in &ma {
        for b in &ma {
            for c in [EF::ZERO, elast, gen_, EF::ZERO - EF::ONE] {
                if part == 1 {
                    rows.push((AluOpKind::MulAdd, [*a, *b, c, *a * *b + c]));
                }
            }
        }
    }
    // Add (linear: no cross terms to cover); c is not part of the relation
    for (_, a) in &s {
        for b in [EF::ZERO, EF::ONE, elast, gen_, big, EF::ZERO - EF::ONE] {
            if part == 2 {
                rows.push((AluOpKind::Add, [*a, b, EF::ZERO, *a + b]));
            }
        }
    }
    if part == 2 {
        rows.push((AluOpKind::Add, [gen_, big, gen_, gen_ + big]));
        // BoolCheck: the runner writes (a, 0, a, a); the relation speaks about a and out only
        rows.push((AluOpKind::BoolCheck, [EF::ZERO, EF::ZERO, EF::ZERO, EF::ZERO]));
        rows.push((AluOpKind::BoolCheck, [EF::ONE, EF::ZERO, EF::ONE, EF::ONE]));
        rows.push((AluOpKind::BoolCheck, [EF::ONE, gen_, big, EF::ONE]));
    }
    // with 2 lanes every op must be seen in both lanes: second copy shifted by one position
    if lanes == 2 {
        let copy = rows.clone();
        rows.push((AluOpKind::Add, [EF::ONE, EF::ONE, EF::ZERO, EF::ONE + EF::ONE]));
        if rows.len() % 2 == 0 {
            rows.push((AluOpKind::Add, [EF::ONE, EF::ONE, EF::ZERO, EF::ONE + EF::ONE]));
        }
        rows.extend(copy);
    }
    let ops: Vec<(AluOpKind, [u32; 4], u32)> =
        rows.iter().enumerate().map(|(i, (k, _))| (*k, [1, 2, 3, 4 + i as u32], 1)).collect();
    let t = Table::<F, D>::build(cfg, red, kind, lanes, k_max, &ops);
    let trace = AluTrace {
        op_kind: rows.iter().map(|r| r.0).collect(),
        values: rows.iter().map(|r| r.1).collect(),
        indices: ops
            .iter()
            .map(|(_, i, _)| [WitnessId(i[0]), WitnessId(i[1]), WitnessId(i[2]), WitnessId(i[3])])
            .collect(),
    };
    let mm = t.air.trace_to_matrix(&trace, 1);
    let mut m = Mat { w: mm.width(), v: mm.values };
    let pass = t.check_base::<EF>(env, &mut st, &m, "plain ops");
    let l = t.lay;
    let mut idle_done = false;
    for r in 0..m.h() {
        if env.out_of_time() {
            st.cut += 1;
            break;
        }
        let idle = (0..lanes).all(|ln| t.kind(r, ln) == Kind::Idle);
        if idle {
            if idle_done {
                continue;
            }
            idle_done = true;
        }
        // every cell of every lane ±1
        t.unit_edits::<EF>(env, &mut st, &mut m, &pass, r, 0..l.extra0);
        // extra (packed-Horner) columns are not used by these rows: +1 must stay accepted
        if r % 16 == 0 {
            t.unit_edits::<EF>(env, &mut st, &mut m, &pass, r, l.extra0..l.width);
        }
        for lane in 0..lanes {
            let k = t.kind(r, lane);
            if k == Kind::Idle {
                continue;
            }
            let a: EF = t.get(&m, r, l.cell(lane, 0, 0));
            let b: EF = t.get(&m, r, l.cell(lane, 1, 0));
            let c: EF = t.get(&m, r, l.cell(lane, 2, 0));
            // results of the other operation kinds
            for (nm, x) in [
                ("a+b", a + b),
                ("a*b", a * b),
                ("a*b+c", a * b + c),
                ("a*b-c", a * b - c),
                ("a", a),
                ("b", b),
                ("0", EF::ZERO),
            ] {
                t.set_operand::<EF>(env, &mut st, &mut m, &pass, r, lane, 3, &x, nm);
            }
            if k == Kind::Bool {
                let two = EF::ONE + EF::ONE;
                for (nm, x) in s.iter().map(|(n, x)| (n.as_str(), *x)).chain([("2", two)]) {
                    t.set_operand::<EF>(env, &mut st, &mut m, &pass, r, lane, 0, &x, nm);
                    // a and out together: only the boolean constraints can refuse this row
                    let mut edits: Vec<(usize, F)> = vec![];
                    for op in [0usize, 3] {
                        edits.extend(x.as_basis_coefficients_slice().iter().enumerate().map(|(i, v)| (l.cell(lane, op, i), *v)));
                    }
                    t.judge::<EF>(env, &mut st, &mut m, &pass, r, lane, &edits,
                        &format!("row{r}.lane{lane}: a:=out:={nm}"), "a=out");
                }
            }
        }
    }
    st
}

// ---------------------------------------------------------------------------------------
// Scenario S2: Horner chains (single-step and packed rows)

/// Which `b` witness index each chain op uses; the scheduler packs only ops sharing it.
#[derive(Clone, Copy, Debug, PartialEq, Eq)]
pub enum BPat {
    Shared,
    Distinct,
    /// first two ops share one index, the rest another
    Split2,
    /// two chains (lengths 2 and L-2) separated by a Mul op
    TwoChains,
    /// shared index, but the output of chain op 1 is read elsewhere (mult_out != 0): the
    /// scheduler must not make it an inner step of a packed row
    InnerOnBus,
}

struct Assign<EF> {
    name: String,
    acc0: EF,
    b: Vec<EF>,
    a: Vec<EF>,
    c: Vec<EF>,
    dense: bool,
}

pub fn run_horner<F: PrimeField64, EF: Field + BasedVectorSpace<F>, const D: usize>(
    env: &Env,
    cfg: &str,
    red: &str,
    kind: AluExtMulKind<F>,
    lanes: usize,
    k_max: usize,
    len: usize,
    bpat: BPat,
) -> Stats {
    let mut st = Stats::default();
    let s = alphabet::<F, EF, D>(env.seed);
    let gen_: EF = pick::<F, EF, D>(env.seed, "gen");
    let big: EF = pick::<F, EF, D>(env.seed, "big");
    let ones: EF = pick::<F, EF, D>(env.seed, "ones");
    let bas = basis::<F, EF, D>();

    // ---- op shape -------------------------------------------------------------------
    let mut ops: Vec<(AluOpKind, [u32; 4], u32)> = vec![];
    // Lead op: a single Horner step with its own `b` index (so it is never packed with what
    // follows) that turns the mandatory zero accumulator after the separator into an
    // arbitrary accumulator `acc0` for the rows under test: out = 0·b + acc0 − 0.
    ops.push((AluOpKind::HornerAcc, [7, 99, 8, 9], 0));
    let b_group = |t: usize| -> u32 {
        match bpat {
            BPat::Shared | BPat::TwoChains | BPat::InnerOnBus => 5,
            BPat::Distinct => 100 + t as u32,
            BPat::Split2 => {
                if t < 2 { 5 } else { 6 }
            }
        }
    };
    for t in 0..len {
        if bpat == BPat::TwoChains && t == 2 {
            ops.push((AluOpKind::Mul, [1, 2, 3, 900], 1));
        }
        let t3 = 3 * t as u32;
        // inner outputs of a chain are unread (multiplicity 0), the final one is read
        let on_bus = t == len - 1 || (bpat == BPat::InnerOnBus && t == 1) || (bpat == BPat::TwoChains && t == 1);
        ops.push((AluOpKind::HornerAcc, [10 + t3, b_group(t), 11 + t3, 12 + t3], on_bus as u32));
    }
    ops.push((AluOpKind::Mul, [1, 2, 3, 901], 1));
    ops.push((AluOpKind::Add, [1, 2, 3, 902], 1));
    let t = Table::<F, D>::build(cfg, red, kind, lanes, k_max, &ops);
    let l = t.lay;
    let h = t.prep.h();
    // rows carrying chain ops, in order, with their arity
    let hrows: Vec<(usize, usize)> =
        (0..h).filter(|r| t.kind(*r, 0) == Kind::Horner).map(|r| (r, t.arity(r).max(1))).collect();
    if hrows.iter().map(|x| x.1).sum::<usize>() != len + 1 || hrows[0].1 != 1 {
        mach(&format!("{cfg}: scheduled Horner arities {hrows:?} do not cover lead + {len} chain ops"));
    }
    for lane in 1..lanes {
        if (0..h).any(|r| t.kind(r, lane) == Kind::Horner) {
            mach("Horner op outside lane 0");
        }
    }
    let first = hrows[0].0;
    if first == 0 || t.kind(first - 1, 0) != Kind::Idle {
        mach(&format!("{cfg}: no separator row before the first Horner row"));
    }
    st.notes.push(format!(
        "horner shape len={len} {bpat:?} k_max={k_max} lanes={lanes}: arities after the lead step {:?}",
        hrows.iter().skip(1).map(|x| x.1).collect::<Vec<_>>()
    ));

    // ---- value assignments ------------------------------------------------------------
    let same_b = |x: EF| -> Vec<EF> { vec![x; len] };
    let b_of = |xs: [EF; 2]| -> Vec<EF> {
        (0..len).map(|t| if b_group(t) == b_group(0) { xs[0] } else { xs[1] }).collect()
    };
    let mut asg: Vec<Assign<EF>> = vec![];
    // dense assignments: all products non-zero
    let mk = |i: u64| -> EF { gen_ * EF::from_u64(i + 2) + ones * EF::from_u64(i * i + 1) };
    for (nm, acc0) in [("acc0=0", EF::ZERO), ("acc0=gen", gen_), ("acc0=-1", EF::ZERO - EF::ONE)] {
        let b = match bpat {
            BPat::Distinct => (0..len).map(|t| mk(40 + t as u64)).collect(),
            _ => b_of([big, gen_ + ones]),
        };
        asg.push(Assign {
            name: format!("dense,{nm}"),
            acc0,
            b,
            a: (0..len).map(|t| mk(2 * t as u64)).collect(),
            c: (0..len).map(|t| mk(2 * t as u64 + 1) - big).collect(),
            dense: true,
        });
    }
    asg.push(Assign {
        name: "dense,b=1,acc0=big".into(),
        acc0: big,
        b: same_b(EF::ONE),
        a: (0..len).map(|t| mk(t as u64) + big).collect(),
        c: (0..len).map(|_| EF::ZERO - EF::ONE).collect(),
        dense: true,
    });
    // one-hot activations: exactly one of {acc0, a_t, c_t} is a basis monomial e_i, b = e_j
    // (every product term of the folded constraints is exercised on every monomial pair)
    for (jn, ej) in &bas {
        for (in_, ei) in &bas {
            for x in 0..(2 * len + 1) {
                let mut a = vec![EF::ZERO; len];
                let mut c = vec![EF::ZERO; len];
                let mut acc0 = EF::ZERO;
                let xn = if x == 0 {
                    acc0 = *ei;
                    "acc0".to_string()
                } else if x <= len {
                    a[x - 1] = *ei;
                    format!("a{}", x - 1)
                } else {
                    c[x - 1 - len] = *ei;
                    format!("c{}", x - 1 - len)
                };
                asg.push(Assign { name: format!("onehot,{xn}={in_},b={jn}"), acc0, b: same_b(*ej), a, c, dense: false });
            }
        }
    }

    // lead step (index 0 of every vector): a = 0, c = acc0, so that its out = acc0
    for z in asg.iter_mut() {
        z.a.insert(0, EF::ZERO);
        z.b.insert(0, gen_);
        z.c.insert(0, z.acc0);
    }

    // template trace from the repo's generator: honest Mul/Add rows, zero chain
    let mul_v = [gen_, big, EF::ZERO, gen_ * big];
    let add_v = [gen_, big, EF::ZERO, gen_ + big];
    let other = |k: AluOpKind| if k == AluOpKind::Mul { mul_v } else { add_v };
    let indices: Vec<[WitnessId; 4]> = ops
        .iter()
        .map(|(_, i, _)| [WitnessId(i[0]), WitnessId(i[1]), WitnessId(i[2]), WitnessId(i[3])])
        .collect();
    let honest_trace = |z: &Assign<EF>| -> AluTrace<EF> {
        // the runner's view: every chain starts from accumulator 0 after a separator
        let mut values = vec![];
        let mut acc = EF::ZERO;
        let mut ti = 0;
        for (k, _, _) in &ops {
            if *k == AluOpKind::HornerAcc {
                acc = acc * z.b[ti] + z.c[ti] - z.a[ti];
                values.push([z.a[ti], z.b[ti], z.c[ti], acc]);
                ti += 1;
            } else {
                acc = EF::ZERO;
                values.push(other(*k));
            }
        }
        AluTrace { op_kind: ops.iter().map(|o| o.0).collect(), values, indices: indices.clone() }
    };

    for z in &asg {
        if env.out_of_time() {
            st.cut += 1;
            break;
        }
        // base trace from the repository's own generator (accumulator 0 after the separator) …
        let mm = t.air.trace_to_matrix(&honest_trace(z), 1);
        let mut m = Mat { w: mm.width(), v: mm.values };
        let generated = m.clone();
        // … and re-filled by the harness (documented layout + native field arithmetic). The
        // same filler, started from a non-zero separator `out`, builds the forged traces below.
        let fill = |m: &mut Mat<F>, sep_out: EF| {
            t.put(m, first - 1, l.cell(0, 3, 0), &sep_out);
            let mut ti = 0;
            for (r, k) in &hrows {
                let (r, k) = (*r, *k);
                let prev: EF = t.get(m, r - 1, l.cell(0, 3, 0));
                let b = z.b[ti];
                let mut acc = prev;
                let mut accs = vec![acc];
                for s in 0..k {
                    acc = acc * b + z.c[ti + s] - z.a[ti + s];
                    accs.push(acc);
                }
                t.put(m, r, l.cell(0, 0, 0), &z.a[ti]);
                t.put(m, r, l.cell(0, 1, 0), &b);
                t.put(m, r, l.cell(0, 2, 0), &z.c[ti]);
                t.put(m, r, l.cell(0, 3, 0), &accs[k]);
                for c in l.extra0..l.width {
                    m.row_mut(r)[c] = F::ZERO;
                }
                if k >= 2 {
                    for j in 0..l.num_int {
                        // the generator stores acc_2 in int_0 also when the arity does not use it
                        t.put(m, r, l.int_cell(j, 0), &accs[(2 * (j + 1)).min(k)]);
                    }
                    for s in 1..k {
                        t.put(m, r, l.ac_cell(s, 0, 0), &z.a[ti + s]);
                        t.put(m, r, l.ac_cell(s, 1, 0), &z.c[ti + s]);
                    }
                    t.put(m, r, l.bsq_cell(0), &(b * b));
                }
                ti += k;
            }
        };
        fill(&mut m, EF::ZERO);
        {
            if m.v != generated.v {
                let ok = |x: &Mat<F>| (0..h).all(|i| failures_at(&t.air, &t.prep, x, i) == 0);
                if ok(&generated) && !ok(&m) {
                    mach(&format!(
                        "{cfg} {}: AluAir accepts its generator's trace but not the harness' re-fill of the same values (column layout drift)",
                        z.name
                    ));
                }
                // generator and filler differ: judge the generator's trace on its own
                // (reference vs AIR) and go on with the filler's, which the reference accepts
                st.bump("filler != generator");
                st.notes.push(format!("{cfg} {}: AluAir::trace_to_matrix differs from the reference fill", z.name));
                let _ = t.check_base::<EF>(env, &mut st, &generated, &format!("generator output, horner len={len} {bpat:?} {}", z.name));
            } else {
                st.validated_against_generator += 1;
            }
        }
        let pass = t.check_base::<EF>(env, &mut st, &m, &format!("horner len={len} {bpat:?} {}", z.name));
        let last = hrows.last().unwrap().0;
        if z.dense && pass.iter().all(|p| *p) {
            // Forged chain start: the separator row's `out` is v ≠ 0 and the whole chain is
            // recomputed consistently from it. Only the relation of the separator row
            // (`out = 0` on an inactive lane) refuses this trace.
            for (vn, v) in [("1", EF::ONE), ("gen", gen_), ("e_last", bas.last().unwrap().1)] {
                let mut forged = generated.clone();
                fill(&mut forged, v);
                t.judge_whole::<EF>(env, &mut st, &forged, first - 1,
                    &format!("separator row{}.out:={vn}, chain recomputed from it ({})", first - 1, z.name), "forged_chain_start");
            }
        }
        if z.dense {
            // every cell of the separator row, every chain row and the row after the chain
            for r in (first - 1)..=(last + 1).min(h - 1) {
                t.unit_edits::<EF>(env, &mut st, &mut m, &pass, r, 0..l.width);
            }
            // out := what a different arity / a different start would give
            for (r, _) in &hrows {
                let a: EF = t.get(&m, *r, l.cell(0, 0, 0));
                let b: EF = t.get(&m, *r, l.cell(0, 1, 0));
                let c: EF = t.get(&m, *r, l.cell(0, 2, 0));
                let prev: EF = t.get(&m, *r - 1, l.cell(0, 3, 0));
                for (nm, x) in [
                    ("prev*b+c-a", prev * b + c - a),
                    ("prev*b+c+a", prev * b + c + a),
                    ("c-a", c - a),
                    ("a*b+c", a * b + c),
                    ("0", EF::ZERO),
                ] {
                    t.set_operand::<EF>(env, &mut st, &mut m, &pass, *r, 0, 3, &x, nm);
                }
            }
            // Alternative *consistent* witnesses: edits that leave every constraint but one
            // satisfied, so a dropped constraint cannot hide behind the others.
            for (r, k) in &hrows {
                let (r, k) = (*r, *k);
                if k < 2 {
                    continue;
                }
                let prev: EF = t.get(&m, r - 1, l.cell(0, 3, 0));
                let b: EF = t.get(&m, r, l.cell(0, 1, 0));
                let step = |s: usize| -> (EF, EF) {
                    if s == 0 {
                        (t.get(&m, r, l.cell(0, 0, 0)), t.get(&m, r, l.cell(0, 2, 0)))
                    } else {
                        (t.get(&m, r, l.ac_cell(s, 0, 0)), t.get(&m, r, l.ac_cell(s, 1, 0)))
                    }
                };
                let steps: Vec<(EF, EF)> = (0..k).map(step).collect();
                // the AIR's pair folding from accumulator `from` at step `s0`, with a given b_sq
                let fold = |from: EF, s0: usize, bsq: EF| -> Vec<(usize, EF)> {
                    let mut acc = from;
                    let mut s = s0;
                    let mut out = vec![];
                    while s < k {
                        if s + 1 < k {
                            acc = acc * bsq + (steps[s].1 - steps[s].0) * b + steps[s + 1].1 - steps[s + 1].0;
                            s += 2;
                        } else {
                            acc = acc * b + steps[s].1 - steps[s].0;
                            s += 1;
                        }
                        out.push((s, acc));
                    }
                    out
                };
                let to_edits = |col0: usize, x: &EF| -> Vec<(usize, F)> {
                    x.as_basis_coefficients_slice().iter().enumerate().map(|(i, v)| (col0 + i, *v)).collect()
                };
                for (bn, e) in &bas {
                    // (1) b_sq := b² + e_i, intermediates and out recomputed with it
                    let bsq = b * b + *e;
                    let mut edits = to_edits(l.bsq_cell(0), &bsq);
                    for (s, acc) in fold(prev, 0, bsq) {
                        if s == k {
                            edits.extend(to_edits(l.cell(0, 3, 0), &acc));
                        } else if s % 2 == 0 && s / 2 - 1 < l.num_int {
                            edits.extend(to_edits(l.int_cell(s / 2 - 1, 0), &acc));
                        }
                    }
                    t.judge::<EF>(env, &mut st, &mut m, &pass, r, 0, &edits,
                        &format!("row{r}: b_sq:=b*b+{bn}, intermediates/out recomputed"), "b_sq_consistent");
                    // (2) int_0 := int_0 + e_i, everything after it recomputed with the true b²
                    if k >= 3 && l.num_int >= 1 {
                        let int0: EF = t.get(&m, r, l.int_cell(0, 0));
                        let alt = int0 + *e;
                        let mut edits = to_edits(l.int_cell(0, 0), &alt);
                        for (s, acc) in fold(alt, 2, b * b) {
                            if s == k {
                                edits.extend(to_edits(l.cell(0, 3, 0), &acc));
                            }
                        }
                        t.judge::<EF>(env, &mut st, &mut m, &pass, r, 0, &edits,
                            &format!("row{r}: int0:=int0+{bn}, out recomputed"), "int_consistent");
                    }
                }
            }
        } else {
            for (r, _) in &hrows {
                t.unit_edits::<EF>(env, &mut st, &mut m, &pass, *r, l.cell(0, 3, 0)..l.cell(0, 3, 0) + D);
            }
        }
    }
    st
}

pub fn sample_case() -> Value {
    json!({"family":"alu","example":"Mul row over BabyBear^4 (a=e1,b=e3,c=0,out=a*b) with out[2]+1: reference rejects, AluAir must reject"})
}
