//! Independent constraint evaluation of ONE evaluation index of an AIR over concrete values.
//!
//! This is the acceptance side of the C11 oracle. It drives the repository's real
//! `Air::eval` with Plonky3's own `DebugConstraintBuilder` (crate `p3-air`, trusted base),
//! exactly the way `p3_air::check_constraints` and the prover's quotient computation see a
//! trace: `local = row i`, `next = row (i+1) mod h`, `is_first_row = [i == 0]`,
//! `is_last_row = [i == h-1]`, `is_transition = [i != h-1]`. Bus interactions
//! (`push_interaction`) are swallowed by the debug builder: C11 is about the *local*
//! constraints of a table, the bus is C09's subject.

use p3_air::{Air, BaseAir, DebugConstraintBuilder};
use p3_field::Field;
use p3_matrix::dense::RowMajorMatrixView;
use p3_matrix::stack::ViewPair;

/// A concrete trace: flat row-major values + width.
#[derive(Clone)]
pub struct Mat<F> {
    pub v: Vec<F>,
    pub w: usize,
}
impl<F: Copy> Mat<F> {
    pub fn h(&self) -> usize {
        if self.w == 0 { 0 } else { self.v.len() / self.w }
    }
    pub fn row(&self, r: usize) -> &[F] {
        &self.v[r * self.w..(r + 1) * self.w]
    }
    pub fn row_mut(&mut self, r: usize) -> &mut [F] {
        let w = self.w;
        &mut self.v[r * w..(r + 1) * w]
    }
}

/// Number of constraints of `air` that evaluate to non-zero at evaluation index `i`.
pub fn failures_at<F, A>(air: &A, prep: &Mat<F>, main: &Mat<F>, i: usize) -> usize
where
    F: Field,
    A: BaseAir<F> + for<'a> Air<DebugConstraintBuilder<'a, F, F>>,
{
    let h = main.h();
    let n = (i + 1) % h;
    let main_pair = ViewPair::new(
        RowMajorMatrixView::new_row(main.row(i)),
        RowMajorMatrixView::new_row(main.row(n)),
    );
    let prep_pair = if prep.w == 0 {
        ViewPair::new(RowMajorMatrixView::new(&[], 0), RowMajorMatrixView::new(&[], 0))
    } else {
        ViewPair::new(
            RowMajorMatrixView::new_row(prep.row(i)),
            RowMajorMatrixView::new_row(prep.row(n)),
        )
    };
    let periodic = air.periodic_values(i);
    let mut b = DebugConstraintBuilder::<F, F>::new(
        i,
        main_pair,
        prep_pair,
        &[],
        F::from_bool(i == 0),
        F::from_bool(i == h - 1),
        F::from_bool(i != h - 1),
        &periodic,
    );
    air.eval(&mut b);
    b.failures().len()
}

/// true iff some constraint fails at one of the evaluation indices.
pub fn any_failure<F, A>(air: &A, prep: &Mat<F>, main: &Mat<F>, idx: &[usize]) -> bool
where
    F: Field,
    A: BaseAir<F> + for<'a> Air<DebugConstraintBuilder<'a, F, F>>,
{
    idx.iter().any(|&i| failures_at(air, prep, main, i) > 0)
}

/// Evaluation indices that can see a change made to row `r` (local at `r`, next at `r-1`).
/// Soundness of restricting the re-evaluation to these two indices: `Air::eval` at index
/// `i` is a pure function of rows `i` and `i+1 (mod h)` of the main and preprocessed traces
/// (that is all the builder hands out), so every other index sees exactly the data of the
/// base trace, which was checked in full before any case is derived from it.
pub fn affected(h: usize, r: usize) -> [usize; 2] {
    [(r + h - 1) % h, r]
}
