fn main() {
    eprintln!("MACHINERY-ERROR: check c11 not built yet");
    std::process::exit(2);
}
