//! C11 — each table's constraints accept exactly the rows its operation allows.
//!
//! Row-level exhaustive exploration: for every table configuration (operation kind ×
//! extension degree/reduction × lanes × packed-Horner factor; Poseidon mode × shape) a set of
//! base traces whose rows satisfy their defining relation is built with the repository's own
//! trace / preprocessed generators, then every single-row edit from a finite edit alphabet is
//! applied and the verdict of the real `Air::eval` (driven by Plonky3's debug constraint
//! builder) is compared with the verdict of an independent reference relation written with
//! native Plonky3 field / permutation arithmetic.  AIR accepts ⇔ reference accepts.
//!
//! Modules: `evalrow` (constraint evaluation at one index), `alu` (ALU table), `simple`
//! (Const / Public / Recompose: no local constraints), `poseidon` (Poseidon2 / Poseidon1
//! circuit tables).

mod alu;
mod evalrow;
mod poseidon;
mod simple;
mod stats;

use std::sync::Mutex;

use p3_baby_bear::BabyBear;
use p3_circuit_prover::air::AluExtMulKind;
use p3_field::extension::{BinomialExtensionField, BinomiallyExtendable, QuinticTrinomialExtensionField};
use p3_goldilocks::Goldilocks;
use p3_koala_bear::KoalaBear;
use vpcore::serde_json::json;
use vpcore::{Ctx, Report, finish};

use crate::alu::BPat;
use crate::stats::Stats;

pub fn mach(msg: &str) -> ! {
    vpcore::machinery_error(msg)
}

pub struct Env<'a> {
    pub ctx: &'a Ctx,
    pub report: &'a Report,
    pub seed: u64,
    pub task: String,
}
impl Env<'_> {
    pub fn out_of_time(&self) -> bool {
        self.ctx.out_of_time()
    }
    pub fn quick(&self) -> bool {
        self.ctx.quick()
    }
}

pub struct Task {
    pub name: String,
    /// rough relative cost, used to start the heavy tasks first
    pub weight: u64,
    pub run: Box<dyn Fn(&Env) -> Stats + Send + Sync>,
}

/// Adds the ALU tasks of one (field, degree, reduction).
macro_rules! alu_family {
    ($tasks:ident, $quick:expr, $label:expr, $red:expr, $F:ty, $EF:ty, $D:expr, $kind:expr, $lanes:expr, $kmaxs:expr) => {{
        for lanes in $lanes {
            for k_max in $kmaxs {
                let cfg = format!("alu/{}/lanes{}/kmax{}", $label, lanes, k_max);
                for (part, pname) in ["mul", "muladd", "add+bool"].iter().enumerate() {
                    let cfg2 = cfg.clone();
                    $tasks.push(Task {
                        name: format!("{cfg}/plain-{pname}"),
                        weight: ($D * $D * $D * $D * lanes) as u64 * 30,
                        run: Box::new(move |env| {
                            alu::run_plain::<$F, $EF, { $D }>(env, &cfg2, $red, $kind, lanes, k_max, part)
                        }),
                    });
                }
                let max_len = if $quick { k_max + 1 } else { 2 * k_max + 1 };
                for len in 1..=max_len {
                    let pats: Vec<BPat> = if $quick {
                        if len == 2 {
                            vec![BPat::Shared, BPat::Distinct]
                        } else if len == 3 {
                            vec![BPat::Shared, BPat::InnerOnBus]
                        } else {
                            vec![BPat::Shared]
                        }
                    } else {
                        let mut p = vec![BPat::Shared];
                        if len >= 2 && len <= 4 {
                            p.push(BPat::Distinct);
                        }
                        if len >= 3 {
                            p.push(BPat::Split2);
                            p.push(BPat::TwoChains);
                            p.push(BPat::InnerOnBus);
                        }
                        p
                    };
                    for bpat in pats {
                        let cfg2 = cfg.clone();
                        $tasks.push(Task {
                            name: format!("{cfg}/horner/len{len}/{bpat:?}"),
                            weight: ($D * $D * $D * len * len) as u64,
                            run: Box::new(move |env| {
                                alu::run_horner::<$F, $EF, { $D }>(
                                    env, &cfg2, $red, $kind, lanes, k_max, len, bpat,
                                )
                            }),
                        });
                    }
                }
            }
        }
    }};
}

fn w<F: BinomiallyExtendable<D>, const D: usize>() -> F {
    F::W
}

fn build_tasks(quick: bool) -> Vec<Task> {
    let mut t: Vec<Task> = vec![];
    type BB = BabyBear;
    type KB = KoalaBear;
    type GL = Goldilocks;
    let lanes_q = [1usize];
    let lanes_t = [1usize, 2];
    let kmaxs = [2usize, 3, 4];
    // quick: every (field, reduction kind, degree) family is present (base, binomial 2/4/5/8, quintic); the two
    // families the prover ships by default (BabyBear D4, KoalaBear quintic) and the base
    // field get both lane counts and all packing factors.
    macro_rules! fam {
        ($label:expr, $red:expr, $F:ty, $EF:ty, $D:expr, $kind:expr, $qlanes:expr, $qk:expr) => {
            if quick {
                alu_family!(t, true, $label, $red, $F, $EF, $D, $kind, $qlanes, $qk);
            } else {
                alu_family!(t, false, $label, $red, $F, $EF, $D, $kind, lanes_t, kmaxs);
            }
        };
    }
    let none: [usize; 0] = [];
    let _ = lanes_q;
    fam!("BabyBear-D1-base", "base-D1", BB, BB, 1, AluExtMulKind::Base, lanes_t, kmaxs);
    fam!("KoalaBear-D1-base", "base-D1", KB, KB, 1, AluExtMulKind::Base, [1usize], [3usize]);
    fam!("Goldilocks-D1-base", "base-D1", GL, GL, 1, AluExtMulKind::Base, [1usize], [3usize]);
    fam!("Goldilocks-D2-binomial", "binomial-D2", GL, BinomialExtensionField<GL, 2>, 2,
         AluExtMulKind::Binomial { w: w::<GL, 2>() }, [1usize], [3usize]);
    fam!("BabyBear-D4-binomial", "binomial-D4", BB, BinomialExtensionField<BB, 4>, 4,
         AluExtMulKind::Binomial { w: w::<BB, 4>() }, lanes_t, kmaxs);
    fam!("KoalaBear-D4-binomial", "binomial-D4", KB, BinomialExtensionField<KB, 4>, 4,
         AluExtMulKind::Binomial { w: w::<KB, 4>() }, [1usize], [3usize]);
    fam!("BabyBear-D5-binomial", "binomial-D5", BB, BinomialExtensionField<BB, 5>, 5,
         AluExtMulKind::Binomial { w: w::<BB, 5>() }, [1usize], [2usize, 3]);
    fam!("KoalaBear-D8-binomial", "binomial-D8", KB, BinomialExtensionField<KB, 8>, 8,
         AluExtMulKind::Binomial { w: w::<KB, 8>() }, [1usize], [4usize]);
    fam!("BabyBear-D8-binomial", "binomial-D8", BB, BinomialExtensionField<BB, 8>, 8,
         AluExtMulKind::Binomial { w: w::<BB, 8>() }, [1usize], [3usize]);
    fam!("KoalaBear-D5-quintic", "quintic-D5", KB, QuinticTrinomialExtensionField<KB>, 5,
         AluExtMulKind::QuinticTrinomial, lanes_t, kmaxs);
    simple::tasks(&mut t, quick);
    poseidon::tasks(&mut t, quick);
    t
}

fn main() {
    let ctx = Ctx::from_args("C11", "exploration");
    vpcore::install_quiet_panic_hook();
    let report = Report::new();
    let mut tasks = build_tasks(ctx.quick());
    tasks.sort_by(|a, b| b.weight.cmp(&a.weight));

    // --replay <file>: re-run exactly the task the stored case came from (tasks are small)
    let mut replaying = None;
    if let Some(path) = &ctx.replay {
        let r = vpcore::load_replay(path);
        let name = r["task"].as_str().unwrap_or_else(|| mach("replay has no task")).to_string();
        println!("replaying task {name}, case {}", r["case"]);
        if !tasks.iter().any(|t| t.name == name) {
            tasks = build_tasks(false);
        }
        tasks.retain(|t| t.name == name);
        if tasks.is_empty() {
            mach(&format!("replay: unknown task {name}"));
        }
        replaying = Some(name);
    }
    if let Some(f) = ctx.opt("only") {
        tasks.retain(|t| t.name.contains(f));
    }

    let total = Mutex::new(Stats::default());
    let n_tasks = tasks.len();
    let done = std::sync::atomic::AtomicUsize::new(0);
    // longest-processing-time-first list scheduling: workers pull the next heaviest task
    let next = std::sync::atomic::AtomicUsize::new(0);
    let workers = std::thread::available_parallelism().map(|n| n.get()).unwrap_or(8).min(16);
    std::thread::scope(|scope| {
      for _ in 0..workers {
        scope.spawn(|| loop {
        let i = next.fetch_add(1, std::sync::atomic::Ordering::Relaxed);
        if i >= tasks.len() {
            break;
        }
        let task = &tasks[i];
        if ctx.out_of_time() {
            let mut g = total.lock().unwrap();
            g.cut += 1;
            g.notes.push(format!("not started (budget): {}", task.name));
            continue;
        }
        let env = Env { ctx: &ctx, report: &report, seed: ctx.seed, task: task.name.clone() };
        let t0 = std::time::Instant::now();
        let r = vpcore::quiet_catch(|| (task.run)(&env));
        match r {
            Ok(mut st) => {
                if ctx.opt("timing").is_some() {
                    eprintln!("{:8.2}s {:>9} cases  {}", t0.elapsed().as_secs_f64(), st.evals, task.name);
                }
                if st.cut > 0 {
                    st.notes.push(format!("cut by budget: {}", task.name));
                }
                total.lock().unwrap().merge(st);
                done.fetch_add(1, std::sync::atomic::Ordering::Relaxed);
            }
            Err(p) => mach(&format!("task {} panicked: {p}", task.name)),
        }
        });
      }
    });
    let st = total.into_inner().unwrap();
    // guard against silent loss of coverage (e.g. a scheduler change that stops packing with
    // the preprocessed values this harness supplies): every packed arity must have been judged
    if replaying.is_none() && ctx.opt("only").is_none() && st.cut == 0 {
        for k in ["Horner/k1", "Horner/k2", "Horner/k3", "Horner/k4", "Add", "Mul", "Bool", "MulAdd", "Idle"] {
            if st.per_kind.get(k).map(|v| v.1).unwrap_or(0) == 0 {
                mach(&format!("no non-trivial case was judged for ALU row kind {k}: the harness' op shapes no longer produce it"));
            }
        }
    }
    let exhaustive = st.cut == 0;
    println!(
        "C11: {} tasks ({} complete), {} base traces / {} rows checked in full, {} cases judged, {} non-trivial ({} distinct), {} filler==generator validations",
        n_tasks,
        done.load(std::sync::atomic::Ordering::Relaxed),
        st.base_traces,
        st.base_rows,
        st.evals,
        st.nontrivial,
        st.distinct_total(),
        st.validated_against_generator
    );
    for (k, v) in &st.histo {
        println!("  {k}: {v}");
    }
    let mut samples = st.samples.clone();
    samples.push(alu::sample_case());
    let cov = json!({
        "evaluations": st.evals,
        "distinct_nontrivial": st.distinct_total(),
        "rule": "one case = one concrete small trace: a base trace whose every row satisfies its operation's defining relation (built by the repository's trace generators, checked in full) with the cells of ONE row edited (±1 on one cell, an operand replaced by an alphabet element or by another operation's result, an honestly recomputed Poseidon row on a changed input/flag); the real Air::eval verdict at the two evaluation indices that can see the row is compared with the reference relation. Non-trivial = the reference relation is violated, i.e. the AIR must reject. Distinct = distinct hash of (table configuration, row kind, preprocessed rows, edited row values, predecessor out / successor row).",
        "samples": samples,
        "exhaustive": exhaustive,
        "tasks": n_tasks,
        "tasks_cut_by_budget": st.cut,
        "nontrivial_cases": st.nontrivial,
        "base_traces_checked_in_full": st.base_traces,
        "base_rows_checked_in_full": st.base_rows,
        "filler_equals_repo_generator": st.validated_against_generator,
        "verdict_histogram": st.histo,
        "per_row_kind_cases_nontrivial": st.per_kind.iter().map(|(k, v)| (k.clone(), json!([v.0, v.1]))).collect::<std::collections::BTreeMap<_, _>>(),
        "per_table_cases_nontrivial": st.per_cfg.iter().map(|(k, v)| (k.clone(), json!([v.0, v.1]))).collect::<std::collections::BTreeMap<_, _>>(),
        "notes": st.notes,
        "replay": replaying,
    });
    let assumptions = vec![
        "Trusted base: Plonky3 0.6.3 field/extension arithmetic, Poseidon permutations and the p3-air DebugConstraintBuilder; p3-poseidon{1,2}-air's per-row permutation trace generator defines the unique valid permutation block for an input (used as reference for the permutation columns).".to_string(),
        "Bus interactions are outside C11 (the debug builder swallows them); Const/Public/Recompose tables have no local constraints, their clause is 'every row accepted'.".to_string(),
        "Preprocessed columns are taken from the repository's generators and read as the definition of a row's operation kind / arity / chaining mode (they are verifier-known); the ALU accumulator of a Horner row is the previous row's out, as the AIR defines it (the runner/AIR discrepancy is C10's subject).".to_string(),
        "Bilinearity argument: the AIR's extension products are sums of coefficient products, so agreement with the native product on all pairs of basis monomials (plus dense elements) extends to all operands; single-cell ±1 edits detect missing or mis-gated constraints, they do not enumerate all invalid rows.".to_string(),
    ];
    finish(&ctx, cov, assumptions, &report);
}
