//! Poseidon2 / Poseidon1 circuit tables: sponge, chained, Merkle (arity 2) and arity-4 modes.
//!
//! Reference relation (native code only):
//!  * per row: direction bit(s) boolean (arity 4: `bit·bit2` product column correct); the
//!    permutation block equals the block Plonky3's own `p3-poseidon{1,2}-air` trace generator
//!    produces for the row's input (every round register is a function of the input, so the
//!    valid block is unique); where a native `default_*_poseidon*` permutation with the same
//!    constants exists, its output must equal the block's output cells too.
//!  * per transition r → n (never across the last row), from the *operation flags* of row n
//!    (`new_start`, `merkle_path`, `in_ctl`), not from the preprocessed selector columns:
//!      - sponge continuation: every input limb that is not bus-loaded equals the previous
//!        output limb (compact D=1 layout: capacity limbs always chain);
//!      - sponge start, compact D=1 layout: capacity input is zero;
//!      - Merkle continuation, arity 2: digest limbs i < RATE_EXT go to input limb i
//!        (bit 0) or RATE_EXT+i (bit 1) unless limb i is bus-loaded; `sum_n = 2·sum_r + bit_n`;
//!      - Merkle continuation, arity 4: digest limbs s < CAPACITY_EXT go to input limb
//!        pos·CAPACITY_EXT+s, pos = bit + 2·bit2, unless that limb is bus-loaded;
//!        `sum_n = 4·sum_r + bit_n + 2·bit2_n`.
//!
//! Cases: honest chains over a mode alphabet built with the repository's
//! `extract_preprocessed_from_operations` + `generate_trace_rows`; edits of one row:
//! ±1 on a cell (every cell in FULL mode; inputs, outputs and circuit columns otherwise) and
//! "recomputed" rows: one input cell +1 with the whole permutation block regenerated
//! honestly, which isolates the chaining constraints from the permutation constraints.

use p3_air::{Air, BaseAir, DebugConstraintBuilder};
use p3_baby_bear::BabyBear;
use p3_circuit::ops::{Poseidon2CircuitRow, Poseidon2Params};
use p3_field::{PrimeCharacteristicRing, PrimeField64};
use p3_goldilocks::Goldilocks;
use p3_koala_bear::KoalaBear;
use p3_matrix::Matrix;
use p3_poseidon1_circuit_air as p1;
use p3_poseidon1_circuit_air::{Poseidon1CircuitRow, Poseidon1Params};
use p3_poseidon2_circuit_air as p2;
use p3_symmetric::Permutation;
use vpcore::serde_json::json;

use crate::evalrow::{Mat, affected, any_failure, failures_at};
use crate::stats::{Stats, fnv64};
use crate::{Env, Task, mach};

#[derive(Clone, Copy, Debug)]
pub struct PShape {
    pub d: usize,
    pub width: usize,
    pub width_ext: usize,
    pub rate_ext: usize,
    pub cap_ext: usize,
}
impl PShape {
    pub fn arity4(&self) -> bool {
        4 * self.cap_ext == self.width_ext
    }
    pub fn compact(&self) -> bool {
        self.d == 1 && self.width_ext == 16 && self.rate_ext == 8
    }
    /// Merkle modes need room for the digest on either side
    pub fn merkle_ok(&self) -> bool {
        self.arity4() || 2 * self.rate_ext <= self.width_ext
    }
}

/// Operation-level description of one table row.
#[derive(Clone, Debug)]
pub struct PRow<F> {
    pub new_start: bool,
    pub merkle: bool,
    pub bit: bool,
    pub bit2: bool,
    pub sum: F,
    pub input: Vec<F>,
    pub in_ctl: Vec<bool>,
}

pub trait PCfg: Sync + Send + 'static {
    type F: PrimeField64;
    type A: BaseAir<Self::F> + for<'a> Air<DebugConstraintBuilder<'a, Self::F, Self::F>>;
    fn name(&self) -> &'static str;
    fn shape(&self) -> PShape;
    /// repository code: preprocessed extraction, AIR construction, trace generation
    fn make(&self, rows: &[PRow<Self::F>]) -> (Self::A, Mat<Self::F>, Mat<Self::F>);
    /// upstream Plonky3 permutation-AIR trace generator: the valid permutation block
    fn perm_block(&self, input: &[Self::F]) -> Vec<Self::F>;
    /// native permutation with the same constants, when Plonky3 ships one
    fn native(&self, input: &[Self::F]) -> Option<Vec<Self::F>>;
}

macro_rules! p2_cfg {
    ($name:ident, $label:expr, $F:ty, $Air:ty, $P:ty, $LL:ty, $consts:expr, $native:expr) => {
        pub struct $name;
        impl $name {
            fn consts() -> &'static p3_poseidon2_air::RoundConstants<
                $F,
                { <$P as Poseidon2Params>::WIDTH },
                { <$P as Poseidon2Params>::HALF_FULL_ROUNDS },
                { <$P as Poseidon2Params>::PARTIAL_ROUNDS },
            > {
                static C: std::sync::OnceLock<
                    p3_poseidon2_air::RoundConstants<
                        $F,
                        { <$P as Poseidon2Params>::WIDTH },
                        { <$P as Poseidon2Params>::HALF_FULL_ROUNDS },
                        { <$P as Poseidon2Params>::PARTIAL_ROUNDS },
                    >,
                > = std::sync::OnceLock::new();
                C.get_or_init(|| $consts)
            }
            #[allow(clippy::type_complexity)]
            fn native_perm() -> &'static Option<
                Box<dyn Fn([$F; <$P as Poseidon2Params>::WIDTH]) -> [$F; <$P as Poseidon2Params>::WIDTH] + Send + Sync>,
            > {
                static N: std::sync::OnceLock<
                    Option<Box<dyn Fn([$F; <$P as Poseidon2Params>::WIDTH]) -> [$F; <$P as Poseidon2Params>::WIDTH] + Send + Sync>>,
                > = std::sync::OnceLock::new();
                N.get_or_init(|| $native)
            }
        }
        impl PCfg for $name {
            type F = $F;
            type A = $Air;
            fn name(&self) -> &'static str {
                $label
            }
            fn shape(&self) -> PShape {
                PShape {
                    d: <$P as Poseidon2Params>::D,
                    width: <$P as Poseidon2Params>::WIDTH,
                    width_ext: <$P as Poseidon2Params>::WIDTH_EXT,
                    rate_ext: <$P as Poseidon2Params>::RATE_EXT,
                    cap_ext: <$P as Poseidon2Params>::CAPACITY_EXT,
                }
            }
            fn make(&self, rows: &[PRow<$F>]) -> (Self::A, Mat<$F>, Mat<$F>) {
                const IL: usize = <$P as Poseidon2Params>::WIDTH_EXT;
                const OL: usize = <$P as Poseidon2Params>::RATE_EXT;
                const D: usize = <$P as Poseidon2Params>::D;
                let ops: Vec<Poseidon2CircuitRow<$F>> = rows
                    .iter()
                    .map(|r| Poseidon2CircuitRow {
                        new_start: r.new_start,
                        merkle_path: r.merkle,
                        mmcs_bit: r.bit,
                        mmcs_bit2: r.bit2,
                        mmcs_index_sum: r.sum,
                        input_values: r.input.clone(),
                        in_ctl: r.in_ctl.clone(),
                        input_indices: (0..IL as u32).map(|i| i + 1).collect(),
                        out_ctl: vec![false; OL],
                        output_indices: vec![0; OL],
                        mmcs_index_sum_idx: 0,
                        mmcs_ctl_enabled: r.merkle,
                    })
                    .collect();
                let prep = p2::extract_preprocessed_from_operations::<IL, OL, $F, $F>(&ops, D as u32, D);
                let consts = Self::consts();
                let air = <$Air>::new_with_preprocessed(consts.clone(), prep);
                let main = air.generate_trace_rows(&ops, consts, 0);
                let pm = BaseAir::<$F>::preprocessed_trace(&air).unwrap_or_else(|| mach("no prep"));
                (air, Mat { w: pm.width(), v: pm.values }, Mat { w: main.width(), v: main.values })
            }
            fn perm_block(&self, input: &[$F]) -> Vec<$F> {
                const W: usize = <$P as Poseidon2Params>::WIDTH;
                let inp: [$F; W] = input.try_into().unwrap_or_else(|_| mach("input width"));
                let consts = Self::consts();
                p3_poseidon2_air::generate_trace_rows::<
                    $F,
                    $LL,
                    W,
                    { <$P as Poseidon2Params>::SBOX_DEGREE },
                    { <$P as Poseidon2Params>::SBOX_REGISTERS },
                    { <$P as Poseidon2Params>::HALF_FULL_ROUNDS },
                    { <$P as Poseidon2Params>::PARTIAL_ROUNDS },
                >(vec![inp], consts, 0)
                .values
            }
            fn native(&self, input: &[$F]) -> Option<Vec<$F>> {
                const W: usize = <$P as Poseidon2Params>::WIDTH;
                let inp: [$F; W] = input.try_into().unwrap_or_else(|_| mach("input width"));
                Self::native_perm().as_ref().map(|f| f(inp).to_vec())
            }
        }
    };
}

macro_rules! p1_cfg {
    ($name:ident, $label:expr, $F:ty, $Air:ty, $P:ty, $consts:expr, $native:expr) => {
        pub struct $name;
        impl $name {
            fn consts() -> &'static p1::OptimizedConstants<$F, { <$P as Poseidon1Params>::WIDTH }> {
                static C: std::sync::OnceLock<p1::OptimizedConstants<$F, { <$P as Poseidon1Params>::WIDTH }>> =
                    std::sync::OnceLock::new();
                C.get_or_init(|| $consts)
            }
            #[allow(clippy::type_complexity)]
            fn native_perm() -> &'static Option<
                Box<dyn Fn([$F; <$P as Poseidon1Params>::WIDTH]) -> [$F; <$P as Poseidon1Params>::WIDTH] + Send + Sync>,
            > {
                static N: std::sync::OnceLock<
                    Option<Box<dyn Fn([$F; <$P as Poseidon1Params>::WIDTH]) -> [$F; <$P as Poseidon1Params>::WIDTH] + Send + Sync>>,
                > = std::sync::OnceLock::new();
                N.get_or_init(|| $native)
            }
        }
        impl PCfg for $name {
            type F = $F;
            type A = $Air;
            fn name(&self) -> &'static str {
                $label
            }
            fn shape(&self) -> PShape {
                PShape {
                    d: <$P as Poseidon1Params>::D,
                    width: <$P as Poseidon1Params>::WIDTH,
                    width_ext: <$P as Poseidon1Params>::WIDTH_EXT,
                    rate_ext: <$P as Poseidon1Params>::RATE_EXT,
                    cap_ext: <$P as Poseidon1Params>::CAPACITY_EXT,
                }
            }
            fn make(&self, rows: &[PRow<$F>]) -> (Self::A, Mat<$F>, Mat<$F>) {
                const IL: usize = <$P as Poseidon1Params>::WIDTH_EXT;
                const OL: usize = <$P as Poseidon1Params>::RATE_EXT;
                const D: usize = <$P as Poseidon1Params>::D;
                let ops: Vec<Poseidon1CircuitRow<$F>> = rows
                    .iter()
                    .map(|r| Poseidon1CircuitRow {
                        new_start: r.new_start,
                        merkle_path: r.merkle,
                        mmcs_bit: r.bit,
                        mmcs_index_sum: r.sum,
                        input_values: r.input.clone(),
                        in_ctl: r.in_ctl.clone(),
                        input_indices: (0..IL as u32).map(|i| i + 1).collect(),
                        out_ctl: vec![false; OL],
                        output_indices: vec![0; OL],
                        mmcs_index_sum_idx: 0,
                        mmcs_ctl_enabled: r.merkle,
                    })
                    .collect();
                let prep = p1::extract_preprocessed_from_operations::<IL, OL, $F, $F>(&ops, D as u32, D);
                let (full, partial) = Self::consts();
                let air = <$Air>::new_with_preprocessed(full.clone(), partial.clone(), prep);
                let main = air.generate_trace_rows(&ops, full, partial, 0);
                let pm = BaseAir::<$F>::preprocessed_trace(&air).unwrap_or_else(|| mach("no prep"));
                (air, Mat { w: pm.width(), v: pm.values }, Mat { w: main.width(), v: main.values })
            }
            fn perm_block(&self, input: &[$F]) -> Vec<$F> {
                const W: usize = <$P as Poseidon1Params>::WIDTH;
                let inp: [$F; W] = input.try_into().unwrap_or_else(|_| mach("input width"));
                let (full, partial) = Self::consts();
                p3_poseidon1_air::generate_trace_rows::<
                    $F,
                    W,
                    { <$P as Poseidon1Params>::SBOX_DEGREE },
                    { <$P as Poseidon1Params>::SBOX_REGISTERS },
                    { <$P as Poseidon1Params>::HALF_FULL_ROUNDS },
                    { <$P as Poseidon1Params>::PARTIAL_ROUNDS },
                >(vec![inp], full, partial, 0)
                .values
            }
            fn native(&self, input: &[$F]) -> Option<Vec<$F>> {
                const W: usize = <$P as Poseidon1Params>::WIDTH;
                let inp: [$F; W] = input.try_into().unwrap_or_else(|_| mach("input width"));
                Self::native_perm().as_ref().map(|f| f(inp).to_vec())
            }
        }
    };
}

type BB = BabyBear;
type KB = KoalaBear;
type GL = Goldilocks;

p2_cfg!(P2BbD4W16, "poseidon2/BabyBear-D4-W16", BB, p2::Poseidon2CircuitAirBabyBearD4Width16,
    p2::BabyBearD4Width16, p3_baby_bear::GenericPoseidon2LinearLayersBabyBear,
    p2::BabyBearD4Width16::round_constants(),
    Some({ let p = p3_baby_bear::default_babybear_poseidon2_16(); Box::new(move |x| p.permute(x)) }));
p2_cfg!(P2BbD1W16, "poseidon2/BabyBear-D1-W16-compact", BB, p2::Poseidon2CircuitAirBabyBearD1Width16,
    p2::BabyBearD1Width16, p3_baby_bear::GenericPoseidon2LinearLayersBabyBear,
    p2::BabyBearD1Width16::round_constants(),
    Some({ let p = p3_baby_bear::default_babybear_poseidon2_16(); Box::new(move |x| p.permute(x)) }));
p2_cfg!(P2BbD4W24, "poseidon2/BabyBear-D4-W24", BB, p2::Poseidon2CircuitAirBabyBearD4Width24,
    p2::BabyBearD4Width24, p3_baby_bear::GenericPoseidon2LinearLayersBabyBear,
    p2::BabyBearD4Width24::round_constants(),
    Some({ let p = p3_baby_bear::default_babybear_poseidon2_24(); Box::new(move |x| p.permute(x)) }));
p2_cfg!(P2KbD4W24, "poseidon2/KoalaBear-D4-W24", KB, p2::Poseidon2CircuitAirKoalaBearD4Width24,
    p2::KoalaBearD4Width24, p3_koala_bear::GenericPoseidon2LinearLayersKoalaBear,
    p2::KoalaBearD4Width24::round_constants(),
    Some({ let p = p3_koala_bear::default_koalabear_poseidon2_24(); Box::new(move |x| p.permute(x)) }));
p2_cfg!(P2BbD4W32, "poseidon2/BabyBear-D4-W32-arity4", BB, p2::Poseidon2CircuitAirBabyBearD4Width32,
    p2::BabyBearD4Width32, p3_baby_bear::GenericPoseidon2LinearLayersBabyBear,
    p2::BabyBearD4Width32::round_constants(),
    Some({ let p = p3_baby_bear::default_babybear_poseidon2_32(); Box::new(move |x| p.permute(x)) }));
p2_cfg!(P2KbD4W16, "poseidon2/KoalaBear-D4-W16", KB, p2::Poseidon2CircuitAirKoalaBearD4Width16,
    p2::KoalaBearD4Width16, p3_koala_bear::GenericPoseidon2LinearLayersKoalaBear,
    p2::KoalaBearD4Width16::round_constants(),
    Some({ let p = p3_koala_bear::default_koalabear_poseidon2_16(); Box::new(move |x| p.permute(x)) }));
p2_cfg!(P2KbD1W16, "poseidon2/KoalaBear-D1-W16-compact", KB, p2::Poseidon2CircuitAirKoalaBearD1Width16,
    p2::KoalaBearD1Width16, p3_koala_bear::GenericPoseidon2LinearLayersKoalaBear,
    p2::KoalaBearD1Width16::round_constants(),
    Some({ let p = p3_koala_bear::default_koalabear_poseidon2_16(); Box::new(move |x| p.permute(x)) }));
p2_cfg!(P2KbD4W32, "poseidon2/KoalaBear-D4-W32-arity4", KB, p2::Poseidon2CircuitAirKoalaBearD4Width32,
    p2::KoalaBearD4Width32, p3_koala_bear::GenericPoseidon2LinearLayersKoalaBear,
    p2::KoalaBearD4Width32::round_constants(),
    Some({ let p = p3_koala_bear::default_koalabear_poseidon2_32(); Box::new(move |x| p.permute(x)) }));
p2_cfg!(P2KbD1W32, "poseidon2/KoalaBear-D1-W32-arity4", KB, p2::Poseidon2CircuitAirKoalaBearD1Width32,
    p2::KoalaBearD1Width32, p3_koala_bear::GenericPoseidon2LinearLayersKoalaBear,
    p2::KoalaBearD1Width32::round_constants(),
    Some({ let p = p3_koala_bear::default_koalabear_poseidon2_32(); Box::new(move |x| p.permute(x)) }));
p2_cfg!(P2GlD2W8, "poseidon2/Goldilocks-D2-W8", GL, p2::Poseidon2CircuitAirGoldilocksD2Width8,
    p3_circuit::ops::GoldilocksD2Width8, p3_goldilocks::GenericPoseidon2LinearLayersGoldilocks,
    p2::goldilocks_d2_width8_round_constants(), None);
p2_cfg!(P2GlD2W16, "poseidon2/Goldilocks-D2-W16-arity4", GL, p2::Poseidon2CircuitAirGoldilocksD2Width16,
    p2::GoldilocksD2Width16, p3_goldilocks::GenericPoseidon2LinearLayersGoldilocks,
    p2::goldilocks_d2_width16_round_constants(), None);

p1_cfg!(P1BbD4W16, "poseidon1/BabyBear-D4-W16", BB, p1::Poseidon1CircuitAirBabyBearD4Width16,
    p1::BabyBearD4Width16, p1::BabyBearD4Width16::round_constants(),
    Some({ let p = p3_baby_bear::default_babybear_poseidon1_16(); Box::new(move |x| p.permute(x)) }));
p1_cfg!(P1BbD1W16, "poseidon1/BabyBear-D1-W16-compact", BB, p1::Poseidon1CircuitAirBabyBearD1Width16,
    p1::BabyBearD1Width16, p1::BabyBearD1Width16::round_constants(),
    Some({ let p = p3_baby_bear::default_babybear_poseidon1_16(); Box::new(move |x| p.permute(x)) }));
p1_cfg!(P1BbD4W24, "poseidon1/BabyBear-D4-W24", BB, p1::Poseidon1CircuitAirBabyBearD4Width24,
    p1::BabyBearD4Width24, p1::BabyBearD4Width24::round_constants(),
    Some({ let p = p3_baby_bear::default_babybear_poseidon1_24(); Box::new(move |x| p.permute(x)) }));
p1_cfg!(P1KbD4W24, "poseidon1/KoalaBear-D4-W24", KB, p1::Poseidon1CircuitAirKoalaBearD4Width24,
    p1::KoalaBearD4Width24, p1::KoalaBearD4Width24::round_constants(),
    Some({ let p = p3_koala_bear::default_koalabear_poseidon1_24(); Box::new(move |x| p.permute(x)) }));
p1_cfg!(P1KbD4W16, "poseidon1/KoalaBear-D4-W16", KB, p1::Poseidon1CircuitAirKoalaBearD4Width16,
    p1::KoalaBearD4Width16, p1::KoalaBearD4Width16::round_constants(),
    Some({ let p = p3_koala_bear::default_koalabear_poseidon1_16(); Box::new(move |x| p.permute(x)) }));
p1_cfg!(P1KbD1W16, "poseidon1/KoalaBear-D1-W16-compact", KB, p1::Poseidon1CircuitAirKoalaBearD1Width16,
    p1::KoalaBearD1Width16, p1::KoalaBearD1Width16::round_constants(),
    Some({ let p = p3_koala_bear::default_koalabear_poseidon1_16(); Box::new(move |x| p.permute(x)) }));
p1_cfg!(P1GlD2W8, "poseidon1/Goldilocks-D2-W8", GL, p1::Poseidon1CircuitAirGoldilocksD2Width8,
    p1::GoldilocksD2Width8, p1::goldilocks_d2_width8_round_constants(), None);

// ---------------------------------------------------------------------------------------
// mode alphabet

#[derive(Clone, Debug, PartialEq, Eq)]
pub enum Mode {
    /// sponge start (new_start, not Merkle)
    SS,
    /// sponge continuation with the given limbs bus-loaded
    SC(Vec<usize>),
    /// Merkle start at position pos (bit = pos&1, bit2 = pos>>1)
    MS(usize),
    /// Merkle continuation at position pos with the given limbs bus-loaded
    MC(usize, Vec<usize>),
}
impl Mode {
    fn tag(&self) -> String {
        match self {
            Mode::SS => "SS".into(),
            Mode::SC(m) => format!("SC{m:?}"),
            Mode::MS(p) => format!("MS{p}"),
            Mode::MC(p, m) => format!("MC{p}{m:?}"),
        }
    }
}

fn alphabet(sh: &PShape, quick: bool) -> (Vec<Mode>, Vec<Mode>) {
    let npos = if sh.arity4() { 4 } else { 2 };
    let mut starts = vec![Mode::SS];
    let mut all = vec![Mode::SS, Mode::SC(vec![])];
    // bus-loaded limb sets: first rate limb, all rate limbs, (first capacity limb: only where
    // the layout allows witness-fed capacity, i.e. not the compact D=1 one)
    all.push(Mode::SC(vec![0]));
    if !quick {
        all.push(Mode::SC((0..sh.rate_ext).collect()));
        if !sh.compact() {
            all.push(Mode::SC(vec![sh.rate_ext]));
        }
    }
    if sh.merkle_ok() {
        let digest = if sh.arity4() { sh.cap_ext } else { sh.rate_ext };
        for pos in 0..npos {
            if !quick || pos == npos - 1 {
                starts.push(Mode::MS(pos));
            }
            all.push(Mode::MS(pos));
            all.push(Mode::MC(pos, vec![]));
            // a bus-loaded limb inside the chunk the digest is placed in / gated by
            let gate_limb = if sh.arity4() { pos * sh.cap_ext } else { 0 };
            if !quick || pos == 1 {
                all.push(Mode::MC(pos, vec![gate_limb]));
            }
            if !quick {
                all.push(Mode::MC(pos, vec![sh.width_ext - 1 - if sh.arity4() { pos * sh.cap_ext } else { 0 }]));
                if digest > 1 {
                    all.push(Mode::MC(pos, vec![gate_limb + digest - 1]));
                }
            }
        }
    }
    (starts, all)
}

fn fresh<F: PrimeField64>(row: usize, j: usize, seed: u64) -> F {
    F::from_u64(1_000 + 7919 * (row as u64 + 1) + 104_729 * (j as u64 + 1) + 31 * seed)
}

/// Honest rows for a mode sequence; outputs come from the upstream permutation generator.
fn honest_rows<C: PCfg>(c: &C, seq: &[Mode], h: usize, seed: u64) -> Vec<PRow<C::F>> {
    let sh = c.shape();
    let d = sh.d;
    let mut rows: Vec<PRow<C::F>> = vec![];
    let mut prev_out: Vec<C::F> = vec![];
    for (r, m) in seq.iter().enumerate() {
        let mut input: Vec<C::F> = (0..sh.width).map(|j| fresh::<C::F>(r, j, seed)).collect();
        let mut in_ctl = vec![false; sh.width_ext];
        let (new_start, merkle, pos) = match m {
            Mode::SS => (true, false, 0),
            Mode::SC(mask) => {
                for l in mask {
                    in_ctl[*l] = true;
                }
                (false, false, 0)
            }
            Mode::MS(p) => (true, true, *p),
            Mode::MC(p, mask) => {
                for l in mask {
                    in_ctl[*l] = true;
                }
                (false, true, *p)
            }
        };
        match m {
            Mode::SS => {
                if sh.compact() {
                    for j in sh.rate_ext * d..sh.width {
                        input[j] = C::F::ZERO;
                    }
                }
            }
            Mode::SC(_) => {
                for l in 0..sh.width_ext {
                    let chained = !in_ctl[l] || (sh.compact() && l >= sh.rate_ext);
                    if chained {
                        input[l * d..(l + 1) * d].copy_from_slice(&prev_out[l * d..(l + 1) * d]);
                    }
                }
            }
            Mode::MS(_) => {}
            Mode::MC(..) => {
                if sh.arity4() {
                    for s in 0..sh.cap_ext {
                        let g = pos * sh.cap_ext + s;
                        if !in_ctl[g] {
                            input[g * d..(g + 1) * d].copy_from_slice(&prev_out[s * d..(s + 1) * d]);
                        }
                    }
                } else {
                    for i in 0..sh.rate_ext {
                        let g = if pos == 0 { i } else { sh.rate_ext + i };
                        if !in_ctl[i] {
                            input[g * d..(g + 1) * d].copy_from_slice(&prev_out[i * d..(i + 1) * d]);
                        }
                    }
                }
            }
        }
        let block = c.perm_block(&input);
        prev_out = block[block.len() - sh.width..].to_vec();
        rows.push(PRow {
            new_start,
            merkle,
            bit: pos & 1 == 1,
            bit2: pos & 2 == 2,
            sum: C::F::from_u64(5 + r as u64),
            input,
            in_ctl,
        });
    }
    while rows.len() < h {
        rows.push(PRow {
            new_start: true,
            merkle: false,
            bit: false,
            bit2: false,
            sum: C::F::ZERO,
            input: vec![C::F::ZERO; sh.width],
            in_ctl: vec![false; sh.width_ext],
        });
    }
    rows
}

struct Tab<'a, C: PCfg> {
    c: &'a C,
    sh: PShape,
    air: C::A,
    prep: Mat<C::F>,
    rows: Vec<PRow<C::F>>,
    p_ncols: usize,
}

impl<C: PCfg> Tab<'_, C> {
    fn bit(&self, m: &Mat<C::F>, r: usize) -> C::F {
        m.row(r)[self.p_ncols]
    }
    fn bit2(&self, m: &Mat<C::F>, r: usize) -> C::F {
        m.row(r)[self.p_ncols + 1]
    }
    fn sum(&self, m: &Mat<C::F>, r: usize) -> C::F {
        m.row(r)[m.w - 1]
    }
    fn input<'b>(&self, m: &'b Mat<C::F>, r: usize) -> &'b [C::F] {
        &m.row(r)[..self.sh.width]
    }
    fn output<'b>(&self, m: &'b Mat<C::F>, r: usize) -> &'b [C::F] {
        &m.row(r)[self.p_ncols - self.sh.width..self.p_ncols]
    }
    fn is_bool(x: C::F) -> bool {
        x == C::F::ZERO || x == C::F::ONE
    }

    /// reference: row-local part
    fn intra(&self, m: &Mat<C::F>, r: usize) -> bool {
        let row = m.row(r);
        if !Self::is_bool(self.bit(m, r)) {
            return false;
        }
        if self.sh.arity4() {
            let (b, b2, prod) = (row[self.p_ncols], row[self.p_ncols + 1], row[self.p_ncols + 2]);
            if !Self::is_bool(b2) || prod != b * b2 {
                return false;
            }
        }
        let block = self.c.perm_block(&row[..self.sh.width]);
        if block[..] != row[..self.p_ncols] {
            return false;
        }
        if let Some(o) = self.c.native(&row[..self.sh.width]) {
            if o[..] != *self.output(m, r) {
                return false;
            }
        }
        true
    }

    /// reference: transition r → r+1 (not enforced across the last row)
    fn trans(&self, m: &Mat<C::F>, r: usize) -> bool {
        let h = m.h();
        if r == h - 1 {
            return true;
        }
        let n = r + 1;
        let sh = &self.sh;
        let d = sh.d;
        let op = &self.rows[n];
        let out = self.output(m, r);
        let inp = self.input(m, n);
        let eq_limb = |gi: usize, go: usize| inp[gi * d..(gi + 1) * d] == out[go * d..(go + 1) * d];
        if op.new_start {
            if sh.compact() && !op.merkle {
                return inp[sh.rate_ext * d..].iter().all(|x| *x == C::F::ZERO);
            }
            return true;
        }
        if !op.merkle {
            for l in 0..sh.width_ext {
                let chained = !op.in_ctl[l] || (sh.compact() && l >= sh.rate_ext);
                if chained && !eq_limb(l, l) {
                    return false;
                }
            }
            return true;
        }
        // Merkle continuation
        let b = self.bit(m, n);
        if !Self::is_bool(b) {
            return false; // rejected by the row-local relation of row n anyway
        }
        let two = C::F::ONE + C::F::ONE;
        if sh.arity4() {
            let b2 = self.bit2(m, n);
            let prod = m.row(n)[self.p_ncols + 2];
            if !Self::is_bool(b2) || prod != b * b2 {
                return false;
            }
            let pos = (b == C::F::ONE) as usize + 2 * (b2 == C::F::ONE) as usize;
            for s in 0..sh.cap_ext {
                let g = pos * sh.cap_ext + s;
                if !op.in_ctl[g] && !eq_limb(g, s) {
                    return false;
                }
            }
            self.sum(m, n) == self.sum(m, r) * two * two + b + two * b2
        } else {
            for i in 0..sh.rate_ext {
                let g = if b == C::F::ZERO { i } else { sh.rate_ext + i };
                if !op.in_ctl[i] && !eq_limb(g, i) {
                    return false;
                }
            }
            self.sum(m, n) == self.sum(m, r) * two + b
        }
    }

    fn mode_of(&self, r: usize) -> String {
        let op = &self.rows[r];
        let ctl = op.in_ctl.iter().any(|x| *x);
        format!(
            "{}{}{}",
            if op.merkle { "Merkle" } else { "Sponge" },
            if op.new_start { "-start" } else { "-chained" },
            if ctl { "+ctl" } else { "" }
        )
    }
}

fn fu<F: PrimeField64>(x: &F) -> u64 {
    x.as_canonical_u64()
}

/// Returns false when the AIR cannot be evaluated at all (then the configuration is dropped).
fn run_seq<C: PCfg>(env: &Env, c: &C, seq: &[Mode], full: bool, st: &mut Stats) -> bool {
    let sh = c.shape();
    let h = (seq.len() + 1).next_power_of_two();
    let rows = honest_rows(c, seq, h, env.seed);
    let (air, prep, mut m) = c.make(&rows);
    let circuit_cols = if sh.arity4() { 4 } else { 2 };
    let p_ncols = m.w - circuit_cols;
    if m.h() != h || prep.h() != h || c.perm_block(&rows[0].input).len() != p_ncols {
        mach(&format!(
            "{}: trace {}x{} prep height {} perm block {} (layout drift)",
            c.name(), m.h(), m.w, prep.h(), c.perm_block(&rows[0].input).len()
        ));
    }
    let t = Tab { c, sh, air, prep, rows, p_ncols };
    let cfg = c.name();
    let seqtag = seq.iter().map(|x| x.tag()).collect::<Vec<_>>().join(",");
    // the constraint evaluation itself must not abort on a valid row
    if let Err(p) = vpcore::quiet_catch(|| failures_at(&t.air, &t.prep, &m, 0)) {
        st.bump("MISMATCH ref_accept/air_panics (base)");
        st.base_traces += 1;
        env.report.violation(
            format!("C11|{cfg}|valid_rejected|eval_panics"),
            format!("{cfg} [{seqtag}]: Air::eval panics on a generated (valid) row: {p}; no row of this table shape can be checked or proved"),
            json!({"family":"poseidon","task":env.task,"case":format!("[{seqtag}] generated row 0")}),
        );
        return false;
    }
    // ---- base trace: every row and transition must satisfy the reference, and the AIR accept
    st.base_traces += 1;
    st.base_rows += h as u64;
    let mut pass = vec![true; h];
    for r in 0..h {
        let ref_ok = t.intra(&m, r) && t.trans(&m, r);
        let air_ok = failures_at(&t.air, &t.prep, &m, r) == 0;
        pass[r] = air_ok;
        if ref_ok != air_ok {
            let clause = if ref_ok { "valid_rejected" } else { "invalid_accepted" };
            st.bump(if ref_ok { "MISMATCH ref_accept/air_reject (base)" } else { "MISMATCH ref_reject/air_accept (base)" });
            env.report.violation(
                format!("C11|{cfg}|{clause}|{}->{}|generated", t.mode_of(r), t.mode_of((r + 1) % h)),
                format!("{cfg} [{seqtag}]: generated row {r}: reference relation {} but the AIR {}",
                    if ref_ok { "holds" } else { "is violated (native permutation / chaining)" },
                    if air_ok { "accepts" } else { "rejects" }),
                json!({"family":"poseidon","task":env.task,"case":format!("[{seqtag}] generated row {r}")}),
            );
        } else if !ref_ok {
            // generator (or the harness' honest-row builder) produced an invalid row and the
            // AIR refuses it: consistent, not a C11 matter; no case is derived from this row
            st.bump("generated row invalid: rejected by reference and by AIR (not a C11 matter)");
            st.notes.push(format!("{cfg} [{seqtag}]: generated row {r} rejected by both reference and AIR"));
        }
    }
    st.bump(if pass.iter().all(|p| *p) { "base accepted by both" } else { "base rejected by AIR" });

    // ---- edits of one row
    let real = seq.len();
    let mut judge = |m: &mut Mat<C::F>, st: &mut Stats, r: usize, new_row: Vec<C::F>, label: String, class: &str| {
        let aff = affected(h, r);
        if !pass[aff[0]] || !pass[aff[1]] {
            return;
        }
        let old = m.row(r).to_vec();
        if old == new_row {
            return;
        }
        m.row_mut(r).copy_from_slice(&new_row);
        let p = (r + h - 1) % h;
        let ref_ok = t.intra(m, r) && t.trans(m, p) && t.trans(m, r);
        let air_ok = !any_failure(&t.air, &t.prep, m, &aff);
        let kind = format!("{}:{}", cfg.split('/').next().unwrap_or(""), t.mode_of(r));
        let bytes = |row: &[C::F]| row.iter().flat_map(|x| fu(x).to_le_bytes()).collect::<Vec<u8>>();
        let hash = fnv64(&[cfg.as_bytes(), seqtag.as_bytes(), &(r as u64).to_le_bytes(), &bytes(m.row(r))]);
        st.case(cfg, &kind, !ref_ok, hash);
        st.bump(match (ref_ok, air_ok) {
            (true, true) => "ref_accept/air_accept",
            (false, false) => "ref_reject/air_reject",
            (true, false) => "MISMATCH ref_accept/air_reject",
            (false, true) => "MISMATCH ref_reject/air_accept",
        });
        if st.samples.len() < 2 && !ref_ok && st.evals % 211 == 7 {
            st.samples.push(json!({"table":cfg,"modes":seqtag,"row":r,"row_mode":t.mode_of(r),"edit":label,
                "reference":"reject","air":if air_ok {"accept"} else {"reject"}}));
        }
        if ref_ok != air_ok {
            let clause = if ref_ok { "valid_rejected" } else { "invalid_accepted" };
            env.report.violation(
                format!("C11|{cfg}|{clause}|{}->{}|edit={class}", t.mode_of(r), t.mode_of((r + 1) % h)),
                format!("{cfg} [{seqtag}] row {r} ({}) after `{label}`: reference relation {} but the AIR {}",
                    t.mode_of(r),
                    if ref_ok { "holds" } else { "is violated" },
                    if air_ok { "accepts" } else { "rejects" }),
                json!({"family":"poseidon","task":env.task,"case":format!("[{seqtag}] {label}"),"row_index":r}),
            );
        }
        m.row_mut(r).copy_from_slice(&old);
    };
    for r in 0..=real.min(h - 1) {
        if env.out_of_time() {
            st.cut += 1;
            return true;
        }
        // (a) ±1 on cells
        let cols: Vec<usize> = if full {
            (0..m.w).collect()
        } else {
            (0..sh.width).chain(p_ncols - sh.width..m.w).collect()
        };
        for col in cols {
            let class = if col < sh.width {
                "input"
            } else if col >= p_ncols {
                ["mmcs_bit", "circuit_col1", "circuit_col2", "mmcs_index_sum"][if col == m.w - 1 { 3 } else { col - p_ncols }]
            } else if col >= p_ncols - sh.width {
                "output"
            } else {
                "round_register"
            };
            for (sg, dl) in [("+1", C::F::ONE), ("-1", C::F::ZERO - C::F::ONE)] {
                let mut nr = m.row(r).to_vec();
                nr[col] += dl;
                judge(&mut m, st, r, nr, format!("row{r}.col{col}({class}){sg}"), class);
            }
        }
        // (b) honestly recomputed row on a changed input cell: isolates the chaining relation
        for j in 0..sh.width {
            let mut nr = m.row(r).to_vec();
            nr[j] += C::F::ONE;
            let block = c.perm_block(&nr[..sh.width]);
            nr[..p_ncols].copy_from_slice(&block);
            judge(&mut m, st, r, nr, format!("row{r}: input[{j}]+1, permutation recomputed"), "input_recomputed");
        }
        // (c) honestly flipped direction bit(s) with consistent product column
        if sh.arity4() {
            for pos in 0..4usize {
                let mut nr = m.row(r).to_vec();
                nr[p_ncols] = C::F::from_bool(pos & 1 == 1);
                nr[p_ncols + 1] = C::F::from_bool(pos & 2 == 2);
                nr[p_ncols + 2] = C::F::from_bool(pos == 3);
                judge(&mut m, st, r, nr, format!("row{r}: position := {pos}"), "position");
            }
            // product column inconsistent with the bits
            let mut nr = m.row(r).to_vec();
            nr[p_ncols + 2] = C::F::ONE - nr[p_ncols + 2];
            judge(&mut m, st, r, nr, format!("row{r}: bit_x_bit2 flipped"), "circuit_col2");
        }
    }
    true
}

fn run_cfg<C: PCfg>(env: &Env, c: &C, part: usize, parts: usize) -> Stats {
    let mut st = Stats::default();
    let sh = c.shape();
    let quick = env.quick();
    let (starts, all) = alphabet(&sh, quick);
    let mut seqs: Vec<Vec<Mode>> = vec![];
    for s in &starts {
        for a in &all {
            for b in &all {
                seqs.push(vec![s.clone(), a.clone(), b.clone()]);
            }
        }
    }
    // longer Merkle / sponge chains (accumulator over several levels)
    if sh.merkle_ok() {
        let np = if sh.arity4() { 4 } else { 2 };
        seqs.push(vec![Mode::MS(1), Mode::MC(0, vec![]), Mode::MC(1, vec![]), Mode::MC(np - 1, vec![]), Mode::MC(0, vec![]), Mode::SC(vec![])]);
    }
    seqs.push(vec![Mode::SS, Mode::SC(vec![]), Mode::SC(vec![]), Mode::SC(vec![0]), Mode::SS, Mode::SC(vec![])]);
    for (i, seq) in seqs.iter().enumerate() {
        if i % parts != part {
            continue;
        }
        if env.out_of_time() {
            st.cut += 1;
            break;
        }
        // FULL (every cell of every row) on a spread of sequences, LIGHT on the rest
        let full = if quick { i % 16 == 0 } else { i % 2 == 0 };
        if !run_seq(env, c, seq, full, &mut st) {
            st.notes.push(format!("{}: Air::eval panics on valid rows, configuration dropped after the first trace", c.name()));
            break;
        }
    }
    if part == 0 {
        st.notes.push(format!("{}: {} mode sequences over alphabet of {} modes, shape {:?}", c.name(), seqs.len(), all.len(), sh));
    }
    st
}

fn add<C: PCfg>(t: &mut Vec<Task>, c: C, parts: usize) {
    let c = std::sync::Arc::new(c);
    for part in 0..parts {
        let c2 = c.clone();
        t.push(Task {
            name: format!("{}/part{part}of{parts}", c.name()),
            weight: 200_000,
            run: Box::new(move |env| run_cfg(env, &*c2, part, parts)),
        });
    }
}

pub fn tasks(t: &mut Vec<Task>, quick: bool) {
    let parts = if quick { 4 } else { 16 };
    add(t, P2BbD4W16, parts);
    add(t, P2BbD1W16, parts);
    add(t, P2KbD4W32, parts);
    add(t, P1BbD4W16, parts);
    add(t, P1BbD1W16, parts);
    add(t, P2GlD2W8, parts);
    // width-24 shapes: one task each (sponge modes only; see known_findings: eval panics)
    add(t, P2BbD4W24, 1);
    add(t, P2KbD4W24, 1);
    add(t, P1BbD4W24, 1);
    add(t, P1KbD4W24, 1);
    if !quick {
        add(t, P2BbD4W32, parts);
        add(t, P2KbD4W16, parts);
        add(t, P2KbD1W16, parts);
        add(t, P2KbD1W32, parts);
        add(t, P2GlD2W16, parts);
        add(t, P1KbD4W16, parts);
        add(t, P1KbD1W16, parts);
        add(t, P1GlD2W8, parts);
    }
}
