//! Const, Public and Recompose tables. Their AIRs declare no local constraint (correctness is
//! carried by the witness bus alone), so the clause of C11 for them is: *every* row is
//! accepted. The check builds traces with the repository's generators and confirms that the
//! real `eval` accepts the generated rows and every edited row. (A constraint wrongly added
//! to one of these tables would show up as `valid_rejected`.) No case here is non-trivial.

use p3_air::{Air, BaseAir, DebugConstraintBuilder};
use p3_baby_bear::BabyBear;
use p3_circuit::WitnessId;
use p3_circuit::ops::recompose::RecomposeCircuitRow;
use p3_circuit::tables::{ConstTrace, PublicTrace};
use p3_circuit_prover::air::{ConstAir, PublicAir, RecomposeAir};
use p3_field::extension::BinomialExtensionField;
use p3_field::{BasedVectorSpace, Field, PrimeField64};
use p3_koala_bear::KoalaBear;
use p3_matrix::Matrix;
use p3_matrix::dense::RowMajorMatrix;
use vpcore::serde_json::json;

use crate::evalrow::{Mat, affected, any_failure, failures_at};
use crate::stats::{Stats, fnv64};
use crate::{Env, Task, mach};

fn run_free<F, A>(env: &Env, cfg: &str, air: &A, main: RowMajorMatrix<F>) -> Stats
where
    F: PrimeField64,
    A: BaseAir<F> + for<'a> Air<DebugConstraintBuilder<'a, F, F>>,
{
    let mut st = Stats::default();
    let pm = air.preprocessed_trace().unwrap_or_else(|| mach("no preprocessed trace"));
    let prep = Mat { w: pm.width(), v: pm.values };
    let mut m = Mat { w: main.width(), v: main.values };
    if prep.h() != m.h() || m.w != air.width() {
        mach(&format!("{cfg}: trace {}x{} vs prep height {} / air width {}", m.h(), m.w, prep.h(), air.width()));
    }
    st.base_traces += 1;
    st.base_rows += m.h() as u64;
    let mut report = |st: &mut Stats, what: String, row: &[F]| {
        st.bump("MISMATCH ref_accept/air_reject");
        env.report.violation(
            format!("C11|simple|valid_rejected|{cfg}"),
            format!("{cfg}: the table has no defining relation beyond the bus, yet the AIR rejects {what}"),
            json!({"family":"simple","task":env.task,"case":what,
                   "row":row.iter().map(|x| x.as_canonical_u64()).collect::<Vec<_>>()}),
        );
    };
    for i in 0..m.h() {
        if failures_at(air, &prep, &m, i) > 0 {
            report(&mut st, format!("generated row {i}"), m.row(i));
        }
    }
    let h = m.h();
    let two = F::ONE + F::ONE;
    for r in 0..h {
        for c in 0..m.w {
            let old = m.row(r)[c];
            for v in [old + F::ONE, old - F::ONE, F::ZERO, two, F::ZERO - two] {
                if v == old {
                    continue;
                }
                m.row_mut(r)[c] = v;
                let ok = !any_failure(air, &prep, &m, &affected(h, r));
                let hash = fnv64(&[cfg.as_bytes(), &(r as u64).to_le_bytes(), &(c as u64).to_le_bytes(), &v.as_canonical_u64().to_le_bytes()]);
                st.case(cfg, "free-row", false, hash);
                if ok {
                    st.bump("ref_accept/air_accept");
                } else {
                    report(&mut st, format!("row {r} col {c} := {}", v.as_canonical_u64()), m.row(r));
                }
            }
            m.row_mut(r)[c] = old;
        }
    }
    st
}

fn vals<F: PrimeField64, EF: Field + BasedVectorSpace<F>>(n: usize, d: usize) -> Vec<EF> {
    (0..n)
        .map(|i| {
            let c: Vec<F> = (0..d).map(|j| F::from_u64((3 * i + 7 * j + 1) as u64)).collect();
            EF::from_basis_coefficients_slice(&c).unwrap()
        })
        .collect()
}

fn family<F: PrimeField64, EF: Field + BasedVectorSpace<F>, const D: usize>(t: &mut Vec<Task>, label: &'static str) {
    let n = 5usize;
    t.push(Task {
        name: format!("simple/const/{label}"),
        weight: 1,
        run: Box::new(move |env| {
            let idx: Vec<WitnessId> = (0..n as u32).map(|i| WitnessId(i + 1)).collect();
            let prep: Vec<F> = idx.iter().flat_map(|i| [F::ONE, F::from_u32(i.0 * D as u32)]).collect();
            let trace = ConstTrace { index: idx, values: vals::<F, EF>(n, D) };
            let air = ConstAir::<F, D>::new_with_preprocessed(n, prep);
            let m = ConstAir::<F, D>::trace_to_matrix(&trace, 1);
            run_free(env, &format!("simple/const/{label}"), &air, m)
        }),
    });
    for lanes in [1usize, 2] {
        t.push(Task {
            name: format!("simple/public/{label}/lanes{lanes}"),
            weight: 1,
            run: Box::new(move |env| {
                let idx: Vec<WitnessId> = (0..n as u32).map(|i| WitnessId(i + 1)).collect();
                let prep: Vec<F> = idx.iter().flat_map(|i| [F::ONE, F::from_u32(i.0 * D as u32)]).collect();
                let trace = PublicTrace { index: idx, values: vals::<F, EF>(n, D) };
                let air = PublicAir::<F, D>::new_with_preprocessed(n, lanes, prep);
                let m = PublicAir::<F, D>::trace_to_matrix(&trace, lanes, 1);
                run_free(env, &format!("simple/public/{label}/lanes{lanes}"), &air, m)
            }),
        });
        for coeff in [false, true] {
            if D == 1 {
                continue;
            }
            t.push(Task {
                name: format!("simple/recompose/{label}/lanes{lanes}/coeff={coeff}"),
                weight: 1,
                run: Box::new(move |env| {
                    let rows: Vec<RecomposeCircuitRow<F>> = (0..n)
                        .map(|i| RecomposeCircuitRow {
                            input_wids: (0..D as u32).map(|j| WitnessId(10 + (i * D) as u32 + j)).collect(),
                            output_wid: WitnessId(100 + i as u32),
                            values: (0..D).map(|j| F::from_u64((5 * i + j + 2) as u64)).collect(),
                        })
                        .collect();
                    let mut prep: Vec<F> = vec![];
                    for r in &rows {
                        prep.push(F::from_u32(r.output_wid.0 * D as u32));
                        prep.push(F::ONE);
                        if coeff {
                            for wid in &r.input_wids {
                                prep.push(F::from_u32(wid.0 * D as u32));
                                prep.push(F::ONE);
                            }
                        }
                    }
                    let air = RecomposeAir::<F, D>::new_with_preprocessed(lanes, prep, 1, coeff);
                    let m = RecomposeAir::<F, D>::trace_to_matrix(&rows, lanes);
                    run_free(env, &format!("simple/recompose/{label}/lanes{lanes}/coeff={coeff}"), &air, m)
                }),
            });
        }
    }
}

pub fn tasks(t: &mut Vec<Task>, quick: bool) {
    family::<BabyBear, BabyBear, 1>(t, "BabyBear-D1");
    family::<BabyBear, BinomialExtensionField<BabyBear, 4>, 4>(t, "BabyBear-D4");
    if !quick {
        family::<KoalaBear, BinomialExtensionField<KoalaBear, 8>, 8>(t, "KoalaBear-D8");
        family::<KoalaBear, p3_field::extension::QuinticTrinomialExtensionField<KoalaBear>, 5>(t, "KoalaBear-D5q");
    }
}
