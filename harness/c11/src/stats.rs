//! Per-task counters, merged at the end into the evidence file.

use std::collections::{BTreeMap, HashSet};

use vpcore::serde_json::Value;

#[derive(Default)]
pub struct Stats {
    /// judged cases (one case = one concrete trace compared AIR verdict vs reference verdict)
    pub evals: u64,
    /// cases the reference relation rejects (the AIR must reject too)
    pub nontrivial: u64,
    /// hashes of the distinct non-trivial cases (table config, row kind, row values, edit)
    pub distinct: HashSet<u64>,
    /// number of distinct non-trivial cases already folded in from finished tasks
    pub distinct_folded: u64,
    /// fully checked base traces / rows in them
    pub base_traces: u64,
    pub base_rows: u64,
    /// base traces rebuilt by the harness' own row filler and found identical to the
    /// repository's trace generator output
    pub validated_against_generator: u64,
    /// (reference verdict, AIR verdict) histogram
    pub histo: BTreeMap<String, u64>,
    /// per row kind: (cases, non-trivial cases)
    pub per_kind: BTreeMap<String, (u64, u64)>,
    /// per table configuration: (cases, non-trivial cases)
    pub per_cfg: BTreeMap<String, (u64, u64)>,
    pub samples: Vec<Value>,
    /// tasks skipped or cut because the wall-clock budget ended
    pub cut: u64,
    pub notes: Vec<String>,
}

impl Stats {
    pub fn bump(&mut self, k: &str) {
        *self.histo.entry(k.to_string()).or_insert(0) += 1;
    }
    pub fn case(&mut self, cfg: &str, kind: &str, nontrivial: bool, hash: u64) {
        self.evals += 1;
        let e = self.per_kind.entry(kind.to_string()).or_insert((0, 0));
        e.0 += 1;
        let c = self.per_cfg.entry(cfg.to_string()).or_insert((0, 0));
        c.0 += 1;
        if nontrivial {
            self.nontrivial += 1;
            e.1 += 1;
            c.1 += 1;
            self.distinct.insert(hash);
        }
    }
    /// Fold a finished task in. Distinctness across tasks: every hash includes the task's
    /// configuration/scenario name, so the sets of two tasks are disjoint by construction
    /// and their sizes add up.
    pub fn merge(&mut self, o: Stats) {
        self.evals += o.evals;
        self.nontrivial += o.nontrivial;
        self.distinct_folded += o.distinct_folded + o.distinct.len() as u64;
        self.base_traces += o.base_traces;
        self.base_rows += o.base_rows;
        self.validated_against_generator += o.validated_against_generator;
        self.cut += o.cut;
        for (k, v) in o.histo {
            *self.histo.entry(k).or_insert(0) += v;
        }
        for (k, v) in o.per_kind {
            let e = self.per_kind.entry(k).or_insert((0, 0));
            e.0 += v.0;
            e.1 += v.1;
        }
        for (k, v) in o.per_cfg {
            let e = self.per_cfg.entry(k).or_insert((0, 0));
            e.0 += v.0;
            e.1 += v.1;
        }
        // keep a few written-out cases per table family (alu / poseidon1 / poseidon2)
        for s in o.samples {
            let fam = |v: &Value| v["table"].as_str().unwrap_or("").split('/').next().unwrap_or("").to_string();
            let f = fam(&s);
            if self.samples.iter().filter(|x| fam(x) == f).count() < 6 {
                self.samples.push(s);
            }
        }
        for n in o.notes {
            if self.notes.len() < 40 && !self.notes.contains(&n) {
                self.notes.push(n);
            }
        }
    }
    pub fn distinct_total(&self) -> u64 {
        self.distinct_folded + self.distinct.len() as u64
    }
}

pub fn fnv64(parts: &[&[u8]]) -> u64 {
    let mut h: u64 = 0xcbf29ce484222325;
    for p in parts {
        for b in *p {
            h ^= *b as u64;
            h = h.wrapping_mul(0x100000001b3);
        }
        h ^= 0xff;
        h = h.wrapping_mul(0x100000001b3);
    }
    h
}
