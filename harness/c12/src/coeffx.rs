//! C12 — coefficient-decomposition sites over the OTHER field configurations of the repository
//! (the original sites in `main.rs` cover BabyBear D=4 / ALU chain and KoalaBear D=4 / recompose):
//!
//!   * Goldilocks quadratic (D=2, the repository's Poseidon2-W8 `GoldilocksConfig`),
//!   * KoalaBear quintic trinomial (D=5, `p3_test_utils::koala_bear_quintic_params`),
//!   * BabyBear D=4 with the recompose table(s),
//!
//! each in the modes the D-specific backend can enable: `alu` (plain `mul_add` chain),
//! `npo` (recompose table), `npo_coeff` (recompose + recompose/coeff tables with
//! `set_recompose_coeff_ctl_for_decompose_links(true)`), and for `npo_coeff` with the coefficient
//! consumed either as the FIRST operand of its ALU row (`a`, like the original sites) or ONLY as
//! the second operand (`b`: the recompose/coeff row is then the sole creator of the coefficient on
//! the WitnessChecks bus, so a forged consumer value is unmatched and the site is a live detector).
//!
//! Circuit: x public, c = decompose_ext_to_base_coeffs(x), y_i = c_i · K public.
//! Alternative witnesses (all satisfy Σ c_k·X^k == x):
//!   * canonical;
//!   * mass moved between every ordered pair (i, j), i ≠ j:  c_i += X^(j-i), c_j -= 1;
//!   * a coefficient that is a non-base extension element with the others compensating:
//!       - all mass in coefficient i:  c_i = x·X^(-i), every other 0   (i = 0: "c0 = x"),
//!       - c_i += e (e = Σ_{k≥1}(k+2)·X^k), one other coefficient j (every j) or all others
//!         equally absorb -e·X^i.
//! Every alternative is first substituted through the `FixedHint` executor and run by the real
//! runner; where the runner refuses (the recompose executor recomputes x from the base parts), the
//! honest traces are forged instead: the recompose row(s) stay canonical, every ALU port reading a
//! coefficient slot and the public outputs carry the alternative (what a malicious prover that
//! does not use the runner would commit). The repository's prover + verifier decide.

use p3_baby_bear::BabyBear;
use p3_batch_stark::ProverData;
use p3_challenger::DuplexChallenger;
use p3_circuit::ops::{AluOpKind, generate_recompose_trace};
use p3_circuit::{Circuit, CircuitBuilder, ExprId, Traces, WitnessId};
use p3_circuit_prover::batch_stark_prover::{BatchStarkProver, CircuitProverData, TablePacking, recompose_air_builders};
use p3_circuit_prover::common::{NpoAirBuilder, NpoPreprocessor, get_airs_and_degrees_with_prep};
use p3_circuit_prover::config::{BabyBearConfig, GoldilocksConfig};
use p3_circuit_prover::{ConstraintProfile, RecomposePreprocessor};
use p3_commit::ExtensionMmcs;
use p3_dft::Radix2DitParallel;
use p3_field::extension::{BinomialExtensionField, QuinticTrinomialExtensionField};
use p3_field::{BasedVectorSpace, ExtensionField, Field, PrimeCharacteristicRing, PrimeField64};
use p3_fri::{FriParameters, TwoAdicFriPcs};
use p3_goldilocks::{Goldilocks, Poseidon2Goldilocks};
use p3_koala_bear::KoalaBear;
use p3_merkle_tree::MerkleTreeMmcs;
use p3_symmetric::{PaddingFreeSponge, TruncatedPermutation};
use p3_uni_stark::StarkConfig;
use vpcore::quiet_catch;

use crate::{K, Outcome, with_hint};

type GL = Goldilocks;
type GL2 = BinomialExtensionField<GL, 2>;
type KB = KoalaBear;
type KB5 = QuinticTrinomialExtensionField<KB>;
type BB = BabyBear;
type BB4 = BinomialExtensionField<BB, 4>;
type Kb5Config = p3_test_utils::koala_bear_quintic_params::MyConfig;

#[derive(Clone, Copy, Debug, PartialEq, Eq)]
pub enum FieldCfg {
    Gl2,
    Kb5,
    Bb4,
}

impl FieldCfg {
    pub fn tag(self) -> &'static str {
        match self {
            FieldCfg::Gl2 => "goldilocks-d2",
            FieldCfg::Kb5 => "koalabear-d5",
            FieldCfg::Bb4 => "babybear-d4",
        }
    }
    pub fn d(self) -> usize {
        match self {
            FieldCfg::Gl2 => 2,
            FieldCfg::Kb5 => 5,
            FieldCfg::Bb4 => 4,
        }
    }
    fn order(self) -> u64 {
        match self {
            FieldCfg::Gl2 => GL::ORDER_U64,
            FieldCfg::Kb5 => KB::ORDER_U64,
            FieldCfg::Bb4 => BB::ORDER_U64,
        }
    }
}

#[derive(Clone, Debug, PartialEq)]
pub enum Alt {
    Canonical,
    /// c_i += X^(j-i), c_j -= 1
    Move(usize, usize),
    /// c_i = x·X^(-i), every other coefficient 0
    AllInto(usize),
    /// c_i += e; Some(j): c_j -= e·X^(i-j); None: every other k: c_k -= e·X^(i-k)/(D-1)
    NonBase(usize, Option<usize>),
}

impl Alt {
    pub fn class(&self) -> &'static str {
        match self {
            Alt::Canonical => "canonical",
            Alt::Move(..) => "mass_moved_between_coefficients",
            Alt::AllInto(_) | Alt::NonBase(..) => "non_base_coefficient_others_compensate",
        }
    }
    pub fn detail(&self) -> String {
        match self {
            Alt::Canonical => "base coefficients".into(),
            Alt::Move(i, j) => format!("c{i}+=X^({j}-{i}),c{j}-=1"),
            Alt::AllInto(0) => "c0=x,all others 0".into(),
            Alt::AllInto(i) => format!("c{i}=x·X^-{i},all others 0"),
            Alt::NonBase(i, Some(j)) => format!("c{i}+=e,c{j}-=e·X^({i}-{j})"),
            Alt::NonBase(i, None) => format!("c{i}+=e,all others share -e·X^{i}"),
        }
    }
}

#[derive(Clone, Debug)]
pub struct CoeffX {
    pub cfg: FieldCfg,
    /// "alu" | "npo" | "npo_coeff"
    pub mode: &'static str,
    /// how the coefficients are consumed: "read_as_a" | "read_only_b" (see `run_generic`)
    pub consumer: &'static str,
    pub x: Vec<u64>,
    pub alt: Alt,
}

impl CoeffX {
    pub fn site(&self) -> String {
        format!("decompose_ext_to_base_coeffs/{}/{}/{}", self.cfg.tag(), self.mode, self.consumer)
    }
}

fn basis<F: Field, EF: BasedVectorSpace<F>>(i: usize) -> EF {
    EF::from_basis_coefficients_fn(|k| if k == i { F::ONE } else { F::ZERO })
}

fn ext_of<F: PrimeField64, EF: BasedVectorSpace<F>>(x: &[u64]) -> EF {
    EF::from_basis_coefficients_fn(|k| F::from_u64(x[k]))
}

/// The alternative coefficient vector (each entry an extension element); Σ c_k·X^k == x always.
fn alt_witness<F: PrimeField64, EF: ExtensionField<F>>(x: EF, alt: &Alt) -> Vec<EF> {
    let d = <EF as BasedVectorSpace<F>>::DIMENSION;
    let canon: Vec<EF> = <EF as BasedVectorSpace<F>>::as_basis_coefficients_slice(&x).iter().map(|c| EF::from(*c)).collect();
    let b = |i: usize| basis::<F, EF>(i);
    let e: EF = EF::from_basis_coefficients_fn(|k| if k == 0 { F::ZERO } else { F::from_u64(k as u64 + 2) });
    let mut c = canon;
    match alt {
        Alt::Canonical => {}
        Alt::Move(i, j) => {
            c[*i] += b(*j) * b(*i).inverse();
            c[*j] -= EF::ONE;
        }
        Alt::AllInto(i) => {
            for v in c.iter_mut() {
                *v = EF::ZERO;
            }
            c[*i] = x * b(*i).inverse();
        }
        Alt::NonBase(i, Some(j)) => {
            c[*i] += e;
            c[*j] -= e * b(*i) * b(*j).inverse();
        }
        Alt::NonBase(i, None) => {
            c[*i] += e;
            let share = EF::from_u64(d as u64 - 1).inverse();
            for k in 0..d {
                if k != *i {
                    c[k] -= e * b(*i) * b(k).inverse() * share;
                }
            }
        }
    }
    debug_assert!(c.iter().enumerate().fold(EF::ZERO, |acc, (k, v)| acc + *v * b(k)) == x);
    c
}

fn identity_holds_and_canonical<F: PrimeField64, EF: ExtensionField<F>>(x: &[u64], alt: &Alt) -> (bool, bool) {
    let xe: EF = ext_of::<F, EF>(x);
    let c = alt_witness::<F, EF>(xe, alt);
    let sum = c.iter().enumerate().fold(EF::ZERO, |acc, (k, v)| acc + *v * basis::<F, EF>(k));
    let canon = alt_witness::<F, EF>(xe, &Alt::Canonical);
    (sum == xe, c == canon)
}

/// Test-grade FRI parameters on the repository's `GoldilocksConfig` (same permutation seed, hash,
/// compression, MMCS, DFT, challenger as `config::goldilocks()`), like `vpe1::accept::fast_*`.
fn fast_goldilocks() -> GoldilocksConfig {
    use rand::SeedableRng;
    let mut rng = rand::rngs::SmallRng::seed_from_u64(1);
    let perm = Poseidon2Goldilocks::<8>::new_from_rng_128(&mut rng);
    let hash = PaddingFreeSponge::<_, 8, 4, 4>::new(perm.clone());
    let compress = TruncatedPermutation::<_, 2, 4, 8>::new(perm.clone());
    let val_mmcs = MerkleTreeMmcs::new(hash, compress, 3);
    let challenge_mmcs = ExtensionMmcs::new(val_mmcs.clone());
    let dft = Radix2DitParallel::default();
    let fri_params = FriParameters::new_testing(challenge_mmcs, 0);
    let pcs = TwoAdicFriPcs::new(dft, val_mmcs, fri_params);
    let challenger = DuplexChallenger::new(perm);
    StarkConfig::new(pcs, challenger)
}

type Forge<'a, EF> = Option<&'a dyn Fn(&mut Traces<EF>)>;

/// run (real runner) → optional forging of the traces → real prover → real verifier.
/// `recompose`: None = no recompose table; Some(split) = recompose table (+ recompose/coeff).
macro_rules! def_prover {
    ($name:ident, $SC:ty, $F:ty, $EF:ty, $D:literal, $mk:expr) => {
        fn $name(circuit: &Circuit<$EF>, pubs: &[$EF], recompose: Option<bool>, forge: Forge<'_, $EF>) -> Outcome {
            let mut r = circuit.runner();
            if let Err(e) = r.set_public_inputs(pubs) {
                return Outcome::RunRejected(format!("{e:?}"));
            }
            let mut traces = match r.run() {
                Ok(t) => t,
                Err(e) => return Outcome::RunRejected(format!("{e:?}")),
            };
            if let Some(f) = forge {
                f(&mut traces);
            }
            match quiet_catch(|| {
                let cfg: $SC = $mk;
                let packing = TablePacking::default();
                let (npo_prep, air_builders): (Vec<Box<dyn NpoPreprocessor<$F>>>, Vec<Box<dyn NpoAirBuilder<$SC, $D>>>) = match recompose {
                    Some(split) => (vec![Box::new(RecomposePreprocessor::new(split))], recompose_air_builders::<$SC, $D>(1, split)),
                    None => (vec![], vec![]),
                };
                let (ad, prim, np) = get_airs_and_degrees_with_prep::<$SC, _, $D>(circuit, &packing, &npo_prep, &air_builders, ConstraintProfile::Standard).map_err(|e| format!("prep:{e:?}"))?;
                let (airs, degs): (Vec<_>, Vec<usize>) = ad.into_iter().unzip();
                let pd = ProverData::from_airs_and_degrees(&cfg, &airs, &degs);
                let cpd = CircuitProverData::new(pd, prim, np);
                let mut prover = BatchStarkProver::new(cfg);
                if let Some(split) = recompose {
                    prover.register_recompose_table::<$D>(split);
                }
                let proof = prover.prove_all_tables(&traces, &cpd).map_err(|e| format!("prove:{e:?}"))?;
                prover.verify_all_tables::<$EF>(&proof).map_err(|e| format!("verify:{e:?}"))
            }) {
                Ok(Ok(())) => Outcome::Accepted,
                Ok(Err(e)) => Outcome::Rejected(e),
                Err(p) => Outcome::Panic(p),
            }
        }
    };
}

def_prover!(prove_gl2, GoldilocksConfig, GL, GL2, 2, fast_goldilocks());
def_prover!(prove_kb5, Kb5Config, KB, KB5, 5, p3_test_utils::koala_bear_quintic_params::make_test_config());
def_prover!(prove_bb4, BabyBearConfig, BB, BB4, 4, vpe1::accept::fast_baby_bear());

/// Multipliers of the linear combination in the `read_only_b` topology (distinct, so that every
/// redistribution of mass changes the claimed public value) and its constant offset.
const KS: [u64; 5] = [3, 5, 11, 13, 17];
const OFFSET: u64 = 7;

fn run_generic<F, EF>(w: &CoeffX, prove: &dyn Fn(&Circuit<EF>, &[EF], Option<bool>, Forge<'_, EF>) -> Outcome) -> Outcome
where
    F: PrimeField64,
    EF: ExtensionField<F> + core::hash::Hash,
{
    let d = <EF as BasedVectorSpace<F>>::DIMENSION;
    let recompose = match w.mode {
        "alu" => None,
        "npo" => Some(false),
        _ => Some(true),
    };
    let mut b = CircuitBuilder::<EF>::new();
    if let Some(split) = recompose {
        b.enable_recompose::<F>(generate_recompose_trace::<F, EF>);
        if split {
            b.set_recompose_coeff_ctl_for_decompose_links(true);
        }
    }
    let x = b.public_input();
    // read_as_a:   publics [x, y_0..y_{D-1}],  y_i = c_i · K   (coefficient = first operand; the
    //              row's output is the public slot)
    // read_only_b: publics [x, expected],  expected = OFFSET + Σ KS_i · c_i with every
    //              coefficient read ONLY as the second operand of a row with a fresh output, i.e.
    //              as a pure WitnessChecks reader (the attacker-style consumer)
    let linear = w.consumer == "read_only_b";
    let expected = if linear { Some(b.public_input()) } else { None };
    let coeffs = match b.decompose_ext_to_base_coeffs::<F>(x) {
        Ok(c) => c,
        Err(e) => return Outcome::Panic(format!("decompose_ext_to_base_coeffs: {e:?}")),
    };
    if coeffs.len() != d {
        return Outcome::Panic(format!("decompose_ext_to_base_coeffs returned {} coefficients, D = {d}", coeffs.len()));
    }
    let kk = EF::from_u64(K);
    if let Some(expected) = expected {
        let mut acc = b.define_const(EF::from_u64(OFFSET));
        for i in 0..d {
            let k = b.define_const(EF::from_u64(KS[i]));
            let t = b.mul(k, coeffs[i]);
            acc = b.add(acc, t);
        }
        let diff = b.sub(acc, expected);
        b.assert_zero(diff);
    } else {
        let k = b.define_const(kk);
        let ys: Vec<ExprId> = (0..d).map(|_| b.public_input()).collect();
        for i in 0..d {
            let m = b.mul(coeffs[i], k);
            b.connect(m, ys[i]);
        }
    }
    let circuit = match b.build() {
        Ok(c) => c,
        Err(e) => return Outcome::Panic(format!("build: {e:?}")),
    };
    let xe: EF = ext_of::<F, EF>(&w.x);
    let pubs_for = |c: &[EF]| -> Vec<EF> {
        let mut p = vec![xe];
        if linear {
            p.push(c.iter().enumerate().fold(EF::from_u64(OFFSET), |acc, (i, v)| acc + *v * EF::from_u64(KS[i])));
        } else {
            p.extend(c.iter().map(|v| *v * kk));
        }
        p
    };
    let alt = alt_witness::<F, EF>(xe, &w.alt);
    let canon = alt_witness::<F, EF>(xe, &Alt::Canonical);
    let pubs = pubs_for(&alt);
    let canon_pubs = pubs_for(&canon);
    if w.alt != Alt::Canonical && alt != canon && pubs == canon_pubs {
        return Outcome::Panic("harness: alternative witness not observable in the public values".into());
    }
    let debug = std::env::var("C12_DEBUG").is_ok();
    if debug {
        for op in &circuit.ops {
            eprintln!("  op {op:?}");
        }
    }
    let Some(c2) = with_hint(&circuit, 0, alt.clone()) else {
        return Outcome::Panic("hint not found".into());
    };
    // 1. the prover's freedom as the runner sees it: any hint output
    let direct = prove(&c2, &pubs, recompose, None);
    if debug {
        eprintln!("  direct: {direct:?}");
    }
    if !matches!(direct, Outcome::RunRejected(_)) || w.alt == Alt::Canonical {
        return direct;
    }
    // 2. a malicious prover does not use the runner. Honest run (canonical coefficients in the
    //    recompose row(s)), then the witness is re-derived with the hint outputs and the claimed
    //    publics replaced and every ALU row / public row rewritten from it: all ALU rows are
    //    locally consistent, only the recompose tables still hold the canonical coefficients.
    let hint_outs: Vec<WitnessId> = circuit
        .ops
        .iter()
        .find_map(|op| if let p3_circuit::Op::Hint { outputs, .. } = op { Some(outputs.clone()) } else { None })
        .unwrap_or_default();
    let forge = |t: &mut Traces<EF>| {
        let n = t.witness_trace.index.len();
        let mut wv: Vec<EF> = (0..n as u32).map(|i| *t.witness_trace.get_value(WitnessId(i)).unwrap()).collect();
        let mut fixed = vec![false; n];
        for op in &circuit.ops {
            match op {
                p3_circuit::Op::Const { out, .. } => fixed[out.0 as usize] = true,
                p3_circuit::Op::Public { out, public_pos } => {
                    fixed[out.0 as usize] = true;
                    wv[out.0 as usize] = pubs[*public_pos];
                }
                _ => {}
            }
        }
        for (o, v) in hint_outs.iter().zip(alt.iter()) {
            if !fixed[o.0 as usize] {
                wv[o.0 as usize] = *v;
                fixed[o.0 as usize] = true;
            }
        }
        for (pos, wid) in t.public_trace.index.clone().iter().enumerate() {
            t.public_trace.values[pos] = wv[wid.0 as usize];
        }
        for r in 0..t.alu_trace.values.len() {
            let [a, bb, c, out] = t.alu_trace.indices[r].map(|wid| wid.0 as usize);
            let kind = t.alu_trace.op_kind[r];
            let c_val = if kind == AluOpKind::MulAdd { wv[c] } else { t.alu_trace.values[r][2] };
            if !fixed[out] {
                match kind {
                    AluOpKind::Add => wv[out] = wv[a] + wv[bb],
                    AluOpKind::Mul => wv[out] = wv[a] * wv[bb],
                    AluOpKind::MulAdd => wv[out] = wv[a] * wv[bb] + c_val,
                    _ => {}
                }
                fixed[out] = true;
            } else if !fixed[bb] {
                // backward row: `b` is the solved operand
                match kind {
                    AluOpKind::Add => wv[bb] = wv[out] - wv[a],
                    AluOpKind::Mul if wv[a] != EF::ZERO => wv[bb] = wv[out] * wv[a].inverse(),
                    AluOpKind::MulAdd if wv[a] != EF::ZERO => wv[bb] = (wv[out] - c_val) * wv[a].inverse(),
                    _ => {}
                }
                fixed[bb] = true;
            }
            t.alu_trace.values[r] = [wv[a], wv[bb], c_val, wv[out]];
            if debug {
                eprintln!("  alu {r} {kind:?} {:?} {:?}", t.alu_trace.indices[r], t.alu_trace.values[r]);
            }
        }
    };
    let forged = prove(&circuit, &canon_pubs, recompose, Some(&forge));
    if debug {
        eprintln!("  forged: {forged:?}");
    }
    match forged {
        // the honest run of the unmodified circuit cannot fail
        Outcome::RunRejected(e) => Outcome::Panic(format!("honest run refused: {e}")),
        o => o,
    }
}

pub fn run(w: &CoeffX) -> Outcome {
    match w.cfg {
        FieldCfg::Gl2 => run_generic::<GL, GL2>(w, &prove_gl2),
        FieldCfg::Kb5 => run_generic::<KB, KB5>(w, &prove_kb5),
        FieldCfg::Bb4 => run_generic::<BB, BB4>(w, &prove_bb4),
    }
}

/// All cases of one site: values × every alternative of the classes. Returns (work, canonical).
/// Alternatives of a non-canonical class that coincide with the canonical vector for the value
/// (e.g. "c0 = x" for a base-field x) are dropped: they are the canonical case.
pub fn plan(cfg: FieldCfg, mode: &'static str, consumer: &'static str, thorough: bool) -> Vec<(CoeffX, bool)> {
    let d = cfg.d();
    let p = cfg.order();
    let mut xs: Vec<Vec<u64>> = vec![(1..=d as u64).collect(), vec![0; d], (0..d).map(|k| if k == 0 { 5 } else if k == d - 1 { 7 } else { 0 }).collect()];
    if thorough {
        xs.push((0..d as u64).map(|k| p - 1 - k).collect());
        xs.push((0..d).map(|k| if k == d - 1 { 1 } else { 0 }).collect());
        xs.push((0..d as u64).map(|k| (1u64 << 27) - 2 + k).collect());
    }
    let mut alts: Vec<Alt> = vec![Alt::Canonical];
    for i in 0..d {
        for j in 0..d {
            if i != j {
                alts.push(Alt::Move(i, j));
            }
        }
    }
    for i in 0..d {
        alts.push(Alt::AllInto(i));
    }
    for i in 0..d {
        for j in 0..d {
            if i != j {
                alts.push(Alt::NonBase(i, Some(j)));
            }
        }
        if d > 2 {
            alts.push(Alt::NonBase(i, None));
        }
    }
    let mut out = vec![];
    for x in &xs {
        for alt in &alts {
            let (holds, canonical) = match cfg {
                FieldCfg::Gl2 => identity_holds_and_canonical::<GL, GL2>(x, alt),
                FieldCfg::Kb5 => identity_holds_and_canonical::<KB, KB5>(x, alt),
                FieldCfg::Bb4 => identity_holds_and_canonical::<BB, BB4>(x, alt),
            };
            assert!(holds, "harness: alternative {alt:?} of {x:?} breaks the recomposition identity");
            if canonical && *alt != Alt::Canonical {
                continue;
            }
            out.push((CoeffX { cfg, mode, consumer, x: x.clone(), alt: alt.clone() }, canonical));
        }
    }
    out
}
