fn main() {
    eprintln!("MACHINERY-ERROR: check c12 not built yet");
    std::process::exit(2);
}
