//! C12 — bit and coefficient decompositions admit only the canonical witness.
//!
//! For every decomposition site × value of an alphabet, EVERY alternative witness of the stated
//! classes that satisfies the recomposition identity is substituted for the hint output
//! (the hint executor inside a clone of `Circuit::ops` is replaced), the circuit is run by the
//! real runner, proven and verified by the real prover/verifier. The decomposed digits are
//! made observable through public outputs (y_i = digit_i * k), so an accepted proof with a
//! non-canonical witness is an accepted false public statement.
//!   classes:  bits of x + k·p (every k with x + k·p < 2^n);
//!             digit i += 2, digit i+1 -= 1 (non-boolean digits, identity preserved);
//!             coefficient i += X^(j-i), coefficient j -= 1 (mass moved between extension
//!             coefficients: coefficient i is no longer a base-field element).
//!             a coefficient that is a non-base extension element, the others compensating.
//! Coefficient sites: BabyBear D=4 "alu", KoalaBear D=4 "npo"/"npo_coeff" (this file) and
//! Goldilocks D=2 / KoalaBear D=5 / BabyBear D=4+recompose in every mode (`coeffx.rs`).
//! Verdict: violation ⇔ accepted ∧ witness not canonical.

use std::sync::atomic::{AtomicU64, Ordering};

use p3_baby_bear::BabyBear;
use p3_batch_stark::ProverData;
use p3_circuit::ops::{HintExecutor, Op, generate_recompose_trace};
use p3_circuit::{Circuit, CircuitBuilder, CircuitError, ExprId, WitnessId};
use p3_circuit_prover::batch_stark_prover::{BatchStarkProver, CircuitProverData, TablePacking, recompose_air_builders};
use p3_circuit_prover::common::{NpoPreprocessor, get_airs_and_degrees_with_prep};
use p3_circuit_prover::config::{BabyBearConfig, KoalaBearConfig};
use p3_circuit_prover::{ConstraintProfile, RecomposePreprocessor};
use p3_field::extension::BinomialExtensionField;
use p3_field::{BasedVectorSpace, Field, PrimeCharacteristicRing, PrimeField64};
use p3_koala_bear::KoalaBear;
use vpcore::rayon::prelude::*;
use vpcore::serde_json::{Value, json};
use vpcore::{Ctx, Histo, Report, finish, quiet_catch};

mod coeffx;

type BB = BabyBear;
type KB = KoalaBear;
type KB4 = BinomialExtensionField<KB, 4>;
type BB4 = BinomialExtensionField<BB, 4>;
const P_BB: u64 = 0x78000001;

/// Hint executor that writes fixed values (the prover's freedom: any hint output).
#[derive(Debug, Clone)]
struct FixedHint<F: Field>(Vec<F>);
impl<F: Field> HintExecutor<F> for FixedHint<F> {
    fn execute(&self, _inputs: &[WitnessId], outputs: &[WitnessId], witness: &mut [Option<F>]) -> Result<(), CircuitError> {
        for (o, v) in outputs.iter().zip(self.0.iter()) {
            witness[o.0 as usize] = Some(*v);
        }
        Ok(())
    }
    fn boxed(&self) -> Box<dyn HintExecutor<F>> {
        Box::new(self.clone())
    }
}

/// Replace the `k`-th hint op of the circuit by fixed outputs.
fn with_hint<F: Field>(c: &Circuit<F>, k: usize, outs: Vec<F>) -> Option<Circuit<F>> {
    let mut c2 = c.clone();
    let mut seen = 0;
    for op in c2.ops.iter_mut() {
        if let Op::Hint { outputs, executor, .. } = op {
            if seen == k {
                if outputs.len() != outs.len() {
                    return None;
                }
                *executor = Box::new(FixedHint(outs));
                return Some(c2);
            }
            seen += 1;
        }
    }
    None
}

#[derive(Debug, Clone, PartialEq)]
enum Outcome {
    RunRejected(String),
    Rejected(String),
    Accepted,
    Panic(String),
}

fn prove_bb<EF, const D: usize>(circuit: &Circuit<EF>, pubs: &[EF]) -> Outcome
where
    EF: Field + p3_field::ExtensionField<BB> + BasedVectorSpace<BB> + p3_circuit_prover::field_params::ExtractBinomialW<BB>,
{
    prove_bb_forged::<EF, D>(circuit, pubs, None)
}

fn prove_bb_forged<EF, const D: usize>(circuit: &Circuit<EF>, pubs: &[EF], forge: Option<&dyn Fn(&mut p3_circuit::Traces<EF>)>) -> Outcome
where
    EF: Field + p3_field::ExtensionField<BB> + BasedVectorSpace<BB> + p3_circuit_prover::field_params::ExtractBinomialW<BB>,
{
    let mut r = circuit.runner();
    if let Err(e) = r.set_public_inputs(pubs) {
        return Outcome::RunRejected(format!("{e:?}"));
    }
    let mut traces = match r.run() {
        Ok(t) => t,
        Err(e) => return Outcome::RunRejected(format!("{e:?}")),
    };
    if let Some(f) = forge {
        f(&mut traces);
    }
    match quiet_catch(|| {
        let cfg = vpe1::accept::fast_baby_bear();
        let packing = TablePacking::default();
        let (ad, prim, np) = get_airs_and_degrees_with_prep::<BabyBearConfig, _, D>(circuit, &packing, &[], &[], ConstraintProfile::Standard).map_err(|e| format!("prep:{e:?}"))?;
        let (airs, degs): (Vec<_>, Vec<usize>) = ad.into_iter().unzip();
        let pd = ProverData::from_airs_and_degrees(&cfg, &airs, &degs);
        let cpd = CircuitProverData::new(pd, prim, np);
        let prover = BatchStarkProver::new(cfg);
        let proof = prover.prove_all_tables(&traces, &cpd).map_err(|e| format!("prove:{e:?}"))?;
        prover.verify_all_tables::<EF>(&proof).map_err(|e| format!("verify:{e:?}"))
    }) {
        Ok(Ok(())) => Outcome::Accepted,
        Ok(Err(e)) => Outcome::Rejected(e),
        Err(p) => Outcome::Panic(p),
    }
}

/// KoalaBear D=4 with the recompose table(s) registered.
fn prove_kb_recompose(circuit: &Circuit<KB4>, pubs: &[KB4], split: bool, forge: Option<&dyn Fn(&mut p3_circuit::Traces<KB4>)>) -> Outcome {
    let mut r = circuit.runner();
    if let Err(e) = r.set_public_inputs(pubs) {
        return Outcome::RunRejected(format!("{e:?}"));
    }
    let mut traces = match r.run() {
        Ok(t) => t,
        Err(e) => return Outcome::RunRejected(format!("{e:?}")),
    };
    if let Some(f) = forge {
        f(&mut traces);
    }
    match quiet_catch(|| {
        let cfg = vpe1::accept::fast_koala_bear();
        let packing = TablePacking::default();
        let npo_prep: Vec<Box<dyn NpoPreprocessor<KB>>> = vec![Box::new(RecomposePreprocessor::new(split))];
        let air_builders = recompose_air_builders::<KoalaBearConfig, 4>(1, split);
        let (ad, prim, np) = get_airs_and_degrees_with_prep::<KoalaBearConfig, _, 4>(circuit, &packing, &npo_prep, &air_builders, ConstraintProfile::Standard).map_err(|e| format!("prep:{e:?}"))?;
        let (airs, degs): (Vec<_>, Vec<usize>) = ad.into_iter().unzip();
        let pd = ProverData::from_airs_and_degrees(&cfg, &airs, &degs);
        let cpd = CircuitProverData::new(pd, prim, np);
        let mut prover = BatchStarkProver::new(cfg);
        prover.register_recompose_table::<4>(split);
        let proof = prover.prove_all_tables(&traces, &cpd).map_err(|e| format!("prove:{e:?}"))?;
        prover.verify_all_tables::<KB4>(&proof).map_err(|e| format!("verify:{e:?}"))
    }) {
        Ok(Ok(())) => Outcome::Accepted,
        Ok(Err(e)) => Outcome::Rejected(e),
        Err(p) => Outcome::Panic(p),
    }
}

#[derive(Clone, Debug)]
enum Work {
    /// n, x, digits
    Bits(usize, u64, Vec<u64>),
    /// mode, x coefficients, alternative coefficient vectors (each an extension element)
    Coeffs(&'static str, [u64; 4], Vec<[u64; 4]>),
    /// bits over the degree-4 extension: n, x (base value), digits as extension elements
    /// (u64::MAX-k encodes -k)
    BitsExt(usize, [u64; 4], Vec<[u64; 4]>),
    /// the same value decomposed twice in one circuit (widths n1 then n2, honest hints): the
    /// claimed n2-bit digits are public
    BitsTwice(usize, usize, u64, Vec<u64>),
    /// the decomposed value is a builder CONSTANT (source 0: `define_const`, 1: sum of two
    /// constants, 2: product of a constant with the constant one): n, x coefficients, source,
    /// claimed digits (public)
    BitsConst(usize, [u64; 4], u8, Vec<u64>),
    /// explicit recomposition whose higher coefficients are builder constants (zero padding):
    /// split tables?, position of the live coefficient, its value (extension coefficients)
    RecompPad(bool, usize, [u64; 4]),
    /// coefficient decomposition over Goldilocks D=2 / KoalaBear D=5 / BabyBear D=4+recompose
    CoeffX(coeffx::CoeffX),
}

struct Case {
    site: String,
    class: &'static str,
    detail: String,
    canonical: bool,
    work: Work,
}

const K: u64 = 7; // multiplier making digits observable: y_i = digit_i * K

fn bits_circuit(n: usize) -> Circuit<BB> {
    let mut b = CircuitBuilder::<BB>::new();
    let x = b.public_input();
    let bits = b.decompose_to_bits::<BB>(x, n).unwrap();
    let k = b.define_const(BB::from_u64(K));
    let ys: Vec<ExprId> = (0..n).map(|_| b.public_input()).collect();
    for i in 0..n {
        let m = b.mul(bits[i], k);
        b.connect(m, ys[i]);
    }
    b.build().unwrap()
}

/// decompose_to_bits over BabyBear (D=1): x public, y_i = b_i * K public.
fn bits_cases(n: usize, xs: &[u64], out: &mut Vec<Case>) {
    for &xv in xs {
        if n < 64 && xv >> n != 0 {
            continue; // no n-bit decomposition at all
        }
        let canon: Vec<u64> = (0..n).map(|i| (xv >> i) & 1).collect();
        let mut alts: Vec<(&'static str, String, Vec<u64>, bool)> = vec![("canonical", "bits of x".into(), canon.clone(), true)];
        let mut kk = 1u64;
        while xv + kk * P_BB < (1u64 << n.min(63)) {
            let v = xv + kk * P_BB;
            alts.push(("bits_of_x_plus_kp", format!("k={kk}"), (0..n).map(|i| (v >> i) & 1).collect(), false));
            kk += 1;
        }
        for i in 0..n.saturating_sub(1) {
            let mut d = canon.clone();
            d[i] += 2;
            d[i + 1] = (d[i + 1] + P_BB - 1) % P_BB;
            alts.push(("non_boolean_digits", format!("digit{i}+=2,digit{}-=1", i + 1), d, false));
        }
        for (class, detail, digits, canonical) in alts {
            out.push(Case {
                site: format!("decompose_to_bits(n={n})/babybear-d1"),
                class,
                detail: format!("x={xv} {detail}"),
                canonical,
                work: Work::Bits(n, xv, digits),
            });
        }
    }
}

/// decompose_to_bits twice on the same value, widths n1 then n2 (honest hints): the second
/// decomposition has to stand on its own — for a value that does not fit n2 bits the claim "these
/// are its n2 bits" (the low bits) must be rejected whatever was decomposed before.
fn bits_twice_cases(out: &mut Vec<Case>) {
    for (n1, n2, xv) in [(31usize, 8usize, 300u64), (8, 31, 300), (31, 8, 44), (16, 3, 13), (3, 2, 5), (31, 31, 300), (8, 8, 200)] {
        // both decompositions are part of the circuit: it is satisfiable iff x fits both widths
        let fits = xv >> n2 == 0 && xv >> n1 == 0;
        let low: Vec<u64> = (0..n2).map(|i| (xv >> i) & 1).collect();
        out.push(Case {
            site: format!("decompose_to_bits twice (n={n1} then n={n2})/babybear-d1"),
            class: if fits { "canonical" } else { "low_bits_of_a_value_that_does_not_fit" },
            detail: format!("x={xv} digits=low {n2} bits"),
            canonical: fits,
            work: Work::BitsTwice(n1, n2, xv, low),
        });
    }
}

fn bits_circuit_ext(n: usize) -> Circuit<BB4> {
    let mut b = CircuitBuilder::<BB4>::new();
    let x = b.public_input();
    let bits = b.decompose_to_bits::<BB>(x, n).unwrap();
    let k = b.define_const(BB4::from_u64(K));
    let ys: Vec<ExprId> = (0..n).map(|_| b.public_input()).collect();
    for i in 0..n {
        let m = b.mul(bits[i], k);
        b.connect(m, ys[i]);
    }
    b.build().unwrap()
}

/// decompose_to_bits in a degree-4 circuit: digits with a non-base component that cancels in
/// the recomposition (digit i += 2^(j-i)·X^e, digit j -= X^e).
fn bits_ext_cases(n: usize, xs: &[u64], out: &mut Vec<Case>) {
    for &xv in xs {
        if xv >> n != 0 {
            continue;
        }
        let canon: Vec<[u64; 4]> = (0..n).map(|i| [(xv >> i) & 1, 0, 0, 0]).collect();
        let mut alts: Vec<(&'static str, String, Vec<[u64; 4]>, bool)> = vec![("canonical", "bits of x".into(), canon.clone(), true)];
        for i in 0..n {
            for j in (i + 1)..n {
                for e in [1usize, 3] {
                    if j - i > 20 {
                        continue;
                    }
                    let mut d = canon.clone();
                    d[i][e] = 1u64 << (j - i);
                    d[j][e] = u64::MAX; // -1
                    alts.push(("digits_with_extension_component", format!("digit{i}+=2^{}·X^{e},digit{j}-=X^{e}", j - i), d, false));
                }
            }
        }
        for (class, detail, digits, canonical) in alts {
            out.push(Case {
                site: format!("decompose_to_bits(n={n})/babybear-d4"),
                class,
                detail: format!("x={xv} {detail}"),
                canonical,
                work: Work::BitsExt(n, [xv, 0, 0, 0], digits),
            });
        }
    }
}

/// decompose_to_bits over several limbs (n > 31 in a degree-4 circuit: limb i collects bits
/// 31·i .. 31·(i+1) and sits on basis element X^i): non-boolean digits inside either limb, and
/// digits with an extension component.
fn bits_multilimb_cases(n: usize, x: [u64; 4], out: &mut Vec<Case>) {
    const W: usize = 31;
    let canon: Vec<[u64; 4]> = (0..n).map(|i| [(x[i / W] >> (i % W)) & 1, 0, 0, 0]).collect();
    let mut alts: Vec<(&'static str, String, Vec<[u64; 4]>, bool)> = vec![("canonical", "bits of the coefficients".into(), canon.clone(), true)];
    let mut pairs: Vec<usize> = vec![0, 1, W - 2];
    pairs.extend((W..n - 1).filter(|i| *i == W || *i == n - 2));
    for &i in &pairs {
        if i / W != (i + 1) / W {
            continue;
        }
        // digit i += 2, digit i+1 -= 1 : limb unchanged, digits not boolean
        let mut d = canon.clone();
        d[i][0] += 2;
        d[i + 1][0] = if d[i + 1][0] == 0 { u64::MAX } else { d[i + 1][0] - 1 };
        alts.push(("non_boolean_digits", format!("digit{i}+=2,digit{}-=1", i + 1), d, false));
        for e in [1usize, 3] {
            let mut d = canon.clone();
            d[i][e] = 2;
            d[i + 1][e] = u64::MAX;
            alts.push(("digits_with_extension_component", format!("digit{i}+=2·X^{e},digit{}-=X^{e}", i + 1), d, false));
        }
    }
    for (class, detail, digits, canonical) in alts {
        out.push(Case {
            site: format!("decompose_to_bits(n={n},multi-limb)/babybear-d4"),
            class,
            detail: format!("x={x:?} {detail}"),
            canonical,
            work: Work::BitsExt(n, x, digits),
        });
    }
}

fn ext_from<F: Field, EF: BasedVectorSpace<F>>(c: &[F]) -> EF {
    EF::from_basis_coefficients_slice(c).unwrap()
}

/// decompose_ext_to_base_coeffs: x public (extension), y_i = c_i * K public.
/// mode: "alu" (no recompose table), "npo" (recompose table), "npo_coeff" (recompose/coeff links)
fn coeff_cases(mode: &'static str, out: &mut Vec<Case>) {
    let xs: Vec<[u64; 4]> = vec![[1, 2, 3, 4], [0, 0, 0, 0], [5, 0, 0, 7]];
    for xv in xs {
        let canon: Vec<[u64; 4]> = xv.iter().map(|v| [*v, 0, 0, 0]).collect();
        let mut alts: Vec<(&'static str, String, Vec<[u64; 4]>, bool)> = vec![("canonical", "base coefficients".into(), canon.clone(), true)];
        for i in 0..4usize {
            for j in (i + 1)..4usize {
                // c_i += X^(j-i), c_j -= 1   (sum c_k X^k unchanged); u64::MAX encodes -1
                let mut c = canon.clone();
                c[i][j - i] += 1;
                c[j][0] = if c[j][0] == 0 { u64::MAX } else { c[j][0] - 1 };
                alts.push(("mass_moved_between_coefficients", format!("c{i}+=X^{},c{j}-=1", j - i), c, false));
            }
        }
        for (class, detail, cs, canonical) in alts {
            out.push(Case {
                site: format!("decompose_ext_to_base_coeffs/{mode}"),
                class,
                detail: format!("x={xv:?} {detail}"),
                canonical,
                work: Work::Coeffs(mode, xv, cs),
            });
        }
    }
}

/// The coefficient sites over the other field configurations (see `coeffx.rs`).
fn coeffx_cases(thorough: bool, out: &mut Vec<Case>) {
    use coeffx::FieldCfg::*;
    // Per configuration: the three modes with the coefficient as first ALU operand (the ALU port
    // takes the creator role for the hint output), and the recompose/coeff mode with the
    // coefficients consumed only as pure readers (`read_only_b`): there the recompose/coeff row is
    // the sole creator of each coefficient on the bus — the live detector of this family.
    // (Plain `npo` + `read_only_b` is not a site: no table creates the hint outputs there and
    // even the canonical proof is refused; BabyBear D=4 `alu` is the original "alu" site.)
    let mut sites: Vec<(coeffx::FieldCfg, &'static str, &'static str)> = vec![];
    for cfg in [Gl2, Kb5, Bb4] {
        if cfg != Bb4 {
            sites.push((cfg, "alu", "read_as_a"));
        }
        sites.push((cfg, "npo", "read_as_a"));
        sites.push((cfg, "npo_coeff", "read_as_a"));
        sites.push((cfg, "npo_coeff", "read_only_b"));
    }
    for (cfg, mode, consumer) in sites {
        for (w, canonical) in coeffx::plan(cfg, mode, consumer, thorough) {
            out.push(Case { site: w.site(), class: w.alt.class(), detail: format!("x={:?} {}", w.x, w.alt.detail()), canonical, work: Work::CoeffX(w) });
        }
    }
}

/// decompose_to_bits of a value the builder knows to be a constant: whatever shortcut the
/// builder takes for constants, the claim "these are its n bits" must stay rejected for a
/// constant that does not fit n bits (or has higher coefficients) and accepted for one that fits.
fn bits_const_cases(out: &mut Vec<Case>) {
    let vals: [(usize, [u64; 4]); 12] = [
        (2, [1, 0, 0, 0]),
        (2, [3, 0, 0, 0]),
        (2, [5, 0, 0, 0]),
        (3, [13, 0, 0, 0]),
        (8, [200, 0, 0, 0]),
        (8, [300, 0, 0, 0]),
        (31, [300, 0, 0, 0]),
        (30, [1 << 30, 0, 0, 0]),
        (31, [3, 7, 0, 0]),
        (8, [5, 0, 0, 1]),
        (33, [5, 2, 0, 0]),
        (33, [5, 6, 0, 0]),
    ];
    for (n, x) in vals {
        // fits: every coefficient beyond the limbs covered is zero and each covered limb fits
        let mut fits = true;
        for (l, c) in x.iter().enumerate() {
            let lo = 31 * l;
            let width = n.saturating_sub(lo).min(31);
            if width == 0 {
                fits &= *c == 0;
            } else if width < 31 {
                fits &= *c >> width == 0;
            }
        }
        let low: Vec<u64> = (0..n).map(|k| (x[k / 31] >> (k % 31)) & 1).collect();
        for src in 0..3u8 {
            out.push(Case {
                site: format!("decompose_to_bits(n={n}) of a constant (source {src})/babybear-d4"),
                class: if fits { "canonical" } else { "low_bits_of_a_constant_that_does_not_fit" },
                detail: format!("x={x:?} digits=low {n} bits"),
                canonical: fits,
                work: Work::BitsConst(n, x, src, low.clone()),
            });
        }
    }
}

/// `recompose_base_coeffs_to_ext` called with one live coefficient (a public input) and constant
/// zeros elsewhere — the shape the challenger produces when it pads a limb. The claim "the packed
/// element is c·X^pos with c taken as it is" holds only for a base-field c: for a c with higher
/// extension coefficients the recomposition must not verify, whatever shortcut the builder takes
/// for constant-padded coefficient lists.
fn recomp_pad_cases(out: &mut Vec<Case>) {
    for split in [false, true] {
        for pos in 0..4usize {
            for v in [[5u64, 0, 0, 0], [0, 0, 0, 0], [5, 1, 0, 0], [0, 0, 0, 3], [7, 2, 1, 4]] {
                let base = v[1..].iter().all(|c| *c == 0);
                out.push(Case {
                    site: format!("recompose_base_coeffs_to_ext(zero-padded, live pos {pos})/{}", if split { "npo_coeff" } else { "npo" }),
                    class: if base { "canonical" } else { "non_base_coefficient_taken_as_is" },
                    detail: format!("c={v:?}"),
                    canonical: base,
                    work: Work::RecompPad(split, pos, v),
                });
            }
        }
    }
}

fn run_case(w: &Work) -> Outcome {
    match w {
        Work::RecompPad(split, pos, v) => {
            let mut b = CircuitBuilder::<KB4>::new();
            b.enable_recompose::<KB>(generate_recompose_trace::<KB, KB4>);
            let c = b.public_input();
            let zero = b.define_const(KB4::ZERO);
            let coeffs: Vec<ExprId> = (0..4).map(|i| if i == *pos { c } else { zero }).collect();
            let r = if *split { b.recompose_base_coeffs_to_ext_with_coeff_lookups::<KB>(&coeffs) } else { b.recompose_base_coeffs_to_ext::<KB>(&coeffs) };
            let r = match r {
                Ok(r) => r,
                Err(e) => return Outcome::RunRejected(format!("builder: {e:?}")),
            };
            let e = b.public_input();
            b.connect(r, e);
            let circuit = match b.build() {
                Ok(c) => c,
                Err(e) => return Outcome::RunRejected(format!("build: {e:?}")),
            };
            let cv = ext_from::<KB, KB4>(&v.iter().map(|x| KB::from_u64(*x)).collect::<Vec<_>>());
            // X^pos as an extension element
            let mut unit = [KB::ZERO; 4];
            unit[*pos] = KB::ONE;
            let claimed = cv * ext_from::<KB, KB4>(&unit);
            prove_kb_recompose(&circuit, &[cv, claimed], *split, None)
        }
        Work::BitsConst(n, xv, src, digits) => {
            let mut b = CircuitBuilder::<BB4>::new();
            let xc = ext_from::<BB, BB4>(&xv.iter().map(|v| BB::from_u64(*v)).collect::<Vec<_>>());
            let x = match src {
                0 => b.define_const(xc),
                1 => {
                    let one = b.define_const(BB4::ONE);
                    let r = b.define_const(xc - BB4::ONE);
                    b.add(r, one)
                }
                _ => {
                    let one = b.define_const(BB4::ONE);
                    let r = b.define_const(xc);
                    b.mul(r, one)
                }
            };
            let bits = match b.decompose_to_bits::<BB>(x, *n) {
                Ok(v) => v,
                Err(e) => return Outcome::RunRejected(format!("builder: {e:?}")),
            };
            let k = b.define_const(BB4::from_u64(K));
            let ys: Vec<ExprId> = (0..*n).map(|_| b.public_input()).collect();
            for i in 0..*n {
                let m = b.mul(bits[i], k);
                b.connect(m, ys[i]);
            }
            let c = match b.build() {
                Ok(c) => c,
                Err(e) => return Outcome::RunRejected(format!("build: {e:?}")),
            };
            let pubs: Vec<BB4> = digits.iter().map(|d| BB4::from_u64(*d) * BB4::from_u64(K)).collect();
            prove_bb::<BB4, 4>(&c, &pubs)
        }
        Work::CoeffX(c) => coeffx::run(c),
        Work::BitsTwice(n1, n2, xv, digits) => {
            let mut b = CircuitBuilder::<BB>::new();
            let x = b.public_input();
            let _wide = b.decompose_to_bits::<BB>(x, *n1).unwrap();
            let narrow = b.decompose_to_bits::<BB>(x, *n2).unwrap();
            let k = b.define_const(BB::from_u64(K));
            let ys: Vec<ExprId> = (0..*n2).map(|_| b.public_input()).collect();
            for i in 0..*n2 {
                let m = b.mul(narrow[i], k);
                b.connect(m, ys[i]);
            }
            let c = b.build().unwrap();
            let mut pubs = vec![BB::from_u64(*xv)];
            pubs.extend(digits.iter().map(|d| BB::from_u64(*d) * BB::from_u64(K)));
            prove_bb::<BB, 1>(&c, &pubs)
        }
        Work::Bits(n, xv, digits) => {
            let c = bits_circuit(*n);
            let d: Vec<BB> = digits.iter().map(|v| BB::from_u64(*v)).collect();
            let mut pubs = vec![BB::from_u64(*xv)];
            pubs.extend(d.iter().map(|x| *x * BB::from_u64(K)));
            match with_hint(&c, 0, d) {
                Some(c2) => {
                    let direct = prove_bb::<BB, 1>(&c2, &pubs);
                    if !matches!(direct, Outcome::Rejected(_)) {
                        return direct;
                    }
                    // the honest runner writes the (non-boolean) digit into every cell of its
                    // BoolCheck row; a malicious prover may put a boolean into the checked cell
                    // `a` and keep the digit in the cells that go to the bus
                    let forge = |t: &mut p3_circuit::Traces<BB>| {
                        for r in 0..t.alu_trace.values.len() {
                            if t.alu_trace.op_kind[r] == p3_circuit::ops::AluOpKind::BoolCheck {
                                let a = t.alu_trace.values[r][0];
                                if a != BB::ZERO && a != BB::ONE {
                                    t.alu_trace.values[r][0] = BB::ZERO;
                                }
                            }
                        }
                    };
                    match prove_bb_forged::<BB, 1>(&c2, &pubs, Some(&forge)) {
                        Outcome::Accepted => Outcome::Accepted,
                        _ => direct,
                    }
                }
                None => Outcome::Panic("hint not found".into()),
            }
        }
        Work::BitsExt(n, xv, digits) => {
            let c = bits_circuit_ext(*n);
            let f = |v: u64| if v == u64::MAX { BB::NEG_ONE } else { BB::from_u64(v) };
            let d: Vec<BB4> = digits.iter().map(|c| ext_from::<BB, BB4>(&c.iter().map(|v| f(*v)).collect::<Vec<_>>())).collect();
            let mut pubs = vec![ext_from::<BB, BB4>(&xv.iter().map(|v| f(*v)).collect::<Vec<_>>())];
            pubs.extend(d.iter().map(|x| *x * BB4::from_u64(K)));
            match with_hint(&c, 0, d) {
                Some(c2) => {
                    let direct = prove_bb::<BB4, 4>(&c2, &pubs);
                    if !matches!(direct, Outcome::Rejected(_)) {
                        return direct;
                    }
                    // forged BoolCheck rows: the checked cells `a` (and `c`) carry the base part
                    // of the digit, the cell that goes to the bus keeps the full digit
                    let forge = |t: &mut p3_circuit::Traces<BB4>| {
                        for r in 0..t.alu_trace.values.len() {
                            if t.alu_trace.op_kind[r] == p3_circuit::ops::AluOpKind::BoolCheck {
                                let a = t.alu_trace.values[r][0];
                                let base = <BB4 as BasedVectorSpace<BB>>::as_basis_coefficients_slice(&a)[0];
                                t.alu_trace.values[r][0] = BB4::from(base);
                                t.alu_trace.values[r][2] = BB4::from(base);
                            }
                        }
                    };
                    match prove_bb_forged::<BB4, 4>(&c2, &pubs, Some(&forge)) {
                        Outcome::Accepted => Outcome::Accepted,
                        _ => direct,
                    }
                }
                None => Outcome::Panic("hint not found".into()),
            }
        }
        Work::Coeffs(mode, xv, cs) => {
            macro_rules! go {
                ($F:ty, $EF:ty, $prove:expr, $enable:expr) => {{
                    let mut b = CircuitBuilder::<$EF>::new();
                    $enable(&mut b);
                    let x = b.public_input();
                    let coeffs = b.decompose_ext_to_base_coeffs::<$F>(x).unwrap();
                    let k = b.define_const(<$EF>::from_u64(K));
                    let ys: Vec<ExprId> = (0..4).map(|_| b.public_input()).collect();
                    for i in 0..4 {
                        let m = b.mul(coeffs[i], k);
                        b.connect(m, ys[i]);
                    }
                    let circuit = b.build().unwrap();
                    let f = |v: u64| if v == u64::MAX { <$F>::NEG_ONE } else { <$F>::from_u64(v) };
                    let xe: $EF = ext_from::<$F, $EF>(&xv.iter().map(|v| f(*v)).collect::<Vec<_>>());
                    let alt: Vec<$EF> = cs.iter().map(|c| ext_from::<$F, $EF>(&c.iter().map(|v| f(*v)).collect::<Vec<_>>())).collect();
                    let mut pubs = vec![xe];
                    pubs.extend(alt.iter().map(|d| *d * <$EF>::from_u64(K)));
                    let slots: Vec<WitnessId> = coeffs.iter().map(|e| circuit.expr_to_widx[e]).collect();
                    let yslots: Vec<WitnessId> = ys.iter().map(|e| circuit.expr_to_widx[e]).collect();
                    let _ = (&slots, &yslots);
                    match with_hint(&circuit, 0, alt.clone()) {
                        Some(c2) => $prove(&c2, &pubs, &circuit, &slots, &yslots, &alt, xe),
                        None => Outcome::Panic("hint not found".into()),
                    }
                }};
            }
            match *mode {
                "alu" => go!(
                    BB,
                    BB4,
                    |c: &Circuit<BB4>, p: &[BB4], _h: &Circuit<BB4>, _s: &[WitnessId], _y: &[WitnessId], _a: &[BB4], _x: BB4| prove_bb::<BB4, 4>(c, p),
                    |_b: &mut CircuitBuilder<BB4>| {}
                ),
                m => {
                    let split = m == "npo_coeff";
                    go!(
                        KB,
                        KB4,
                        |c: &Circuit<KB4>, p: &[KB4], honest: &Circuit<KB4>, slots: &[WitnessId], yslots: &[WitnessId], alt: &[KB4], xe: KB4| {
                            // first the plain substitution (the recompose executor itself refuses
                            // non-base coefficients: an honest-runner check)
                            let direct = prove_kb_recompose(c, p, split, None);
                            if !matches!(direct, Outcome::RunRejected(_)) {
                                return direct;
                            }
                            // a malicious prover does not use the runner: take the honest traces
                            // (canonical coefficients in the recompose row) and let every OTHER row
                            // that mentions a coefficient slot carry the alternative value
                            let canon_pubs: Vec<KB4> = {
                                let base = <KB4 as BasedVectorSpace<KB>>::as_basis_coefficients_slice(&xe).to_vec();
                                let mut v = vec![xe];
                                v.extend(base.iter().map(|b| KB4::from(*b) * KB4::from_u64(K)));
                                v
                            };
                            if std::env::var("C12_DEBUG").is_ok() {
                                for op in &honest.ops {
                                    eprintln!("  op {op:?}");
                                }
                                eprintln!("  coeff slots {slots:?} y slots {yslots:?}");
                            }
                            let forge = |t: &mut p3_circuit::Traces<KB4>| {
                                if std::env::var("C12_DEBUG").is_ok() {
                                    eprintln!("  npo traces: {:?}", t.non_primitive_traces.keys().collect::<Vec<_>>());
                                    for r in 0..t.alu_trace.values.len() {
                                        eprintln!("  alu {r} {:?} {:?} {:?}", t.alu_trace.op_kind[r], t.alu_trace.indices[r], t.alu_trace.values[r]);
                                    }
                                }
                                for r in 0..t.alu_trace.values.len() {
                                    let idx = t.alu_trace.indices[r];
                                    let mut touched = false;
                                    for port in 0..3 {
                                        if let Some(i) = slots.iter().position(|s| *s == idx[port]) {
                                            t.alu_trace.values[r][port] = alt[i];
                                            touched = true;
                                        }
                                    }
                                    if touched && t.alu_trace.op_kind[r] == p3_circuit::ops::AluOpKind::Mul {
                                        let v = t.alu_trace.values[r];
                                        t.alu_trace.values[r][3] = v[0] * v[1];
                                    }
                                }
                                // public outputs y_i: claim the alternative digits
                                for (pos, w) in t.public_trace.index.clone().iter().enumerate() {
                                    if let Some(i) = yslots.iter().position(|s| s == w) {
                                        t.public_trace.values[pos] = alt[i] * KB4::from_u64(K);
                                    }
                                }
                            };
                            prove_kb_recompose(honest, &canon_pubs, split, Some(&forge))
                        },
                        |b: &mut CircuitBuilder<KB4>| {
                            b.enable_recompose::<KB>(generate_recompose_trace::<KB, KB4>);
                            if split {
                                b.set_recompose_coeff_ctl_for_decompose_links(true);
                            }
                        }
                    )
                }
            }
        }
    }
}

fn main() {
    vpcore::install_quiet_panic_hook();
    let ctx = Ctx::from_args("C12", "fault_enumeration");
    let report = Report::new();
    let histo = Histo::new();
    let mut cases: Vec<Case> = vec![];
    let ns: Vec<usize> = if ctx.quick() { vec![1, 2, 3, 8, 30, 31] } else { (1..=31).collect() };
    let big = (1u64 << 27) - 2;
    for n in ns {
        let xs: Vec<u64> = vec![0, 1, 2, 5, big, (1u64 << n.min(40)) - 1, P_BB - 1];
        let mut xs: Vec<u64> = xs.into_iter().filter(|x| *x < P_BB).collect();
        xs.sort();
        xs.dedup();
        bits_cases(n, &xs, &mut cases);
    }
    for n in if ctx.quick() { vec![2usize, 3, 8] } else { vec![1, 2, 3, 4, 8, 16, 31] } {
        bits_ext_cases(n, &[0, 1, 2, 5], &mut cases);
    }
    for (n, x) in [(33usize, [5u64, 2, 0, 0]), (62, [5, 2, 0, 0]), (62, [0, 0, 0, 0]), (64, [1, 3, 1, 0])] {
        bits_multilimb_cases(n, x, &mut cases);
    }
    bits_twice_cases(&mut cases);
    bits_const_cases(&mut cases);
    recomp_pad_cases(&mut cases);
    for mode in ["alu", "npo", "npo_coeff"] {
        coeff_cases(mode, &mut cases);
    }
    coeffx_cases(!ctx.quick() || ctx.replay.is_some(), &mut cases);
    // --replay <file>: re-execute exactly the stored case (site, class, detail)
    if let Some(path) = &ctx.replay {
        let r = vpcore::load_replay(path);
        let get = |k: &str| r.get(k).and_then(|v| v.as_str()).unwrap_or("").to_string();
        let (site, class, detail) = (get("site"), get("class"), get("detail"));
        cases.retain(|c| c.site == site && c.class == class && c.detail == detail);
        if cases.is_empty() {
            vpcore::machinery_error(&format!("replay case not in the enumeration: {site} / {class} / {detail}"));
        }
    }
    if let Some(f) = ctx.opt("site") {
        cases.retain(|c| c.site.contains(f));
    }
    let total = cases.len();
    let done = AtomicU64::new(0);
    let reached = AtomicU64::new(0);
    let samples: std::sync::Mutex<Vec<Value>> = std::sync::Mutex::new(vec![]);
    cases.par_iter().for_each(|c| {
        if ctx.used() > 0.93 {
            return;
        }
        let o = run_case(&c.work);
        done.fetch_add(1, Ordering::Relaxed);
        let tag = match &o {
            Outcome::Accepted => "accepted",
            Outcome::Rejected(_) => "rejected_by_verifier",
            Outcome::RunRejected(_) => "rejected_by_runner",
            Outcome::Panic(_) => "panic",
        };
        histo.add(&format!("{}/{}/{}", c.site.split('(').next().unwrap_or(&c.site), c.class, tag));
        if !c.canonical && !matches!(o, Outcome::RunRejected(_)) {
            reached.fetch_add(1, Ordering::Relaxed);
        }
        let n_tag = c.site.clone();
        match (&o, c.canonical) {
            (Outcome::Accepted, false) => {
                report.violation_sized(
                    format!("noncanonical_accepted:{}:{}", n_tag, c.class),
                    format!("{}: {} [{}] — proof with a non-canonical decomposition witness verifies", c.site, c.detail, c.class),
                    json!({"site": c.site, "class": c.class, "detail": c.detail}),
                    c.detail.len(),
                );
            }
            (Outcome::Accepted, true) => {}
            (other, true) => {
                // the canonical witness must go through: otherwise the harness (or the repo) is off
                report.violation(
                    format!("canonical_rejected:{}", n_tag),
                    format!("{}: {} canonical witness not accepted: {other:?}", c.site, c.detail),
                    json!({"site": c.site, "class": c.class, "detail": c.detail}),
                );
            }
            _ => {}
        }
        let mut s = samples.lock().unwrap();
        if s.len() < 8 && !c.canonical {
            s.push(json!({"site": c.site, "class": c.class, "detail": c.detail, "outcome": tag}));
        }
    });
    let d = done.load(Ordering::Relaxed) as usize;
    let cov = json!({
        "evaluations": d,
        "distinct_nontrivial": reached.load(Ordering::Relaxed),
        "rule": "a case = (site, value, alternative witness); all alternatives of the three classes are enumerated for every value of the alphabet; non-trivial = non-canonical witness that reaches prover+verifier: either the runner accepts it (the recomposition identity holds) or, where the runner refuses, as forged traces",
        "samples": *samples.lock().unwrap(),
        "cases_planned": total,
        "exhaustive": d == total,
        "outcome_histogram(site/class/outcome)": histo.to_json(),
    });
    finish(
        &ctx,
        cov,
        vec![
            "STARK/LogUp soundness assumed: 'accepted' is the real verifier's answer on a real proof".into(),
            "digits are made observable through public outputs y_i = digit_i * 7, so acceptance of a non-canonical witness is acceptance of a false public statement".into(),
        ],
        &report,
    );
}
