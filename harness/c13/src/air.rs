//! `ExprAir`: a p3 AIR whose `eval` replays a lowered spec through the public
//! `AirBuilder` / `ExtensionBuilder` / `PermutationAirBuilder` API only. The SAME generic
//! `eval` is instantiated with the symbolic builder (inside the repo's
//! `eval_folded_circuit`) and with p3's native verifier folders (oracle).

use p3_air::{Air, AirBuilder, BaseAir, ExtensionBuilder, PermutationAirBuilder, WindowAccess};
use p3_field::{BasedVectorSpace, PrimeCharacteristicRing};

use crate::spec::*;

/// Base-only AIR: usable with every `AirBuilder` (in particular p3-uni-stark's
/// `VerifierConstraintFolder`, which has no extension interface).
pub struct BaseExprAir(pub Dag);
/// AIR that may also emit extension constraints over permutation columns / challenges /
/// cumulated values: needs a `PermutationAirBuilder`.
pub struct ExtExprAir(pub Dag);

macro_rules! base_air_impl {
    ($t:ty) => {
        impl<T: PrimeCharacteristicRing + Sync> BaseAir<T> for $t {
            fn width(&self) -> usize {
                MAIN_W
            }
            fn preprocessed_width(&self) -> usize {
                PREP_W
            }
            fn num_public_values(&self) -> usize {
                PUB_W
            }
            fn num_periodic_columns(&self) -> usize {
                PER_W
            }
            fn periodic_columns(&self) -> Vec<Vec<T>> {
                // only the count matters for the constraint folder: periodic *values* at the
                // opening point are supplied directly by the harness on both sides
                vec![vec![T::ONE, T::TWO], vec![T::TWO, T::ONE, T::ZERO, T::ONE]]
            }
        }
    };
}
base_air_impl!(BaseExprAir);
base_air_impl!(ExtExprAir);

/// Base constant #i of `spec::CONSTS` in any field.
pub fn konst<R: PrimeCharacteristicRing>(i: u8) -> R {
    R::from_i32(CONSTS[i as usize])
}

fn bin<E: PrimeCharacteristicRing>(o: Op, a: E, b: E) -> E {
    match o {
        Op::Add => a + b,
        Op::Sub => a - b,
        Op::Mul => a * b,
    }
}

/// Build every base node once, in program order; references clone the node's expression.
fn eval_base_nodes<AB: AirBuilder>(dag: &Dag, builder: &AB) -> Vec<AB::Expr> {
    let main = builder.main();
    let prep = builder.preprocessed().clone();
    let mut v: Vec<AB::Expr> = Vec::with_capacity(dag.b.len());
    for n in &dag.b {
        let x: AB::Expr = match n {
            BN::Leaf(l) => match l {
                BT::ML(i) => main.current(*i as usize).unwrap().into(),
                BT::MN(i) => main.next(*i as usize).unwrap().into(),
                BT::PL(i) => prep.current(*i as usize).unwrap().into(),
                BT::PN(i) => prep.next(*i as usize).unwrap().into(),
                BT::PV(i) => builder.public_values()[*i as usize].into(),
                BT::PER(i) => builder.periodic_values()[*i as usize].into(),
                BT::IF => builder.is_first_row(),
                BT::IL => builder.is_last_row(),
                BT::IT => builder.is_transition(),
                BT::K(i) => AB::Expr::from(konst::<AB::F>(*i)),
                _ => unreachable!("non-leaf in BN::Leaf"),
            },
            BN::Neg(a) => -v[*a as usize].clone(),
            BN::Bin(o, a, b) => bin(*o, v[*a as usize].clone(), v[*b as usize].clone()),
        };
        v.push(x);
    }
    v
}

fn emit_base<AB: AirBuilder>(builder: &mut AB, f: Filt, x: AB::Expr) {
    match f {
        Filt::None => builder.assert_zero(x),
        Filt::First => builder.when_first_row().assert_zero(x),
        Filt::Trans => builder.when_transition().assert_zero(x),
        Filt::Last => builder.when_last_row().assert_zero(x),
    }
}

impl<AB: AirBuilder> Air<AB> for BaseExprAir
where
    AB::F: PrimeCharacteristicRing + Sync,
{
    fn eval(&self, builder: &mut AB) {
        let v = eval_base_nodes(&self.0, builder);
        for c in &self.0.cons {
            match c {
                DCon::B(f, n) => emit_base(builder, *f, v[*n as usize].clone()),
                DCon::E(..) => panic!("BaseExprAir cannot emit extension constraints"),
            }
        }
    }
}

fn ext_const<AB: ExtensionBuilder>(c: &[u32; 4]) -> AB::EF {
    let d = <AB::EF as BasedVectorSpace<AB::F>>::DIMENSION;
    let mut acc = AB::EF::ZERO;
    for (j, &cj) in c.iter().enumerate().take(d) {
        let basis = <AB::EF as BasedVectorSpace<AB::F>>::ith_basis_element(j).unwrap();
        acc += basis * AB::F::from_u32(cj);
    }
    acc
}

impl<AB: PermutationAirBuilder> Air<AB> for ExtExprAir {
    fn eval(&self, builder: &mut AB) {
        let dag = &self.0;
        let vb = eval_base_nodes(dag, builder);
        let perm = builder.permutation();
        let mut ve: Vec<AB::ExprEF> = Vec::with_capacity(dag.e.len());
        for n in &dag.e {
            let x: AB::ExprEF = match n {
                EN::Leaf(l) => match l {
                    ET::ZL(i) => perm.current(*i as usize).unwrap().into(),
                    ET::ZN(i) => perm.next(*i as usize).unwrap().into(),
                    ET::CH(i) => builder.permutation_randomness()[*i as usize].into(),
                    ET::CUM(i) => builder.permutation_values()[*i as usize].clone().into(),
                    ET::EK(i) => AB::ExprEF::from(ext_const::<AB>(&ECONSTS[*i as usize])),
                    _ => unreachable!("non-leaf in EN::Leaf"),
                },
                EN::Base(b) => AB::ExprEF::from(vb[*b as usize].clone()),
                EN::Neg(a) => -ve[*a as usize].clone(),
                EN::Bin(o, a, b) => bin(*o, ve[*a as usize].clone(), ve[*b as usize].clone()),
            };
            ve.push(x);
        }
        for c in &dag.cons {
            match c {
                DCon::B(f, n) => emit_base(builder, *f, vb[*n as usize].clone()),
                DCon::E(f, n) => {
                    let x = ve[*n as usize].clone();
                    match f {
                        Filt::None => builder.assert_zero_ext(x),
                        Filt::First => builder.when_first_row().assert_zero_ext(x),
                        Filt::Trans => builder.when_transition().assert_zero_ext(x),
                        Filt::Last => builder.when_last_row().assert_zero_ext(x),
                    }
                }
            }
        }
    }
}
