//! Field-independent parts of the engine.

use crate::spec::{MAIN_W, PER_W, PREP_W, PUB_W};

/// Widths of the extension-valued inputs, induced by the number of lookup contexts exactly
/// as p3-batch-stark / the repo's batch verifier do it.
#[derive(Clone, Copy, Debug)]
pub struct Layout {
    pub main_w: usize,
    pub prep_w: usize,
    pub pub_w: usize,
    pub per_w: usize,
    pub perm_w: usize,
    pub n_ch: usize,
    pub n_cum: usize,
}
impl Layout {
    /// the fixed shape of the generated spec AIRs
    pub fn of(n_lookups: usize) -> Layout {
        Layout::shaped(MAIN_W, PREP_W, PUB_W, PER_W, n_lookups)
    }
    pub fn shaped(main_w: usize, prep_w: usize, pub_w: usize, per_w: usize, n_lookups: usize) -> Layout {
        let (perm_w, n_ch, n_cum) = if n_lookups == 0 { (0, 0, 0) } else { (n_lookups + 1, 2 * n_lookups, 1) };
        Layout { main_w, prep_w, pub_w, per_w, perm_w, n_ch, n_cum }
    }
}

pub const ASSIGNMENTS: [&str; 4] = ["zero", "one", "genericA", "genericB"];

/// Outcome of one AIR on all assignments; field elements as canonical coefficient vectors.
pub struct Outcome {
    /// per assignment: (native, circuit or error text)
    pub per: Vec<(Vec<u64>, Result<Vec<u64>, String>)>,
    /// base-only AIR folded natively by BOTH p3 verifier paths (uni + batch), which agreed
    pub oracle_cross_checked: bool,
}

pub enum EvalError {
    /// building the circuit failed / panicked (message)
    Build(String),
    /// the two native p3 folders disagree: the harness itself is wrong
    Machinery(String),
}
