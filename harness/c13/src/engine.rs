//! Both evaluations of one spec: p3's native verifier folders (oracle) and the repo's
//! `RecursiveAir::eval_folded_circuit` compiled into a `p3_circuit::Circuit` and run.
//! The body is instantiated per field configuration of `p3_test_utils`.

pub use crate::common::*;
use crate::spec::Spec;

pub mod bb {
    use p3_test_utils::baby_bear_params::{Challenge, F, MyConfig};
    include!("engine_body.rs");
}
pub mod gl {
    use p3_test_utils::goldilocks_params::{Challenge, F, MyConfig};
    include!("engine_body.rs");
}
pub mod kbq {
    use p3_test_utils::koala_bear_quintic_params::{Challenge, F, MyConfig};
    include!("engine_body.rs");
}

#[derive(Clone, Copy, Debug, PartialEq, Eq, serde::Serialize, serde::Deserialize)]
pub enum FieldCfg {
    /// BabyBear, binomial extension of degree 4
    BabyBear4,
    /// Goldilocks, binomial extension of degree 2
    Goldilocks2,
    /// KoalaBear, quintic trinomial extension
    KoalaBear5,
}
impl FieldCfg {
    pub fn tag(&self) -> &'static str {
        match self {
            FieldCfg::BabyBear4 => "babybear_d4",
            FieldCfg::Goldilocks2 => "goldilocks_d2",
            FieldCfg::KoalaBear5 => "koalabear_d5",
        }
    }
}

pub fn eval_spec(f: FieldCfg, spec: &Spec, seed: u64) -> Result<Outcome, EvalError> {
    match f {
        FieldCfg::BabyBear4 => bb::eval_spec(spec, seed),
        FieldCfg::Goldilocks2 => gl::eval_spec(spec, seed),
        FieldCfg::KoalaBear5 => kbq::eval_spec(spec, seed),
    }
}
pub fn eval_hand(f: FieldCfg, spec: &crate::hand::HSpec, seed: u64) -> Result<Outcome, EvalError> {
    match f {
        FieldCfg::BabyBear4 => bb::eval_hand(spec, seed),
        FieldCfg::Goldilocks2 => gl::eval_hand(spec, seed),
        FieldCfg::KoalaBear5 => kbq::eval_hand(spec, seed),
    }
}
pub fn native_values(f: FieldCfg, spec: &Spec, seed: u64) -> Vec<Vec<u64>> {
    match f {
        FieldCfg::BabyBear4 => bb::native_values(spec, seed),
        FieldCfg::Goldilocks2 => gl::native_values(spec, seed),
        FieldCfg::KoalaBear5 => kbq::native_values(spec, seed),
    }
}
