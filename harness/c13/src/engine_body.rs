// Field-specific engine body. `include!`d once per field configuration inside a module that
// brings `F`, `Challenge` and `MyConfig` into scope (see engine.rs).

use p3_air::symbolic::{BaseEntry, SymbolicExpression, SymbolicVariable};
use p3_air::{Air, RowWindow};
use p3_circuit::symbolic::{ColumnsTargets, RowSelectorsTargets};
use p3_circuit::{Circuit, CircuitBuilder, ExprId};
use p3_field::{BasedVectorSpace, PrimeCharacteristicRing};
use p3_lookup::folder::VerifierConstraintFolderWithLookups;
use p3_lookup::logup::LogUpGadget;
use p3_lookup::symbolic::InteractionSymbolicBuilder;
use p3_lookup::{Kind, Lookup, LookupProtocol};
use p3_matrix::dense::RowMajorMatrixView;
use p3_matrix::stack::VerticalPair;
use p3_recursion::traits::{LookupMetadata, RecursiveAir};
use p3_recursion::types::RecursiveLagrangeSelectors;
use p3_uni_stark::VerifierConstraintFolder;

use crate::air::{BaseExprAir, ExtExprAir, konst};
use crate::common::*;
use crate::hand::{HSpec, HandAlg, Root, walk};
use crate::spec::*;

pub type EF = Challenge;

/// One assignment of everything the constraint folder reads.
#[derive(Clone, Debug)]
pub struct Assignment {
    pub name: &'static str,
    pub sels: [EF; 3],
    pub alpha: EF,
    pub pubs: Vec<F>,
    pub prep_l: Vec<EF>,
    pub prep_n: Vec<EF>,
    pub per: Vec<EF>,
    pub main_l: Vec<EF>,
    pub main_n: Vec<EF>,
    pub ch: Vec<EF>,
    pub perm_l: Vec<EF>,
    pub perm_n: Vec<EF>,
    pub cum: Vec<EF>,
}

fn ef(c: [u32; 4]) -> EF {
    let d = <EF as BasedVectorSpace<F>>::DIMENSION;
    let mut acc = EF::ZERO;
    for (j, cj) in c.iter().enumerate().take(d) {
        acc += <EF as BasedVectorSpace<F>>::ith_basis_element(j).unwrap() * F::from_u32(*cj);
    }
    acc
}

/// Deterministic "generic" element #k of stream `salt`: all four coefficients non-zero,
/// pairwise different across k (splitmix-style mixing, reduced below the BabyBear prime).
fn generic(salt: u64, k: u64) -> EF {
    let mut c = [0u32; 4];
    for (j, cj) in c.iter_mut().enumerate() {
        let mut z = salt
            .wrapping_mul(0x9E3779B97F4A7C15)
            .wrapping_add((4 * k + j as u64 + 1).wrapping_mul(0xBF58476D1CE4E5B9));
        z ^= z >> 30;
        z = z.wrapping_mul(0x94D049BB133111EB);
        z ^= z >> 27;
        *cj = 2 + (z % 2013265900) as u32;
    }
    ef(c)
}
fn generic_base(salt: u64, k: u64) -> F {
    <EF as BasedVectorSpace<F>>::as_basis_coefficients_slice(&generic(salt, k))[0]
}


pub fn assignment(which: usize, lay: Layout, seed: u64) -> Assignment {
    let name = ASSIGNMENTS[which];
    let fill = |v: EF, n: usize| vec![v; n];
    match which {
        0 | 1 => {
            let (v, b) = if which == 0 { (EF::ZERO, F::ZERO) } else { (EF::ONE, F::ONE) };
            Assignment {
                name,
                sels: [v; 3],
                alpha: v,
                pubs: vec![b; lay.pub_w],
                prep_l: fill(v, lay.prep_w),
                prep_n: fill(v, lay.prep_w),
                per: fill(v, lay.per_w),
                main_l: fill(v, lay.main_w),
                main_n: fill(v, lay.main_w),
                ch: fill(v, lay.n_ch),
                perm_l: fill(v, lay.perm_w),
                perm_n: fill(v, lay.perm_w),
                cum: fill(v, lay.n_cum),
            }
        }
        _ => {
            // VERIF_SEED only rotates the concrete values, never the structures explored
            let salt = (which as u64) * 1000 + seed.wrapping_mul(7919) + 1;
            let mut k = 0u64;
            let mut next = || {
                k += 1;
                generic(salt, k)
            };
            let sels = [next(), next(), next()];
            let alpha = next();
            let mut vecn = |n: usize| (0..n).map(|_| next()).collect::<Vec<_>>();
            let prep_l = vecn(lay.prep_w);
            let prep_n = vecn(lay.prep_w);
            let per = vecn(lay.per_w);
            let main_l = vecn(lay.main_w);
            let main_n = vecn(lay.main_w);
            let ch = vecn(lay.n_ch);
            let perm_l = vecn(lay.perm_w);
            let perm_n = vecn(lay.perm_w);
            let cum = vecn(lay.n_cum);
            let pubs = (0..lay.pub_w).map(|i| generic_base(salt ^ 0x55, i as u64 + 1)).collect();
            Assignment { name, sels, alpha, pubs, prep_l, prep_n, per, main_l, main_n, ch, perm_l, perm_n, cum }
        }
    }
}

impl Assignment {
    /// Flat vector in the order in which `build_circuit` allocates its public inputs.
    pub fn flat(&self) -> Vec<EF> {
        let mut v = Vec::new();
        v.extend_from_slice(&self.sels);
        v.push(self.alpha);
        v.extend(self.pubs.iter().map(|p| EF::from(*p)));
        v.extend_from_slice(&self.prep_l);
        v.extend_from_slice(&self.prep_n);
        v.extend_from_slice(&self.per);
        v.extend_from_slice(&self.main_l);
        v.extend_from_slice(&self.main_n);
        v.extend_from_slice(&self.ch);
        v.extend_from_slice(&self.perm_l);
        v.extend_from_slice(&self.perm_n);
        v.extend_from_slice(&self.cum);
        v
    }
}

// ---------------------------------------------------------------------------------------
// lookups

fn sym(t: &BT) -> SymbolicExpression<F> {
    let var = |e: BaseEntry, i: u8| SymbolicExpression::<F>::from(SymbolicVariable::<F>::new(e, i as usize));
    match t {
        BT::ML(i) => var(BaseEntry::Main { offset: 0 }, *i),
        BT::MN(i) => var(BaseEntry::Main { offset: 1 }, *i),
        BT::PL(i) => var(BaseEntry::Preprocessed { offset: 0 }, *i),
        BT::PN(i) => var(BaseEntry::Preprocessed { offset: 1 }, *i),
        BT::PV(i) => var(BaseEntry::Public, *i),
        BT::PER(i) => var(BaseEntry::Periodic, *i),
        BT::IF => SymbolicExpression::Leaf(p3_air::symbolic::BaseLeaf::IsFirstRow),
        BT::IL => SymbolicExpression::Leaf(p3_air::symbolic::BaseLeaf::IsLastRow),
        BT::IT => SymbolicExpression::Leaf(p3_air::symbolic::BaseLeaf::IsTransition),
        BT::K(i) => SymbolicExpression::from(konst::<F>(*i)),
        BT::Neg(a) => -sym(a),
        BT::Bin(Op::Add, a, b) => sym(a) + sym(b),
        BT::Bin(Op::Sub, a, b) => sym(a) - sym(b),
        BT::Bin(Op::Mul, a, b) => sym(a) * sym(b),
    }
}

pub fn make_lookups(spec: &Spec) -> Vec<Lookup<F>> {
    spec.lookups
        .iter()
        .enumerate()
        .map(|(i, l)| Lookup {
            kind: if l.global { Kind::Global(format!("bus{i}")) } else { Kind::Local },
            elements: l.tuples.iter().map(|(e, _)| e.iter().map(sym).collect()).collect(),
            multiplicities: l.tuples.iter().map(|(_, m)| sym(m)).collect(),
            count_weight: 1,
            column: i,
        })
        .collect()
}

// ---------------------------------------------------------------------------------------
// native oracle

fn uni_folder<'a>(a: &'a Assignment) -> VerifierConstraintFolder<'a, MyConfig> {
    VerifierConstraintFolder {
        main: VerticalPair::new(
            RowMajorMatrixView::new_row(&a.main_l),
            RowMajorMatrixView::new_row(&a.main_n),
        ),
        preprocessed: VerticalPair::new(
            RowMajorMatrixView::new_row(&a.prep_l),
            RowMajorMatrixView::new_row(&a.prep_n),
        ),
        preprocessed_window: RowWindow::from_two_rows(&a.prep_l, &a.prep_n),
        periodic_values: &a.per,
        public_values: &a.pubs,
        is_first_row: a.sels[0],
        is_last_row: a.sels[1],
        is_transition: a.sels[2],
        alpha: a.alpha,
        accumulator: EF::ZERO,
    }
}

/// p3-uni-stark's verifier folder (base-only AIRs).
pub fn native_uni(air: &BaseExprAir, a: &Assignment) -> EF {
    let mut folder = uni_folder(a);
    air.eval(&mut folder);
    folder.accumulator
}

/// p3-batch-stark's verifier path: folder with lookups + `eval_air_and_lookups`.
pub fn native_batch<A>(air: &A, lookups: &[Lookup<F>], a: &Assignment) -> EF
where
    A: for<'x> Air<VerifierConstraintFolderWithLookups<'x, MyConfig>>,
{
    let mut folder = VerifierConstraintFolderWithLookups {
        inner: uni_folder(a),
        permutation: VerticalPair::new(
            RowMajorMatrixView::new(&a.perm_l, a.perm_l.len()),
            RowMajorMatrixView::new(&a.perm_n, a.perm_n.len()),
        ),
        permutation_challenges: &a.ch,
        permutation_values: &a.cum,
    };
    LogUpGadget::new().eval_air_and_lookups(air, &mut folder, lookups);
    folder.inner.accumulator
}

// ---------------------------------------------------------------------------------------
// circuit side

pub struct Built {
    pub circuit: Circuit<EF>,
    pub acc: ExprId,
    pub n_inputs: usize,
}

/// Allocates one public input per value of `Assignment::flat` (same order), calls the repo's
/// `eval_folded_circuit` on them and builds the circuit.
pub fn build_circuit<A>(air: &A, lookups: &[Lookup<F>], lay: Layout) -> Result<Built, String>
where
    A: Air<InteractionSymbolicBuilder<F, EF>>,
{
    let mut cb = CircuitBuilder::<EF>::new();
    let mut n_inputs = 0usize;
    let mut alloc = |cb: &mut CircuitBuilder<EF>, n: usize| -> Vec<ExprId> {
        n_inputs += n;
        (0..n).map(|_| cb.public_input()).collect()
    };
    let sels = alloc(&mut cb, 3);
    let alpha = alloc(&mut cb, 1)[0];
    let pubs = alloc(&mut cb, lay.pub_w);
    let prep_l = alloc(&mut cb, lay.prep_w);
    let prep_n = alloc(&mut cb, lay.prep_w);
    let per = alloc(&mut cb, lay.per_w);
    let main_l = alloc(&mut cb, lay.main_w);
    let main_n = alloc(&mut cb, lay.main_w);
    let ch = alloc(&mut cb, lay.n_ch);
    let perm_l = alloc(&mut cb, lay.perm_w);
    let perm_n = alloc(&mut cb, lay.perm_w);
    let cum = alloc(&mut cb, lay.n_cum);
    let rsels = RecursiveLagrangeSelectors {
        row_selectors: RowSelectorsTargets {
            is_first_row: sels[0],
            is_last_row: sels[1],
            is_transition: sels[2],
        },
        // not read by eval_folded_circuit
        inv_vanishing: sels[0],
    };
    let columns = ColumnsTargets {
        challenges: &ch,
        public_values: &pubs,
        permutation_local_values: &perm_l,
        permutation_next_values: &perm_n,
        permutation_values: &cum,
        local_prep_values: &prep_l,
        next_prep_values: &prep_n,
        periodic_values: &per,
        local_values: &main_l,
        next_values: &main_n,
    };
    let meta = LookupMetadata { contexts: lookups };
    let gadget = LogUpGadget::new();
    let acc = <A as RecursiveAir<F, EF, LogUpGadget>>::eval_folded_circuit(
        air, &mut cb, &rsels, &alpha, &meta, columns, &gadget,
    );
    let circuit = cb.build().map_err(|e| format!("circuit build error: {e:?}"))?;
    Ok(Built { circuit, acc, n_inputs })
}

pub fn run_circuit(b: &Built, a: &Assignment) -> Result<EF, String> {
    let flat = a.flat();
    if flat.len() != b.n_inputs {
        return Err(format!("harness: {} inputs for {} targets", flat.len(), b.n_inputs));
    }
    let mut r = b.circuit.runner();
    r.set_public_inputs(&flat).map_err(|e| format!("set_public_inputs: {e:?}"))?;
    let traces = r.run().map_err(|e| format!("run: {e:?}"))?;
    let wid = b
        .circuit
        .expr_to_widx
        .get(&b.acc)
        .ok_or_else(|| "folded target has no witness slot".to_string())?;
    traces
        .witness_trace
        .get_value(*wid)
        .copied()
        .ok_or_else(|| "folded target slot unset".to_string())
}

pub fn ef_to_json(x: &EF) -> Vec<u64> {
    use p3_field::PrimeField64;
    <EF as BasedVectorSpace<F>>::as_basis_coefficients_slice(x)
        .iter()
        .map(|c| c.as_canonical_u64())
        .collect()
}

fn catch_run(b: &Built, a: &Assignment) -> Result<EF, String> {
    vpcore::quiet_catch(|| run_circuit(b, a)).unwrap_or_else(|p| Err(format!("panic: {p}")))
}

/// Any AIR usable by the batch verifier (native) and by the repo's blanket `RecursiveAir`.
pub fn eval_air<A>(air: &A, lookups: &[Lookup<F>], lay: Layout, seed: u64) -> Result<Outcome, EvalError>
where
    A: Air<InteractionSymbolicBuilder<F, EF>> + for<'x> Air<VerifierConstraintFolderWithLookups<'x, MyConfig>>,
{
    let built = vpcore::quiet_catch(|| build_circuit(air, lookups, lay))
        .map_err(|p| EvalError::Build(format!("panic: {p}")))?
        .map_err(EvalError::Build)?;
    let mut per = Vec::with_capacity(ASSIGNMENTS.len());
    for w in 0..ASSIGNMENTS.len() {
        let a = assignment(w, lay, seed);
        let nat = native_batch(air, lookups, &a);
        per.push((nat, catch_run(&built, &a)));
    }
    Ok(Outcome { per: plain(per), oracle_cross_checked: false })
}

pub fn eval_spec(spec: &Spec, seed: u64) -> Result<Outcome, EvalError> {
    let dag = lower(spec);
    let lookups = make_lookups(spec);
    let lay = Layout::of(lookups.len());
    if spec.is_ext_mode() {
        return eval_air(&ExtExprAir(dag), &lookups, lay, seed);
    }
    let air = BaseExprAir(dag);
    let built = vpcore::quiet_catch(|| build_circuit(&air, &lookups, lay))
        .map_err(|p| EvalError::Build(format!("panic: {p}")))?
        .map_err(EvalError::Build)?;
    let mut per = Vec::with_capacity(ASSIGNMENTS.len());
    for w in 0..ASSIGNMENTS.len() {
        let a = assignment(w, lay, seed);
        let nat = native_uni(&air, &a);
        // oracle self-check: the batch verifier's folder must agree on base-only AIRs
        let nat2 = native_batch(&air, &lookups, &a);
        if nat != nat2 {
            return Err(EvalError::Machinery(format!(
                "uni and batch native folders disagree on {} ({})",
                spec.canon(),
                a.name
            )));
        }
        per.push((nat, catch_run(&built, &a)));
    }
    Ok(Outcome { per: plain(per), oracle_cross_checked: true })
}

// ---------------------------------------------------------------------------------------
// hand-built Arc DAGs (hand.rs)

type SymB = SymbolicExpression<F>;
type SymE = p3_air::SymbolicExpressionExt<F, EF>;

/// Node constructors over p3's PUBLIC symbolic enum: every operand `Arc` is exactly the
/// handle the walker passes in, so a `Ref` puts the SAME allocation into the new node.
struct SymAlg;
fn deg_bin(o: Op, x: usize, y: usize) -> usize {
    if o == Op::Mul { x + y } else { x.max(y) }
}
impl HandAlg for SymAlg {
    type B = std::sync::Arc<SymB>;
    type E = std::sync::Arc<SymE>;
    fn b_leaf(&mut self, l: &BT) -> Self::B {
        std::sync::Arc::new(sym(l))
    }
    fn b_neg(&mut self, x: Self::B) -> Self::B {
        let degree_multiple = x.degree_multiple();
        std::sync::Arc::new(SymB::Neg { x, degree_multiple })
    }
    fn b_bin(&mut self, o: Op, x: Self::B, y: Self::B) -> Self::B {
        let degree_multiple = deg_bin(o, x.degree_multiple(), y.degree_multiple());
        std::sync::Arc::new(match o {
            Op::Add => SymB::Add { x, y, degree_multiple },
            Op::Sub => SymB::Sub { x, y, degree_multiple },
            Op::Mul => SymB::Mul { x, y, degree_multiple },
        })
    }
    fn e_const(&mut self, i: u8) -> Self::E {
        std::sync::Arc::new(SymE::Leaf(p3_air::ExtLeaf::ExtConstant(ef(ECONSTS[i as usize]))))
    }
    fn e_lift(&mut self, b: Self::B) -> Self::E {
        // the lifted base expression is held by value inside the extension leaf
        let b = std::sync::Arc::try_unwrap(b).unwrap_or_else(|a| (*a).clone());
        std::sync::Arc::new(SymE::Leaf(p3_air::ExtLeaf::Base(b)))
    }
    fn e_neg(&mut self, x: Self::E) -> Self::E {
        let degree_multiple = x.degree_multiple();
        std::sync::Arc::new(SymE::Neg { x, degree_multiple })
    }
    fn e_bin(&mut self, o: Op, x: Self::E, y: Self::E) -> Self::E {
        let degree_multiple = deg_bin(o, x.degree_multiple(), y.degree_multiple());
        std::sync::Arc::new(match o {
            Op::Add => SymE::Add { x, y, degree_multiple },
            Op::Sub => SymE::Sub { x, y, degree_multiple },
            Op::Mul => SymE::Mul { x, y, degree_multiple },
        })
    }
}

/// AIR whose SYMBOLIC evaluation emits the hand-built DAG and whose NATIVE evaluation is the
/// API-built AIR of the DAG's tree unfolding (the same polynomials, computed by p3's folder).
pub struct HandAir {
    spec: HSpec,
    twin: ExtExprAir,
}
impl HandAir {
    pub fn new(spec: &HSpec) -> Result<HandAir, String> {
        Ok(HandAir { spec: spec.clone(), twin: ExtExprAir(lower(&spec.unfold()?)) })
    }
}
impl<T: PrimeCharacteristicRing + Sync> p3_air::BaseAir<T> for HandAir {
    fn width(&self) -> usize {
        MAIN_W
    }
    fn preprocessed_width(&self) -> usize {
        PREP_W
    }
    fn num_public_values(&self) -> usize {
        PUB_W
    }
    fn num_periodic_columns(&self) -> usize {
        PER_W
    }
    fn periodic_columns(&self) -> Vec<Vec<T>> {
        p3_air::BaseAir::<T>::periodic_columns(&self.twin)
    }
}
impl Air<InteractionSymbolicBuilder<F, EF>> for HandAir {
    fn eval(&self, builder: &mut InteractionSymbolicBuilder<F, EF>) {
        use p3_air::{AirBuilder, ExtensionBuilder};
        let roots = walk(&self.spec, &mut SymAlg).expect("validated hand spec");
        for r in roots {
            // the root node is moved into the builder by value; its operand Arcs stay shared
            match r {
                Root::B(a) => builder.assert_zero(std::sync::Arc::try_unwrap(a).unwrap_or_else(|a| (*a).clone())),
                Root::E(a) => builder.assert_zero_ext(std::sync::Arc::try_unwrap(a).unwrap_or_else(|a| (*a).clone())),
            }
        }
    }
}
impl<'x> Air<VerifierConstraintFolderWithLookups<'x, MyConfig>> for HandAir {
    fn eval(&self, builder: &mut VerifierConstraintFolderWithLookups<'x, MyConfig>) {
        self.twin.eval(builder)
    }
}

pub fn eval_hand(spec: &HSpec, seed: u64) -> Result<Outcome, EvalError> {
    let air = HandAir::new(spec).map_err(EvalError::Machinery)?;
    eval_air(&air, &[], Layout::of(0), seed)
}

/// Native folded values of `spec` (batch path) — used to diagnose a mismatch.
pub fn native_values(spec: &Spec, seed: u64) -> Vec<Vec<u64>> {
    let dag = lower(spec);
    let lookups = make_lookups(spec);
    let lay = Layout::of(lookups.len());
    let air = ExtExprAir(dag);
    (0..ASSIGNMENTS.len()).map(|w| ef_to_json(&native_batch(&air, &lookups, &assignment(w, lay, seed)))).collect()
}

fn plain(per: Vec<(EF, Result<EF, String>)>) -> Vec<(Vec<u64>, Result<Vec<u64>, String>)> {
    per.into_iter().map(|(n, g)| (ef_to_json(&n), g.map(|x| ef_to_json(&x)))).collect()
}
