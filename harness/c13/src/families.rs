//! The finite families of AIR specs. Every family is an index range 0..count with a pure
//! decoder `spec_at(idx)`; `None` marks an index whose spec coincides with one already
//! produced at another index of the same family (e.g. the "share" twin of a tree without any
//! repeated sub-tree), so nothing is evaluated twice and nothing is skipped.

use crate::engine::FieldCfg;
use crate::hand::{AnySpec, HandEnum, Slot, UNLIMITED};
use crate::spec::*;

pub struct Family {
    pub field: FieldCfg,
    pub name: String,
    pub what: String,
    pub count: u64,
    pub spec_at: Box<dyn Fn(u64) -> Option<AnySpec> + Send + Sync>,
}

use BT::*;

/// every base leaf kind, two indices per column kind, constants 0, 1, 3, -1
fn leaves_full() -> Vec<BT> {
    vec![
        ML(0), ML(1), MN(0), MN(1), PL(0), PL(1), PN(0), PN(1), PV(0), PV(1), PER(0), PER(1),
        IF, IL, IT, K(0), K(1), K(3), K(4),
    ]
}
/// one representative per leaf kind
fn leaves_kinds() -> Vec<BT> {
    vec![ML(0), MN(1), PL(1), PN(0), PV(1), PER(0), IF, IL, IT, K(3)]
}
fn leaves_six() -> Vec<BT> {
    vec![ML(0), MN(1), PN(0), PV(1), IT, K(2)]
}
fn leaves_three() -> Vec<BT> {
    vec![ML(1), MN(0), K(3)]
}
fn leaves_two() -> Vec<BT> {
    vec![ML(0), MN(1)]
}

fn all_trees<T: Tree>(leaves: &[T], d: usize) -> Vec<T> {
    (0..count_trees(leaves.len() as u64, d)).map(|i| decode(leaves, d, i)).collect()
}

/// With `share`: `None` unless sharing really changes the program (some op node re-used).
///
/// Soundness of this de-duplication: when hash-consing finds no repeated NON-LEAF sub-tree
/// (`reuses == 0`), the lowered program has exactly the op nodes of the `fresh` lowering, in
/// the same order; the only difference is that a repeated leaf is `.clone()`d instead of
/// rebuilt. A leaf expression holds no `Arc` (p3's `SymbolicExpr::Leaf` is a plain value that
/// is moved into a new `Arc` by the operator that consumes it), so both lowerings hand the
/// repo's compiler symbolic DAGs with the identical node/pointer-sharing structure, and the
/// native folders only see values. The `fresh` twin (index - count/2) covers it.
fn finish_spec(s: Spec) -> Option<AnySpec> {
    if s.share && lower(&s).reuses == 0 {
        return None;
    }
    debug_assert!(s.valid(), "{}", s.canon());
    Some(AnySpec::Api(s))
}

// ------------------------------------------------------------------------ hand-built DAGs

fn slot(ext: bool, min_ops: usize, max_ops: usize) -> Slot {
    Slot { ext, min_ops, max_ops }
}

/// Every AIR of hand-built `Arc` DAGs (hand.rs) with the given constraint slots: every tree
/// of min..=max operator nodes {Neg, Add, Sub, Mul} per constraint x every operand position
/// either a NEW node or a reference to ANY node created earlier (earlier constraint or
/// earlier in the same constraint; inner nodes and leaves) — i.e. for every binary node the
/// patterns (fresh,fresh) / (shared,fresh) / (fresh,shared) / (shared,shared) with every
/// possible target — with at most `max_refs` references per AIR.
fn hand(name: &str, slots: Vec<Slot>, max_refs: u8, phases: u64) -> Family {
    let desc: Vec<String> = slots
        .iter()
        .map(|s| format!("{}[{}..={} ops]", if s.ext { "ext" } else { "base" }, s.min_ops, s.max_ops))
        .collect();
    let en = HandEnum::new(slots, max_refs, phases);
    Family {
        field: FieldCfg::BabyBear4,
        name: name.into(),
        what: format!(
            "HAND-BUILT Arc DAGs (SymbolicExpression::{{Add,Sub,Mul,Neg}} constructed directly, operands = Arc::clone of earlier nodes): constraints {} — every tree shape/operator word x every operand position new or a reference to any earlier-created node (inner node or leaf, earlier constraint or same constraint), {} references per AIR; fresh leaves take distinct kinds by position, {} rotation(s); native side = the tree unfolding through the AirBuilder API",
            desc.join(" ; "),
            if max_refs == UNLIMITED { "any number of".to_string() } else { format!("<= {max_refs}") },
            phases
        ),
        count: en.count(),
        spec_at: Box::new(move |idx| Some(AnySpec::Hand(en.at(idx)))),
    }
}

/// quick tier: all sharing patterns for constraints of 1-2 operators, and 1-3 operators
/// next to a 1-operator constraint (both orders); base, extension and mixed.
fn hand_quick() -> Vec<Family> {
    let (b, e) = (false, true);
    vec![
        hand("hand_dag_3x1op", vec![slot(b, 1, 1); 3], UNLIMITED, 2),
        hand("hand_dag_2x2ops", vec![slot(b, 1, 2); 2], UNLIMITED, 1),
        hand("hand_dag_1op_then_3ops", vec![slot(b, 1, 1), slot(b, 1, 3)], UNLIMITED, 1),
        hand("hand_dag_3ops_then_1op", vec![slot(b, 1, 3), slot(b, 1, 1)], UNLIMITED, 1),
        hand("hand_dag_ext_2x2ops_2refs", vec![slot(e, 1, 2); 2], 2, 1),
        hand("hand_dag_base_then_ext", vec![slot(b, 1, 2), slot(e, 1, 2)], UNLIMITED, 1),
        hand("hand_dag_ext_then_base", vec![slot(e, 1, 2), slot(b, 1, 2)], UNLIMITED, 1),
    ]
}
fn hand_small() -> Vec<Family> {
    let (b, e) = (false, true);
    vec![
        hand("hand_dag_3x1op", vec![slot(b, 1, 1); 3], UNLIMITED, 1),
        hand("hand_dag_ext_base_ext_1op", vec![slot(e, 1, 1), slot(b, 1, 1), slot(e, 1, 1)], UNLIMITED, 1),
    ]
}
fn hand_thorough() -> Vec<Family> {
    let (b, e) = (false, true);
    vec![
        hand("hand_dag_2x3ops_2refs", vec![slot(b, 1, 3); 2], 2, 1),
        hand("hand_dag_2ops_then_3ops", vec![slot(b, 1, 2), slot(b, 3, 3)], UNLIMITED, 1),
        hand("hand_dag_3ops_then_2ops", vec![slot(b, 3, 3), slot(b, 2, 2)], UNLIMITED, 1),
        hand("hand_dag_3x2ops_2refs", vec![slot(b, 1, 2); 3], 2, 1),
        hand("hand_dag_1op_2x2ops", vec![slot(b, 1, 1), slot(b, 1, 2), slot(b, 1, 2)], UNLIMITED, 1),
        hand("hand_dag_ext_2x3ops_1ref", vec![slot(e, 1, 3); 2], 1, 1),
        hand("hand_dag_ext_base_ext_1ref", vec![slot(e, 1, 2), slot(b, 1, 2), slot(e, 1, 2)], 1, 1),
        hand("hand_dag_ext_2x2ops", vec![slot(e, 1, 2); 2], UNLIMITED, 1),
        hand("hand_dag_2x2ops_all_rotations", vec![slot(b, 1, 2); 2], UNLIMITED, 10),
    ]
}

/// One constraint, every tree of depth <= d over `leaves`; × filters (optional) × {fresh, share}.
fn single(name: &str, leaves: Vec<BT>, d: usize, filters: bool, share: bool) -> Family {
    let nt = count_trees(leaves.len() as u64, d);
    let nf = if filters { 4 } else { 1 };
    let ns = if share { 2 } else { 1 };
    let what = format!(
        "1 base constraint: all {} trees of depth<={} over {} leaves [{}] x {} filter(s) x {}",
        nt,
        d,
        leaves.len(),
        leaves.iter().map(|l| l.to_string()).collect::<Vec<_>>().join(","),
        nf,
        if share { "{fresh, shared sub-trees}" } else { "fresh" }
    );
    Family {
        field: FieldCfg::BabyBear4,
        name: name.into(),
        what,
        count: nt * nf * ns,
        spec_at: Box::new(move |idx| {
            let t = decode(&leaves, d, idx % nt);
            let f = FILTS[((idx / nt) % nf) as usize];
            let sh = idx / (nt * nf) == 1;
            finish_spec(Spec { share: sh, cons: vec![Con::B(f, t)], lookups: vec![] })
        }),
    }
}

const HOLE: BT = PER(200);
fn holes(t: &BT) -> usize {
    match t {
        x if *x == HOLE => 1,
        Neg(a) => holes(a),
        Bin(_, a, b) => holes(a) + holes(b),
        _ => 0,
    }
}
fn subst(t: &BT, h: &BT) -> BT {
    match t {
        x if *x == HOLE => h.clone(),
        Neg(a) => Neg(Box::new(subst(a, h))),
        Bin(o, a, b) => Bin(*o, Box::new(subst(a, h)), Box::new(subst(b, h))),
        x => x.clone(),
    }
}

/// One shared object T used >= 2 times inside one constraint: every context of depth <= cd
/// over {HOLE, pv0} with at least two holes × every non-leaf T of depth <= td over `leaves`.
/// Evaluated with sharing on (T and every repeated sub-context is ONE object).
fn shared_contexts(name: &str, leaves: Vec<BT>, td: usize, cd: usize) -> Family {
    let ctxs: Vec<BT> = all_trees(&[HOLE, PV(0)], cd).into_iter().filter(|c| holes(c) >= 2).collect();
    let ts: Vec<BT> = all_trees(&leaves, td).into_iter().filter(|t| t.depth() >= 1).collect();
    let (nc, nt) = (ctxs.len() as u64, ts.len() as u64);
    Family {
        field: FieldCfg::BabyBear4,
        name: name.into(),
        what: format!(
            "1 base constraint C[T,..,T]: {} contexts (depth<={} over {{hole,pv0}}, >=2 holes) x {} shared non-leaf trees T of depth<={} over {} leaves; sharing on",
            nc, cd, nt, td, leaves.len()
        ),
        count: nc * nt,
        spec_at: Box::new(move |idx| {
            let c = &ctxs[(idx / nt) as usize];
            let t = &ts[(idx % nt) as usize];
            finish_spec(Spec { share: true, cons: vec![Con::B(Filt::None, subst(c, t))], lookups: vec![] })
        }),
    }
}

/// k constraints drawn (ordered, with repetition) from a pool; optional all filter
/// combinations; × {fresh, share}. Tests the alpha fold order and the cross-constraint cache.
fn multi(name: &str, pool: Vec<BT>, k: usize, filters: bool) -> Family {
    let np = pool.len() as u64;
    let nf: u64 = if filters { 4 } else { 1 };
    let per = (np * nf).pow(k as u32);
    Family {
        field: FieldCfg::BabyBear4,
        name: name.into(),
        what: format!(
            "{} base constraints: every ordered {}-tuple from a pool of {} trees x {} x {{fresh, shared across constraints}}",
            k, k, np, if filters { "every filter combination" } else { "no filter" }
        ),
        count: per * 2,
        spec_at: Box::new(move |idx| {
            let sh = idx / per == 1;
            let mut r = idx % per;
            let mut cons = vec![];
            for _ in 0..k {
                let d = r % (np * nf);
                r /= np * nf;
                cons.push(Con::B(FILTS[(d / np) as usize], pool[(d % np) as usize].clone()));
            }
            finish_spec(Spec { share: sh, cons, lookups: vec![] })
        }),
    }
}

// ------------------------------------------------------------------------------ ext mode

fn lift(b: BT) -> ET {
    ET::B(Box::new(b))
}
fn mul(a: BT, b: BT) -> BT {
    Bin(Op::Mul, Box::new(a), Box::new(b))
}

/// extension leaves available without any lookup context
fn eleaves_noperm() -> Vec<ET> {
    vec![ET::EK(0), ET::EK(1), ET::EK(2), lift(ML(0)), lift(MN(1)), lift(IT), lift(K(1)), lift(mul(ML(0), PV(1)))]
}
/// extension leaves with `n` lookup contexts (perm width n+1, 2n challenges, 1 cumulated)
fn eleaves_perm(n: u8) -> Vec<ET> {
    let mut v = vec![];
    for i in 0..=n {
        v.push(ET::ZL(i));
        v.push(ET::ZN(i));
    }
    for i in 0..2 * n {
        v.push(ET::CH(i));
    }
    v.push(ET::CUM(0));
    v.push(ET::EK(0));
    v.push(lift(ML(0)));
    v
}

/// One extension constraint, every tree of depth<=d over `leaves`, × filters × {fresh, share},
/// with `lookups` as the AIR's contexts.
fn single_ext(name: &str, leaves: Vec<ET>, d: usize, filters: bool, lookups: Vec<LookupSpec>) -> Family {
    let nt = count_trees(leaves.len() as u64, d);
    let nf = if filters { 4 } else { 1 };
    Family {
        field: FieldCfg::BabyBear4,
        name: name.into(),
        what: format!(
            "1 extension constraint (assert_zero_ext): all {} trees of depth<={} over {} ext leaves [{}] x {} filter(s) x {{fresh, share}}, {} lookup context(s)",
            nt, d, leaves.len(),
            leaves.iter().map(|l| l.to_string()).collect::<Vec<_>>().join(","),
            nf, lookups.len()
        ),
        count: nt * nf * 2,
        spec_at: Box::new(move |idx| {
            let t = decode(&leaves, d, idx % nt);
            let f = FILTS[((idx / nt) % nf) as usize];
            let sh = idx / (nt * nf) == 1;
            finish_spec(Spec { share: sh, cons: vec![Con::E(f, t)], lookups: lookups.clone() })
        }),
    }
}

/// Emission-order patterns: every word of length k over {base, ext} constraint kinds, trees
/// from two pools. The native folders fold in emission order.
fn interleave(name: &str, bpool: Vec<BT>, epool: Vec<ET>, k: usize, lookups: Vec<LookupSpec>) -> Family {
    let nb = bpool.len() as u64;
    let ne = epool.len() as u64;
    assert_eq!(nb, ne);
    let per = nb.pow(k as u32);
    let npat = 1u64 << k;
    Family {
        field: FieldCfg::BabyBear4,
        name: name.into(),
        what: format!(
            "{} constraints in every base/ext emission pattern ({} words) x every {}-tuple from pools of {} base / {} ext trees, {} lookup context(s)",
            k, npat, k, nb, ne, lookups.len()
        ),
        count: npat * per,
        spec_at: Box::new(move |idx| {
            let pat = idx / per;
            let mut r = idx % per;
            let mut cons = vec![];
            for i in 0..k {
                let d = (r % nb) as usize;
                r /= nb;
                if (pat >> i) & 1 == 1 {
                    cons.push(Con::E(Filt::None, epool[d].clone()));
                } else {
                    cons.push(Con::B(Filt::None, bpool[d].clone()));
                }
            }
            finish_spec(Spec { share: false, cons, lookups: lookups.clone() })
        }),
    }
}

fn lk(global: bool, tuples: Vec<(Vec<BT>, BT)>) -> LookupSpec {
    LookupSpec { global, tuples }
}

/// Lookup contexts: every single lookup from element/multiplicity pools (1 tuple of width 1 or
/// 2, 2 tuples of width 1; local and global), and every ordered pair of a smaller pool; each
/// with three AIR bodies (no own constraint is impossible — p3 needs >= 0 — so: one base
/// constraint; base + ext constraint over permutation leaves; ext before base).
fn lookup_family(name: &str, rich: bool) -> Family {
    let pe: Vec<BT> = vec![ML(0), MN(1), mul(PL(0), ML(1)), PV(0), Bin(Op::Add, Box::new(ML(0)), Box::new(K(1)))];
    let pm: Vec<BT> = vec![K(1), ML(1), Neg(Box::new(PL(1))), IT];
    let mut singles: Vec<LookupSpec> = vec![];
    for g in [false, true] {
        for e in &pe {
            for m in &pm {
                singles.push(lk(g, vec![(vec![e.clone()], m.clone())]));
            }
        }
        for e1 in &pe {
            for e2 in &pe {
                for m in &pm {
                    singles.push(lk(g, vec![(vec![e1.clone(), e2.clone()], m.clone())]));
                }
            }
        }
        let one: Vec<(Vec<BT>, BT)> =
            pe.iter().flat_map(|e| pm.iter().map(move |m| (vec![e.clone()], m.clone()))).collect();
        for a in &one {
            for b in &one {
                if rich || (a.1 != b.1) {
                    singles.push(lk(g, vec![a.clone(), b.clone()]));
                }
            }
        }
    }
    let small: Vec<LookupSpec> = singles.iter().filter(|l| l.tuples.len() == 1 && l.tuples[0].0.len() == 1).cloned().collect();
    let mut configs: Vec<Vec<LookupSpec>> = singles.iter().map(|l| vec![l.clone()]).collect();
    let step = if rich { 1 } else { 3 };
    for (i, a) in small.iter().enumerate() {
        for (j, b) in small.iter().enumerate() {
            if (i + j) % step == 0 {
                configs.push(vec![a.clone(), b.clone()]);
            }
        }
    }
    let nconf = configs.len() as u64;
    let nbody = 3u64;
    Family {
        field: FieldCfg::BabyBear4,
        name: name.into(),
        what: format!(
            "{} lookup configurations (single local/global lookups with 1-2 tuples of width 1-2 from 5 element x 4 multiplicity trees; ordered pairs of width-1 lookups) x 3 AIR bodies (base; base then ext over permutation leaves; ext then base)",
            nconf
        ),
        count: nconf * nbody,
        spec_at: Box::new(move |idx| {
            let lookups = configs[(idx % nconf) as usize].clone();
            let base = Con::B(Filt::Trans, Bin(Op::Sub, Box::new(MN(0)), Box::new(ML(1))));
            let n = lookups.len() as u8;
            let ext = Con::E(
                Filt::None,
                ET::Bin(
                    Op::Sub,
                    Box::new(ET::Bin(Op::Mul, Box::new(ET::ZN(n)), Box::new(ET::CH(2 * n - 1)))),
                    Box::new(ET::Bin(Op::Add, Box::new(ET::ZL(0)), Box::new(ET::CUM(0)))),
                ),
            );
            let cons = match idx / nconf {
                0 => vec![base],
                1 => vec![base, ext],
                _ => vec![ext, base],
            };
            finish_spec(Spec { share: false, cons, lookups })
        }),
    }
}

fn from_vec(name: &str, what: String, specs: Vec<Spec>) -> Family {
    Family {
        field: FieldCfg::BabyBear4,
        name: name.into(),
        what,
        count: specs.len() as u64,
        spec_at: Box::new(move |idx| finish_spec(specs[idx as usize].clone())),
    }
}

/// Depth beyond the tree enumeration: left- and right-nested operator chains of length n over
/// cycling leaf kinds (iterative work-stack walk, value-stack order), and "doubling" chains
/// x_{i+1} = x_i op_i x_i built from ONE object per level (DAG of k nodes denoting a tree of
/// 2^k leaves: cache hits at every level).
fn chains(name: &str, lens: &[usize], max_double: usize) -> Family {
    let lv = leaves_kinds();
    let mut specs = vec![];
    for &n in lens {
        for right in [false, true] {
            for phase in 0..3usize {
                let mut t = lv[phase % lv.len()].clone();
                for k in 0..n {
                    let leaf = lv[(k + phase + 1) % lv.len()].clone();
                    let op = OPS[(k + phase) % 3];
                    // every 5th step negates the accumulated chain
                    if k % 5 == 4 {
                        t = Neg(Box::new(t));
                    }
                    t = if right { Bin(op, Box::new(leaf), Box::new(t)) } else { Bin(op, Box::new(t), Box::new(leaf)) };
                }
                specs.push(Spec { share: false, cons: vec![Con::B(Filt::None, t)], lookups: vec![] });
            }
        }
    }
    let n_chain = specs.len();
    for k in 2..=max_double {
        // all operator words for small k, three cyclic words beyond
        let words: Vec<Vec<Op>> = if k <= 5 {
            (0..3u32.pow(k as u32)).map(|w| (0..k).map(|i| OPS[((w / 3u32.pow(i as u32)) % 3) as usize]).collect()).collect()
        } else {
            (0..3).map(|ph| (0..k).map(|i| OPS[(i + ph) % 3]).collect()).collect()
        };
        for w in words {
            let mut t = Bin(Op::Add, Box::new(ML(0)), Box::new(MN(1)));
            for (i, op) in w.iter().enumerate() {
                // mix in a fresh leaf so that x-x does not zero the whole chain
                let l = lv[i % lv.len()].clone();
                t = Bin(*op, Box::new(Bin(Op::Add, Box::new(t.clone()), Box::new(l))), Box::new(t));
            }
            specs.push(Spec { share: true, cons: vec![Con::B(Filt::None, t)], lookups: vec![] });
        }
    }
    let what = format!(
        "{} nested operator chains (lengths {:?} x left/right x 3 operator phases, a negation every 5 steps) + {} doubling chains x_(i+1) = (x_i + leaf) op_i x_i with every level ONE shared object (levels 2..={})",
        n_chain, lens, specs.len() - n_chain, max_double
    );
    from_vec(name, what, specs)
}

fn one_lookup() -> Vec<LookupSpec> {
    vec![lk(false, vec![(vec![ML(0)], K(1)), (vec![PL(0)], Neg(Box::new(ML(1))))])]
}
fn two_lookups() -> Vec<LookupSpec> {
    vec![one_lookup()[0].clone(), lk(true, vec![(vec![MN(1), PV(0)], IT)])]
}
fn bpool2() -> Vec<BT> {
    all_trees(&leaves_two(), 1) // 16 trees
}
fn epool2() -> Vec<ET> {
    all_trees(&[ET::EK(0), lift(ML(0))], 1) // 16 trees
}

/// Cheap cross-section of every mechanism (used for the secondary fields in the quick tier).
fn small_list() -> Vec<Family> {
    vec![
        single("base_d1_all_leaves_filters", leaves_full(), 1, true, false),
        single("base_d3_one_leaf", vec![ML(0)], 3, false, true),
        shared_contexts("shared_d2_object_twice", leaves_three(), 2, 1),
        multi("two_constraints_filters", bpool2(), 2, true),
        multi("three_constraints", bpool2(), 3, false),
        single_ext("ext_d1_noperm_filters", eleaves_noperm(), 1, true, vec![]),
        single_ext("ext_d1_perm_1lookup_filters", eleaves_perm(1), 1, true, one_lookup()),
        single_ext("ext_d1_perm_2lookups", eleaves_perm(2), 1, false, two_lookups()),
        interleave("emission_order_2_lookup", bpool2(), epool2(), 2, one_lookup()),
        lookup_family("lookup_contexts", false),
    ]
    .into_iter()
    .chain(hand_small())
    .collect()
}

/// The quick tier of the primary field.
fn quick_list() -> Vec<Family> {
    let chain_lens: Vec<usize> = (1..=24).chain([32, 64, 128, 256]).collect();
    vec![
        // --- base expressions, one constraint
        single("base_d1_all_leaves_filters", leaves_full(), 1, true, false),
        single("base_d2_all_kinds", leaves_kinds(), 2, false, true),
        single("base_d3_one_leaf", vec![ML(0)], 3, false, true),
        shared_contexts("shared_object_contexts_three", leaves_three(), 1, 2),
        shared_contexts("shared_d2_object_twice", leaves_three(), 2, 1),
        shared_contexts("shared_object_contexts_six", leaves_six(), 1, 2),
        shared_contexts("shared_d2_object_contexts", leaves_two(), 2, 2),
        chains("deep_chains", &chain_lens, 10),
        // --- several constraints: alpha fold order, cross-constraint cache
        multi("two_constraints_six", all_trees(&leaves_six(), 1), 2, false),
        multi("two_constraints_all_kinds", all_trees(&leaves_kinds(), 1), 2, false),
        multi("two_constraints_filters", bpool2(), 2, true),
        multi("three_constraints", bpool2(), 3, false),
        multi("three_constraints_filters_one_leaf", all_trees(&[ML(0)], 1), 3, true),
        multi("three_constraints_filters_two_leaves", bpool2(), 3, true),
        // --- extension expressions / constraints
        single_ext("ext_d1_noperm_filters", eleaves_noperm(), 1, true, vec![]),
        single_ext(
            "ext_d2_noperm_five",
            vec![ET::EK(0), ET::EK(1), lift(ML(0)), lift(MN(1)), lift(mul(ML(0), PV(1)))],
            2,
            false,
            vec![],
        ),
        single_ext("ext_d1_perm_1lookup_filters", eleaves_perm(1), 1, true, one_lookup()),
        single_ext("ext_d1_perm_2lookups", eleaves_perm(2), 1, false, two_lookups()),
        single_ext(
            "ext_d2_perm_1lookup",
            vec![ET::ZL(0), ET::ZN(1), ET::CH(1), ET::CUM(0), lift(ML(0))],
            2,
            false,
            one_lookup(),
        ),
        // --- emission order of base / extension constraints
        interleave("emission_order_2", bpool2(), epool2(), 2, vec![]),
        interleave("emission_order_2_lookup", bpool2(), epool2(), 2, one_lookup()),
        interleave("emission_order_3", bpool2(), epool2(), 3, vec![]),
        // --- lookup contexts (LogUp constraints generated by p3 from the contexts)
        lookup_family("lookup_contexts", true),
    ]
    .into_iter()
    // --- hand-built Arc DAGs: sharing patterns the operator API cannot produce
    .chain(hand_quick())
    .collect()
}

fn thorough_extra() -> Vec<Family> {
    let long: Vec<usize> = vec![384, 512, 1024, 2048];
    let mut v = hand_thorough();
    v.extend(vec![
        chains("deep_chains_long", &long, 14),
        single("base_d3_two_leaves", leaves_two(), 3, false, true),
        single("base_d2_all_leaves", leaves_full(), 2, false, true),
        multi("two_constraints_all_leaves", all_trees(&leaves_full(), 1), 2, false),
        single_ext("ext_d2_noperm_all", eleaves_noperm(), 2, false, vec![]),
        single_ext("ext_d2_perm_2lookups", eleaves_perm(2), 2, false, two_lookups()),
    ]);
    v
}

fn in_field(mut v: Vec<Family>, f: FieldCfg) -> Vec<Family> {
    for fam in v.iter_mut() {
        fam.field = f;
        fam.name = format!("{}@{}", fam.name, f.tag());
    }
    v
}

/// Order = priority under a time budget: primary field first, the largest family last.
pub fn families(quick: bool) -> Vec<Family> {
    let mut v = quick_list();
    if quick {
        v.extend(in_field(small_list(), FieldCfg::Goldilocks2));
        v.extend(in_field(small_list(), FieldCfg::KoalaBear5));
    } else {
        v.extend(in_field(quick_list(), FieldCfg::Goldilocks2));
        v.extend(in_field(quick_list(), FieldCfg::KoalaBear5));
        v.extend(thorough_extra());
        v.push(single("base_d3_three_leaves", leaves_three(), 3, false, true));
    }
    v
}
