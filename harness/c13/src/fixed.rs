//! Fixed extra programs: the circuit-table AIRs of the repo (the AIRs proved and recursively
//! verified by `recursion/tests/test_lookups.rs`: Const / Public / ALU / Recompose tables),
//! with their real bus interactions turned into lookup contexts exactly as
//! p3-batch-stark and `circuit-prover` do (`Lookups::from_air` + `pack_same_bus`).

use p3_air::symbolic::AirLayout;
use p3_air::{Air, BaseAir};
use p3_batch_stark::symbolic::get_log_num_quotient_chunks;
use p3_circuit_prover::air::{AluAir, ConstAir, PublicAir, RecomposeAir};
use p3_field::PrimeCharacteristicRing;
use p3_lookup::folder::VerifierConstraintFolderWithLookups;
use p3_lookup::logup::LogUpGadget;
use p3_lookup::symbolic::InteractionSymbolicBuilder;
use p3_lookup::{Lookup, Lookups};
use p3_test_utils::baby_bear_params::{F, MyConfig};

use crate::engine::bb::{EF, eval_air};
use crate::engine::{EvalError, Layout, Outcome};

fn lookups_of<A>(air: &A) -> Vec<Lookup<F>>
where
    A: Air<InteractionSymbolicBuilder<F, EF>>,
{
    let gadget = LogUpGadget::new();
    let unpacked = Lookups::<F>::from_air::<EF, A>(air);
    let log_chunks =
        get_log_num_quotient_chunks::<F, EF, A, LogUpGadget>(air, AirLayout::from_air(air), &unpacked, 0, &gadget);
    let budget = (1usize << log_chunks) + 1;
    unpacked.pack_same_bus(&gadget, budget).to_vec()
}

fn run<A>(air: A, seed: u64) -> (usize, Result<Outcome, EvalError>)
where
    A: Air<InteractionSymbolicBuilder<F, EF>> + for<'x> Air<VerifierConstraintFolderWithLookups<'x, MyConfig>>,
{
    let lookups = lookups_of(&air);
    let lay = Layout::shaped(
        BaseAir::<F>::width(&air),
        BaseAir::<F>::preprocessed_width(&air),
        BaseAir::<F>::num_public_values(&air),
        BaseAir::<F>::num_periodic_columns(&air),
        lookups.len(),
    );
    (lookups.len(), eval_air(&air, &lookups, lay, seed))
}

pub struct Fixed {
    pub name: String,
    pub eval: Box<dyn Fn(u64) -> (usize, Result<Outcome, EvalError>) + Send + Sync>,
}

pub fn fixed_programs() -> Vec<Fixed> {
    let mut v: Vec<Fixed> = vec![];
    let mut add = |name: String, f: Box<dyn Fn(u64) -> (usize, Result<Outcome, EvalError>) + Send + Sync>| {
        v.push(Fixed { name, eval: f })
    };
    add("ConstAir<D=1>(height 4)".into(), Box::new(|s| run(ConstAir::<F, 1>::new(4), s)));
    add("ConstAir<D=4>(height 4)".into(), Box::new(|s| run(ConstAir::<F, 4>::new(4), s)));
    for lanes in 1..=4usize {
        add(format!("PublicAir<D=1>(8 ops, {lanes} lanes)"), Box::new(move |s| run(PublicAir::<F, 1>::new(8, lanes), s)));
        add(format!("AluAir<D=1>(8 ops, {lanes} lanes)"), Box::new(move |s| run(AluAir::<F, 1>::new(8, lanes), s)));
    }
    for lanes in 1..=2usize {
        add(format!("PublicAir<D=4>(8 ops, {lanes} lanes)"), Box::new(move |s| run(PublicAir::<F, 4>::new(8, lanes), s)));
        add(
            format!("AluAir<D=4 binomial w=11>(8 ops, {lanes} lanes)"),
            Box::new(move |s| run(AluAir::<F, 4>::new_binomial(8, lanes, F::from_u32(11)), s)),
        );
        for coeff in [false, true] {
            add(
                format!("RecomposeAir<D=4>({lanes} lanes, coeff_lookups={coeff})"),
                Box::new(move |s| run(RecomposeAir::<F, 4>::new_with_preprocessed(lanes, vec![], 1, coeff), s)),
            );
        }
    }
    v
}
