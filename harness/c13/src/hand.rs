//! HAND-BUILT constraint DAGs with explicit `Arc` sharing.
//!
//! The operator overloads of p3's symbolic expressions (`a - b`, `.clone()`) can only produce
//! DAGs in which a re-used object shares BOTH its children and in which every operand of a
//! new node is wrapped in a fresh `Arc`. An AIR written against the symbolic builder type can
//! however construct `SymbolicExpression::{Add,Sub,Mul,Neg}{x,y,..}` directly and put ANY
//! already existing `Arc` (inner node or leaf) into either operand slot. This module is the
//! spec language of such AIRs, its exhaustive enumeration and its shrinker.
//!
//! Canonical form = "tree with back references": every constraint is written as a tree in
//! which an operand position is either a NEW node (leaf or operator; one `Arc::new`) or
//! `Ref(k)` = `Arc::clone` of the k-th node created so far. Creation order is left-to-right
//! post-order over the constraints in emission order — the order in which the repo's compiler
//! visits them — so `Ref` reaches every node of an earlier constraint and every node that is
//! completed earlier in the same constraint. Base and extension nodes are different Rust
//! types and are numbered separately. Constraint roots (and the base expression held BY VALUE
//! inside a lifted extension leaf) are moved into the builder, not kept behind an `Arc`, so
//! they are not referenceable; "the same root again" is the operator node with both operands
//! shared, which is in the language.
//!
//! Completeness of the form: unfolding any finite rooted DAG by a left-to-right depth-first
//! walk, writing a node's structure at its first visit and a back reference at every later
//! one, yields exactly one such tree-with-refs; conversely every well-formed tree-with-refs
//! denotes one DAG. Enumerating the trees therefore enumerates every sharing pattern once.

use std::collections::HashMap;
use std::sync::Arc;

use serde::{Deserialize, Serialize};

use crate::spec::*;

#[derive(Clone, Debug, PartialEq, Eq, Hash, Serialize, Deserialize)]
pub enum HT {
    /// enumerator-internal placeholder of a fresh leaf (never part of a finished spec)
    Hole,
    /// fresh base leaf (only inside a base tree / directly under `Lift`)
    Leaf(BT),
    /// fresh extension constant leaf `ECONSTS[i]` (extension tree only)
    EK(u8),
    /// `Arc::clone` of the k-th registered node of this tree's kind (base or extension)
    Ref(u16),
    Neg(Box<HT>),
    Bin(Op, Box<HT>, Box<HT>),
    /// extension tree only: leaf `ExtLeaf::Base(e)` where the base expression `e` (a leaf or an
    /// operator node over base operands) is held by value
    Lift(Box<HT>),
}

#[derive(Clone, Debug, PartialEq, Eq, Hash, Serialize, Deserialize)]
pub struct HCon {
    /// false: `assert_zero(base tree)`, true: `assert_zero_ext(extension tree)`
    pub ext: bool,
    pub t: HT,
}

#[derive(Clone, Debug, PartialEq, Eq, Hash, Serialize, Deserialize)]
pub struct HSpec {
    pub cons: Vec<HCon>,
}

/// Semantics of the node constructors; the walker below fixes creation order and sharing.
pub trait HandAlg {
    type B: Clone;
    type E: Clone;
    fn b_leaf(&mut self, l: &BT) -> Self::B;
    fn b_neg(&mut self, x: Self::B) -> Self::B;
    fn b_bin(&mut self, o: Op, x: Self::B, y: Self::B) -> Self::B;
    fn e_const(&mut self, i: u8) -> Self::E;
    /// `b` is an unregistered (unshared) base node: it may be taken by value
    fn e_lift(&mut self, b: Self::B) -> Self::E;
    fn e_neg(&mut self, x: Self::E) -> Self::E;
    fn e_bin(&mut self, o: Op, x: Self::E, y: Self::E) -> Self::E;
}

pub enum Root<B, E> {
    B(B),
    E(E),
}

struct Walker<'a, A: HandAlg> {
    alg: &'a mut A,
    rb: Vec<A::B>,
    re: Vec<A::E>,
}
impl<A: HandAlg> Walker<'_, A> {
    fn b(&mut self, t: &HT, register: bool) -> Result<A::B, String> {
        let v = match t {
            HT::Leaf(l) if l.depth() == 0 => self.alg.b_leaf(l),
            HT::Ref(k) => {
                return if register {
                    self.rb.get(*k as usize).cloned().ok_or_else(|| format!("base ref {k} out of range"))
                } else {
                    Err("an unregistered position (root / lifted expression) cannot be a reference".into())
                };
            }
            HT::Neg(x) => {
                let x = self.b(x, true)?;
                self.alg.b_neg(x)
            }
            HT::Bin(o, x, y) => {
                let x = self.b(x, true)?;
                let y = self.b(y, true)?;
                self.alg.b_bin(*o, x, y)
            }
            other => return Err(format!("{other:?} in a base tree")),
        };
        if register {
            self.rb.push(v.clone());
        }
        Ok(v)
    }
    fn e(&mut self, t: &HT, register: bool) -> Result<A::E, String> {
        let v = match t {
            HT::EK(i) if (*i as usize) < ECONSTS.len() => self.alg.e_const(*i),
            HT::Lift(inner) => {
                let b = self.b(inner, false)?;
                self.alg.e_lift(b)
            }
            HT::Ref(k) => {
                return if register {
                    self.re.get(*k as usize).cloned().ok_or_else(|| format!("ext ref {k} out of range"))
                } else {
                    Err("a constraint root cannot be a reference".into())
                };
            }
            HT::Neg(x) => {
                let x = self.e(x, true)?;
                self.alg.e_neg(x)
            }
            HT::Bin(o, x, y) => {
                let x = self.e(x, true)?;
                let y = self.e(y, true)?;
                self.alg.e_bin(*o, x, y)
            }
            other => return Err(format!("{other:?} in an extension tree")),
        };
        if register {
            self.re.push(v.clone());
        }
        Ok(v)
    }
}

/// Build every constraint of `spec` with `alg`; every `Ref` receives a clone of the handle
/// of the node it names (for the symbolic algebra: the same `Arc`).
pub fn walk<A: HandAlg>(spec: &HSpec, alg: &mut A) -> Result<Vec<Root<A::B, A::E>>, String> {
    let mut w = Walker { alg, rb: vec![], re: vec![] };
    let mut out = vec![];
    for c in &spec.cons {
        out.push(if c.ext { Root::E(w.e(&c.t, false)?) } else { Root::B(w.b(&c.t, false)?) });
    }
    Ok(out)
}

/// Tree unfolding: the polynomials the DAG denotes (every reference replaced by a copy).
struct Unfold;
impl HandAlg for Unfold {
    type B = BT;
    type E = ET;
    fn b_leaf(&mut self, l: &BT) -> BT {
        l.clone()
    }
    fn b_neg(&mut self, x: BT) -> BT {
        BT::neg(x)
    }
    fn b_bin(&mut self, o: Op, x: BT, y: BT) -> BT {
        BT::bin(o, x, y)
    }
    fn e_const(&mut self, i: u8) -> ET {
        ET::EK(i)
    }
    fn e_lift(&mut self, b: BT) -> ET {
        ET::B(Box::new(b))
    }
    fn e_neg(&mut self, x: ET) -> ET {
        ET::neg(x)
    }
    fn e_bin(&mut self, o: Op, x: ET, y: ET) -> ET {
        ET::bin(o, x, y)
    }
}

fn op_sym(o: Op) -> char {
    match o {
        Op::Add => '+',
        Op::Sub => '-',
        Op::Mul => '*',
    }
}

impl HSpec {
    /// The API-built twin: same polynomials, no sharing, built through the operator overloads
    /// (this is what the native folders evaluate).
    pub fn unfold(&self) -> Result<Spec, String> {
        let roots = walk(self, &mut Unfold)?;
        let cons = roots
            .into_iter()
            .map(|r| match r {
                Root::B(t) => Con::B(Filt::None, t),
                Root::E(t) => Con::E(Filt::None, t),
            })
            .collect();
        Ok(Spec { share: false, cons, lookups: vec![] })
    }
    pub fn valid(&self) -> bool {
        !self.cons.is_empty() && self.unfold().is_ok_and(|s| s.valid())
    }
    pub fn is_ext_mode(&self) -> bool {
        self.cons.iter().any(|c| c.ext)
    }
    pub fn n_refs(&self) -> usize {
        fn n(t: &HT) -> usize {
            match t {
                HT::Ref(_) => 1,
                HT::Neg(a) | HT::Lift(a) => n(a),
                HT::Bin(_, a, b) => n(a) + n(b),
                _ => 0,
            }
        }
        self.cons.iter().map(|c| n(&c.t)).sum()
    }

    /// Canonical one-line form. A node that is referenced later is written `{bK ...}` /
    /// `{eK ...}` (K = its creation index among base / extension nodes), a reference `@bK` /
    /// `@eK`; `[..]` is a lifted base expression. The trailing `sharing[..]` lists, for every
    /// binary node with a referenced operand, which operand slots hold a shared `Arc`.
    pub fn canon(&self) -> String {
        // pass 1: which creation indices are referenced
        fn refs(t: &HT, ext: bool, rb: &mut Vec<u16>, re: &mut Vec<u16>) {
            match t {
                HT::Ref(k) => {
                    if ext {
                        re.push(*k)
                    } else {
                        rb.push(*k)
                    }
                }
                HT::Neg(a) => refs(a, ext, rb, re),
                HT::Bin(_, a, b) => {
                    refs(a, ext, rb, re);
                    refs(b, ext, rb, re);
                }
                HT::Lift(a) => refs(a, false, rb, re),
                _ => {}
            }
        }
        let (mut rb, mut re) = (vec![], vec![]);
        for c in &self.cons {
            refs(&c.t, c.ext, &mut rb, &mut re);
        }
        struct P<'a> {
            rb: &'a [u16],
            re: &'a [u16],
            nb: u16,
            ne: u16,
            pat: Vec<String>,
            ci: usize,
        }
        impl P<'_> {
            fn go(&mut self, t: &HT, ext: bool, register: bool) -> String {
                let body = match t {
                    HT::Hole => "?".to_string(),
                    HT::Leaf(l) => l.to_string(),
                    HT::EK(i) => format!("ek{i}"),
                    HT::Ref(k) => return format!("@{}{k}", if ext { 'e' } else { 'b' }),
                    HT::Neg(a) => format!("-({})", self.go(a, ext, true)),
                    HT::Bin(o, a, b) => {
                        let (sa, sb) = (matches!(**a, HT::Ref(_)), matches!(**b, HT::Ref(_)));
                        if sa || sb {
                            let w = |s: bool| if s { "shared" } else { "fresh" };
                            self.pat.push(format!("c{}:{}({},{})", self.ci, op_sym(*o), w(sa), w(sb)));
                        }
                        let x = self.go(a, ext, true);
                        let y = self.go(b, ext, true);
                        format!("({x}{}{y})", op_sym(*o))
                    }
                    HT::Lift(a) => format!("[{}]", self.go(a, false, false)),
                };
                if !register {
                    return body;
                }
                let (cnt, set, tag) = if ext { (&mut self.ne, self.re, 'e') } else { (&mut self.nb, self.rb, 'b') };
                let k = *cnt;
                *cnt += 1;
                if set.contains(&k) { format!("{{{tag}{k} {body}}}") } else { body }
            }
        }
        let mut p = P { rb: &rb, re: &re, nb: 0, ne: 0, pat: vec![], ci: 0 };
        let mut parts = vec![];
        for (i, c) in self.cons.iter().enumerate() {
            p.ci = i;
            let s = p.go(&c.t, c.ext, false);
            parts.push(format!("{}{}", if c.ext { "E " } else { "" }, s));
        }
        format!("hand{{{}}} sharing[{}]", parts.join("; "), p.pat.join(" "))
    }
}

// ---------------------------------------------------------------------------------------
// exhaustive enumeration by index

/// Leaf kinds handed to fresh leaf positions, by creation position (+ phase). Every fresh
/// leaf of one AIR is a different input cell, so swapped / misrouted operands change the
/// folded value on the generic assignments. (Leaf KINDS x positions are covered by the
/// API-built families; this family enumerates structure x sharing.)
pub fn hand_bleaves() -> Vec<BT> {
    use BT::*;
    vec![ML(0), MN(1), PL(1), PN(0), PV(1), PER(0), IF, IL, IT, K(3)]
}
/// Fresh extension leaves: lifted base leaves (disjoint from `hand_bleaves`) and extension
/// constants (a proper extension element and one that lies in the base field).
pub fn hand_eleaves() -> Vec<HT> {
    use BT::*;
    let l = |b: BT| HT::Lift(Box::new(HT::Leaf(b)));
    vec![l(ML(1)), HT::EK(0), l(MN(0)), l(PV(0)), HT::EK(1), l(PL(0)), l(PN(1)), l(PER(1)), l(K(2))]
}

#[derive(Clone)]
struct Item {
    t: HT,
    /// base / extension nodes this tree registers, references it spends
    cb: u8,
    ce: u8,
    u: u8,
}

/// "no bound on the number of references" (the budget is then not tracked, so that equal
/// states share their tables)
pub const UNLIMITED: u8 = 255;
fn spend(r: u8, u: u8) -> u8 {
    if r == UNLIMITED { r } else { r - u }
}

type Key = (usize, u8, u8, u8);
/// Memoised generator of all operand / root trees with exactly `m` operator nodes, given
/// `ab` / `ae` already registered base / extension nodes and a budget of `r` references.
#[derive(Default)]
struct Gen {
    ob: HashMap<Key, Arc<Vec<Item>>>,
    rb: HashMap<Key, Arc<Vec<Item>>>,
    oe: HashMap<Key, Arc<Vec<Item>>>,
    re: HashMap<Key, Arc<Vec<Item>>>,
}
impl Gen {
    /// operand position of a base node: registers itself
    fn operand_b(&mut self, m: usize, ab: u8, r: u8) -> Arc<Vec<Item>> {
        let key = (m, ab, 0, r);
        if let Some(v) = self.ob.get(&key) {
            return v.clone();
        }
        let mut out = vec![];
        if m == 0 {
            out.push(Item { t: HT::Hole, cb: 1, ce: 0, u: 0 });
            if r >= 1 {
                for k in 0..ab {
                    out.push(Item { t: HT::Ref(k as u16), cb: 0, ce: 0, u: 1 });
                }
            }
        } else {
            for mut it in self.root_b(m, ab, r).iter().cloned() {
                it.cb += 1;
                out.push(it);
            }
        }
        let v = Arc::new(out);
        self.ob.insert(key, v.clone());
        v
    }
    /// operator node with m >= 1 operators in total, NOT counting its own registration
    fn root_b(&mut self, m: usize, ab: u8, r: u8) -> Arc<Vec<Item>> {
        let key = (m, ab, 0, r);
        if let Some(v) = self.rb.get(&key) {
            return v.clone();
        }
        assert!(m >= 1);
        let mut out = vec![];
        for x in self.operand_b(m - 1, ab, r).iter() {
            out.push(Item { t: HT::Neg(Box::new(x.t.clone())), ..x.clone() });
        }
        for i in 0..m {
            for x in self.operand_b(i, ab, r).iter() {
                for y in self.operand_b(m - 1 - i, ab + x.cb, spend(r, x.u)).iter() {
                    for o in OPS {
                        out.push(Item {
                            t: HT::Bin(o, Box::new(x.t.clone()), Box::new(y.t.clone())),
                            cb: x.cb + y.cb,
                            ce: 0,
                            u: x.u + y.u,
                        });
                    }
                }
            }
        }
        let v = Arc::new(out);
        self.rb.insert(key, v.clone());
        v
    }
    fn operand_e(&mut self, m: usize, ab: u8, ae: u8, r: u8) -> Arc<Vec<Item>> {
        let key = (m, ab, ae, r);
        if let Some(v) = self.oe.get(&key) {
            return v.clone();
        }
        let mut out = vec![];
        if m == 0 {
            out.push(Item { t: HT::Hole, cb: 0, ce: 1, u: 0 });
            if r >= 1 {
                for k in 0..ae {
                    out.push(Item { t: HT::Ref(k as u16), cb: 0, ce: 0, u: 1 });
                }
            }
        } else {
            for mut it in self.root_e(m, ab, ae, r).iter().cloned() {
                it.ce += 1;
                out.push(it);
            }
        }
        let v = Arc::new(out);
        self.oe.insert(key, v.clone());
        v
    }
    fn root_e(&mut self, m: usize, ab: u8, ae: u8, r: u8) -> Arc<Vec<Item>> {
        let key = (m, ab, ae, r);
        if let Some(v) = self.re.get(&key) {
            return v.clone();
        }
        assert!(m >= 1);
        let mut out = vec![];
        for x in self.operand_e(m - 1, ab, ae, r).iter() {
            out.push(Item { t: HT::Neg(Box::new(x.t.clone())), ..x.clone() });
        }
        for i in 0..m {
            for x in self.operand_e(i, ab, ae, r).iter() {
                for y in self.operand_e(m - 1 - i, ab + x.cb, ae + x.ce, spend(r, x.u)).iter() {
                    for o in OPS {
                        out.push(Item {
                            t: HT::Bin(o, Box::new(x.t.clone()), Box::new(y.t.clone())),
                            cb: x.cb + y.cb,
                            ce: x.ce + y.ce,
                            u: x.u + y.u,
                        });
                    }
                }
            }
        }
        // a lifted base operator node (held by value) over base operands
        for x in self.root_b(m, ab, r).iter() {
            out.push(Item { t: HT::Lift(Box::new(x.t.clone())), cb: x.cb, ce: 0, u: x.u });
        }
        let v = Arc::new(out);
        self.re.insert(key, v.clone());
        v
    }
}

/// One constraint slot of an enumerated AIR shape.
#[derive(Clone, Copy, Debug)]
pub struct Slot {
    pub ext: bool,
    pub min_ops: usize,
    pub max_ops: usize,
}

struct Table {
    items: Vec<Item>,
    /// prefix[j] = number of completions of items[..j]; len = items.len() + 1
    prefix: Vec<u64>,
}

/// All AIRs with the given constraint slots, every sharing pattern with at most `max_refs`
/// references, leaves assigned by position for `phases` rotations. Index space
/// `0..count()`, decoded by nested prefix sums (pure function of the index).
pub struct HandEnum {
    slots: Vec<Slot>,
    tables: HashMap<Key, Table>,
    start: Key,
    per_phase: u64,
    phases: u64,
}
impl HandEnum {
    pub fn new(slots: Vec<Slot>, max_refs: u8, phases: u64) -> HandEnum {
        let mut g = Gen::default();
        let mut tables = HashMap::new();
        let start = (0usize, 0u8, 0u8, max_refs);
        fn build(slots: &[Slot], g: &mut Gen, tables: &mut HashMap<Key, Table>, key: Key) -> u64 {
            let (ci, ab, ae, r) = key;
            if ci == slots.len() {
                return 1;
            }
            if let Some(t) = tables.get(&key) {
                return *t.prefix.last().unwrap();
            }
            let s = slots[ci];
            let mut items: Vec<Item> = vec![];
            for m in s.min_ops..=s.max_ops {
                let l = if s.ext { g.root_e(m, ab, ae, r) } else { g.root_b(m, ab, r) };
                items.extend(l.iter().cloned());
            }
            let mut prefix = Vec::with_capacity(items.len() + 1);
            let mut acc = 0u64;
            prefix.push(0);
            for it in &items {
                acc += build(slots, g, tables, (ci + 1, ab + it.cb, ae + it.ce, spend(r, it.u)));
                prefix.push(acc);
            }
            tables.insert(key, Table { items, prefix });
            acc
        }
        let per_phase = build(&slots, &mut g, &mut tables, start);
        HandEnum { slots, tables, start, per_phase, phases }
    }
    pub fn count(&self) -> u64 {
        self.per_phase * self.phases
    }
    pub fn at(&self, idx: u64) -> HSpec {
        let phase = (idx / self.per_phase) as usize;
        let mut rest = idx % self.per_phase;
        let mut key = self.start;
        let mut cons = vec![];
        let (bl, el) = (hand_bleaves(), hand_eleaves());
        let (mut nb, mut ne) = (phase, phase);
        for s in &self.slots {
            let t = &self.tables[&key];
            // last j with prefix[j] <= rest
            let j = t.prefix.partition_point(|p| *p <= rest) - 1;
            rest -= t.prefix[j];
            let it = &t.items[j];
            cons.push(HCon { ext: s.ext, t: fill(&it.t, s.ext, &bl, &el, &mut nb, &mut ne) });
            key = (key.0 + 1, key.1 + it.cb, key.2 + it.ce, spend(key.3, it.u));
        }
        HSpec { cons }
    }
}

/// Replace the holes, in creation order, by the leaf kinds of their position.
fn fill(t: &HT, ext: bool, bl: &[BT], el: &[HT], nb: &mut usize, ne: &mut usize) -> HT {
    match t {
        HT::Hole => {
            if ext {
                *ne += 1;
                el[(*ne - 1) % el.len()].clone()
            } else {
                *nb += 1;
                HT::Leaf(bl[(*nb - 1) % bl.len()].clone())
            }
        }
        HT::Neg(a) => HT::Neg(Box::new(fill(a, ext, bl, el, nb, ne))),
        HT::Bin(o, a, b) => {
            let x = fill(a, ext, bl, el, nb, ne);
            let y = fill(b, ext, bl, el, nb, ne);
            HT::Bin(*o, Box::new(x), Box::new(y))
        }
        HT::Lift(a) => HT::Lift(Box::new(fill(a, false, bl, el, nb, ne))),
        x => x.clone(),
    }
}

// ---------------------------------------------------------------------------------------
// shrinking (on the DAG itself, then back to the canonical tree-with-refs)

#[derive(Clone, Debug)]
enum GN {
    BLeaf(BT),
    EConst(u8),
    Neg(usize),
    Bin(Op, usize, usize),
    Lift(usize),
}
#[derive(Clone, Debug)]
struct Graph {
    nodes: Vec<GN>,
    /// (is extension constraint, root node)
    roots: Vec<(bool, usize)>,
}
struct ToGraph(Vec<GN>);
impl ToGraph {
    fn add(&mut self, n: GN) -> usize {
        self.0.push(n);
        self.0.len() - 1
    }
}
impl HandAlg for ToGraph {
    type B = usize;
    type E = usize;
    fn b_leaf(&mut self, l: &BT) -> usize {
        self.add(GN::BLeaf(l.clone()))
    }
    fn b_neg(&mut self, x: usize) -> usize {
        self.add(GN::Neg(x))
    }
    fn b_bin(&mut self, o: Op, x: usize, y: usize) -> usize {
        self.add(GN::Bin(o, x, y))
    }
    fn e_const(&mut self, i: u8) -> usize {
        self.add(GN::EConst(i))
    }
    fn e_lift(&mut self, b: usize) -> usize {
        self.add(GN::Lift(b))
    }
    fn e_neg(&mut self, x: usize) -> usize {
        self.add(GN::Neg(x))
    }
    fn e_bin(&mut self, o: Op, x: usize, y: usize) -> usize {
        self.add(GN::Bin(o, x, y))
    }
}
impl Graph {
    fn of(h: &HSpec) -> Option<Graph> {
        let mut g = ToGraph(vec![]);
        let roots = walk(h, &mut g).ok()?;
        let roots = roots
            .into_iter()
            .map(|r| match r {
                Root::B(i) => (false, i),
                Root::E(i) => (true, i),
            })
            .collect();
        Some(Graph { nodes: g.0, roots })
    }
    /// Canonical tree-with-refs of the DAG (left-to-right depth-first unfolding).
    fn to_spec(&self) -> HSpec {
        struct S<'a> {
            g: &'a Graph,
            idx: HashMap<usize, u16>,
            nb: u16,
            ne: u16,
        }
        impl S<'_> {
            fn go(&mut self, id: usize, ext: bool, register: bool) -> HT {
                if register && let Some(k) = self.idx.get(&id) {
                    return HT::Ref(*k);
                }
                let t = match &self.g.nodes[id] {
                    GN::BLeaf(l) => HT::Leaf(l.clone()),
                    GN::EConst(i) => HT::EK(*i),
                    GN::Neg(a) => HT::Neg(Box::new(self.go(*a, ext, true))),
                    GN::Bin(o, a, b) => {
                        let x = self.go(*a, ext, true);
                        let y = self.go(*b, ext, true);
                        HT::Bin(*o, Box::new(x), Box::new(y))
                    }
                    GN::Lift(a) => HT::Lift(Box::new(self.go(*a, false, false))),
                };
                if register {
                    let c = if ext { &mut self.ne } else { &mut self.nb };
                    self.idx.insert(id, *c);
                    *c += 1;
                }
                t
            }
        }
        let mut s = S { g: self, idx: HashMap::new(), nb: 0, ne: 0 };
        let cons = self.roots.iter().map(|(ext, r)| HCon { ext: *ext, t: s.go(*r, *ext, false) }).collect();
        HSpec { cons }
    }
    fn operands(&self, id: usize) -> Vec<usize> {
        match &self.nodes[id] {
            GN::Neg(a) => vec![*a],
            GN::Bin(_, a, b) => vec![*a, *b],
            _ => vec![],
        }
    }
    fn set_operand(&mut self, id: usize, slot: usize, to: usize) {
        match &mut self.nodes[id] {
            GN::Neg(a) => *a = to,
            GN::Bin(_, a, b) => {
                if slot == 0 {
                    *a = to
                } else {
                    *b = to
                }
            }
            _ => unreachable!(),
        }
    }
    /// is node `id` a base node? (roots: by constraint kind; everything else by structure)
    fn kinds(&self) -> Vec<Option<bool>> {
        // Some(true) = extension node, Some(false) = base node, None = unreachable
        let mut k: Vec<Option<bool>> = vec![None; self.nodes.len()];
        fn mark(g: &Graph, k: &mut Vec<Option<bool>>, id: usize, ext: bool) {
            if k[id].is_some() {
                return;
            }
            k[id] = Some(ext);
            match &g.nodes[id] {
                GN::Lift(a) => mark(g, k, *a, false),
                _ => {
                    for o in g.operands(id) {
                        mark(g, k, o, ext);
                    }
                }
            }
        }
        for (ext, r) in &self.roots {
            mark(self, &mut k, *r, *ext);
        }
        k
    }
}

/// leaf kinds in shrinking preference order
fn leaf_order() -> Vec<BT> {
    hand_bleaves().into_iter().chain([BT::ML(1), BT::MN(0), BT::PV(0), BT::PL(0), BT::PN(1), BT::PER(1), BT::K(2)]).collect()
}

/// Structure dominates (x100); among equal structures prefer Add < Sub < Mul and the leaf
/// kinds in `leaf_order`, so that instances of one mechanism shrink to ONE canonical text.
fn weight(h: &HSpec) -> usize {
    fn w(t: &HT, lo: &[BT]) -> usize {
        match t {
            HT::Hole => 200,
            HT::Leaf(l) => 200 + lo.iter().position(|x| x == l).unwrap_or(lo.len()),
            HT::EK(i) => 200 + *i as usize,
            HT::Ref(_) => 400,
            HT::Neg(a) => 500 + w(a, lo),
            HT::Bin(o, a, b) => 500 + OPS.iter().position(|x| x == o).unwrap() + w(a, lo) + w(b, lo),
            HT::Lift(a) => 100 + w(a, lo),
        }
    }
    let lo = leaf_order();
    h.cons.iter().map(|c| 100 + w(&c.t, &lo)).sum()
}

/// Strictly lighter well-formed variants of `h` (fewer constraints / nodes / references).
/// Termination of the greedy shrink: `weight` strictly decreases.
pub fn shrink_hand(h: &HSpec) -> Vec<HSpec> {
    let Some(g) = Graph::of(h) else { return vec![] };
    let w0 = weight(h);
    let kinds = g.kinds();
    let mut indeg = vec![0usize; g.nodes.len()];
    for id in 0..g.nodes.len() {
        if kinds[id].is_some() {
            for o in g.operands(id) {
                indeg[o] += 1;
            }
        }
    }
    // the first leaf kind not used yet (keeps the values of distinct leaves distinct)
    let used: Vec<&BT> = g.nodes.iter().filter_map(|n| if let GN::BLeaf(l) = n { Some(l) } else { None }).collect();
    let fresh_b = leaf_order().into_iter().find(|l| !used.contains(&l)).unwrap_or(BT::ML(0));
    let mut out: Vec<Graph> = vec![];
    if g.roots.len() > 1 {
        for i in 0..g.roots.len() {
            let mut c = g.clone();
            c.roots.remove(i);
            out.push(c);
        }
    }
    // a root becomes (a by-value copy of) one of its operator operands
    for (i, (ext, r)) in g.roots.iter().enumerate() {
        for o in g.operands(*r) {
            if matches!(g.nodes[o], GN::Neg(_) | GN::Bin(..)) || (*ext && matches!(g.nodes[o], GN::Lift(_))) {
                let mut c = g.clone();
                c.nodes.push(g.nodes[o].clone());
                c.roots[i].1 = c.nodes.len() - 1;
                out.push(c);
            }
        }
    }
    for id in 0..g.nodes.len() {
        let Some(ext) = kinds[id] else { continue };
        // local normalisations of one node: binary -> negation of one operand, simpler
        // operator, earlier unused leaf kind, first extension constant
        let mut local: Vec<GN> = vec![];
        match &g.nodes[id] {
            GN::Bin(o, a, b) => {
                local.push(GN::Neg(*a));
                local.push(GN::Neg(*b));
                for o2 in OPS {
                    if o2 != *o {
                        local.push(GN::Bin(o2, *a, *b));
                    }
                }
            }
            GN::BLeaf(l) if *l != fresh_b => local.push(GN::BLeaf(fresh_b.clone())),
            GN::EConst(i) if *i > 0 => local.push(GN::EConst(0)),
            _ => {}
        }
        for n in local {
            let mut c = g.clone();
            c.nodes[id] = n;
            out.push(c);
        }
        // lifted operator expression -> lifted leaf
        if let GN::Lift(a) = &g.nodes[id]
            && !matches!(g.nodes[*a], GN::BLeaf(_))
        {
            let mut c = g.clone();
            c.nodes.push(GN::BLeaf(fresh_b.clone()));
            c.nodes[id] = GN::Lift(c.nodes.len() - 1);
            out.push(c);
        }
        for (slot, t) in g.operands(id).into_iter().enumerate() {
            let t_is_leaf = matches!(g.nodes[t], GN::BLeaf(_) | GN::EConst(_))
                || matches!(&g.nodes[t], GN::Lift(a) if matches!(g.nodes[*a], GN::BLeaf(_)));
            if !t_is_leaf || indeg[t] >= 2 {
                // operand := a new, unshared leaf
                let mut c = g.clone();
                let leaf = c.nodes.len();
                c.nodes.push(GN::BLeaf(fresh_b.clone()));
                let to = if ext {
                    c.nodes.push(GN::Lift(leaf));
                    leaf + 1
                } else {
                    leaf
                };
                c.set_operand(id, slot, to);
                out.push(c);
            }
            if matches!(g.nodes[t], GN::Neg(_) | GN::Bin(..)) {
                for child in g.operands(t) {
                    let mut c = g.clone();
                    c.set_operand(id, slot, child);
                    out.push(c);
                }
            }
        }
    }
    let mut res: Vec<HSpec> = vec![];
    for c in out {
        let s = c.to_spec();
        if s.valid() && weight(&s) < w0 && !res.contains(&s) {
            res.push(s);
        }
    }
    // lightest first: the greedy shrink takes the first candidate that still fails
    res.sort_by_key(weight);
    res
}

// ---------------------------------------------------------------------------------------

/// A program of either spec language (what a family enumerates and a replay file stores).
#[derive(Clone, Debug, PartialEq)]
pub enum AnySpec {
    /// built through the AirBuilder operator API (spec.rs / air.rs)
    Api(Spec),
    /// hand-built `Arc` DAG (this module)
    Hand(HSpec),
}
impl AnySpec {
    pub fn canon(&self) -> String {
        match self {
            AnySpec::Api(s) => s.canon(),
            AnySpec::Hand(h) => h.canon(),
        }
    }
    pub fn valid(&self) -> bool {
        match self {
            AnySpec::Api(s) => s.valid(),
            AnySpec::Hand(h) => h.valid(),
        }
    }
    /// built with shared expression objects
    pub fn shares(&self) -> bool {
        match self {
            AnySpec::Api(s) => s.share,
            AnySpec::Hand(h) => h.n_refs() > 0,
        }
    }
    pub fn is_ext_mode(&self) -> bool {
        match self {
            AnySpec::Api(s) => s.is_ext_mode(),
            AnySpec::Hand(h) => h.is_ext_mode(),
        }
    }
}
