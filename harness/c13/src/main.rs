//! C13 — translated AIR constraints evaluate like the native constraint folder.
//!
//! Exhaustive enumeration of small AIRs ("specs": constraint trees over every leaf kind of
//! the AirBuilder vocabulary, sharing on/off, 1–3 constraints, row filters, extension
//! constraints over permutation columns / challenges / cumulated values, lookup contexts,
//! deep chains) plus the repo's own circuit-table AIRs as fixed programs; each evaluated on
//! four assignments (all-zero, all-one, two generic) by
//!   (oracle)  p3's native verifier folders (`p3_uni_stark::VerifierConstraintFolder`,
//!             `p3_lookup::folder::VerifierConstraintFolderWithLookups` + LogUp gadget), and
//!   (subject) the repo's `RecursiveAir::eval_folded_circuit` → `CircuitBuilder::build` →
//!             runner, reading the folded target's witness slot.
//! Oracle: equality of the two folded values. No sampling: every family is a finite index
//! range that is enumerated completely (or the cap is reported).
//!
//! A violating spec is minimised (greedy shrink that keeps clause and diagnosis) and keyed by
//! its canonical text — or by its *diagnosed class* when the mismatch is proven to be an
//! instance of a known mechanism (see `diagnose`).
//!
//! A second spec language (hand.rs) covers constraint DAGs that the operator API cannot
//! produce: `SymbolicExpression::{Add,Sub,Mul,Neg}` nodes constructed directly with
//! `Arc::clone`d operands (one operand shared with an earlier constraint / an earlier part of
//! the same constraint, the other one new, in either slot), enumerated exhaustively over all
//! tree shapes x operator words x reference targets within the stated bounds. Its native side
//! is the API-built AIR of the DAG's tree unfolding.
//!
//! Files: spec.rs (trees, enumeration by index, lowering to a shared-object program),
//! air.rs (`ExprAir`: generic `Air<AB>` replaying a program through the AirBuilder API),
//! engine_body.rs (native + circuit evaluation, instantiated per field in engine.rs),
//! families.rs (the finite families), fixed.rs (repo AIRs).

mod air;
mod common;
mod engine;
mod families;
mod fixed;
mod hand;
mod spec;

use std::collections::HashSet;
use std::sync::Mutex;
use std::sync::atomic::{AtomicBool, AtomicU64, Ordering};

use vpcore::rayon::prelude::*;
use vpcore::serde_json::{Value, json};
use vpcore::{Ctx, Histo, Report, finish};

use engine::{ASSIGNMENTS, EvalError, FieldCfg, Outcome, eval_spec};
use families::Family;
use hand::AnySpec;
use spec::*;

fn fnv(s: &str) -> u64 {
    let mut h: u64 = 0xcbf29ce484222325;
    for b in s.bytes() {
        h ^= b as u64;
        h = h.wrapping_mul(0x100000001b3);
    }
    h
}

/// What went wrong for one spec (None = both sides agree on every assignment).
#[derive(Clone, Debug)]
struct Bad {
    clause: &'static str, // "value" | "run" | "build"
    /// diagnosed cause, if the mismatch is fully explained by it (see `diagnose`)
    class: Option<&'static str>,
    detail: String,
}

struct Judged {
    bad: Option<Bad>,
    nontrivial: bool,
    /// native folded value on genericA (for the distinct-outcome count)
    sig: u64,
    sample: Option<Value>,
}

fn is_zero(x: &[u64]) -> bool {
    x.iter().all(|c| *c == 0)
}

fn clip(s: String) -> String {
    if s.len() > 400 { format!("{}…(+{} chars)", &s[..400], s.len() - 400) } else { s }
}

fn judge_outcome(res: Result<Outcome, EvalError>, label: &dyn Fn() -> String, want_sample: bool) -> (Judged, Vec<Option<Vec<u64>>>) {
    match res {
        Err(EvalError::Machinery(m)) => vpcore::machinery_error(&m),
        Err(EvalError::Build(m)) => (
            Judged { bad: Some(Bad { clause: "build", class: None, detail: m }), nontrivial: false, sig: 0, sample: None },
            vec![],
        ),
        Ok(out) => {
            let mut bad = None;
            let mut nontrivial = false;
            for (i, (nat, got)) in out.per.iter().enumerate() {
                if !is_zero(nat) {
                    nontrivial = true;
                }
                if bad.is_some() {
                    continue;
                }
                match got {
                    Ok(g) if g == nat => {}
                    Ok(g) => {
                        bad = Some(Bad {
                            clause: "value",
                            class: None,
                            detail: format!(
                                "assignment {}: native folder {:?} but circuit target {:?}",
                                ASSIGNMENTS[i], nat, g
                            ),
                        })
                    }
                    Err(e) => {
                        bad = Some(Bad {
                            clause: "run",
                            class: None,
                            detail: format!("assignment {}: circuit did not produce a value: {e}", ASSIGNMENTS[i]),
                        })
                    }
                }
            }
            let sig = fnv(&format!("{:?}", out.per[2].0));
            let sample = want_sample.then(|| {
                json!({
                    "spec": clip(label()),
                    "assignment": ASSIGNMENTS[2],
                    "native_folded": out.per[2].0,
                    "circuit_folded": out.per[2].1.as_ref().ok(),
                    "uni_and_batch_native_agree": out.oracle_cross_checked,
                })
            });
            let got = out.per.iter().map(|(_, g)| g.as_ref().ok().cloned()).collect();
            (Judged { bad, nontrivial, sig, sample }, got)
        }
    }
}

pub const CLASS_EMISSION_ORDER: &str = "ext-constraint-emitted-before-base-constraint";

/// A value mismatch of an AIR that emits an extension constraint BEFORE a base constraint is
/// attributed to the emission-order defect iff the circuit's values equal, on every
/// assignment, p3's native fold of the very same constraints emitted base-first (stable
/// partition). Anything not explained exactly that way keeps its own key.
fn diagnose(f: FieldCfg, spec: &Spec, got: &[Option<Vec<u64>>], seed: u64) -> Option<&'static str> {
    let first_base_after_ext = spec
        .cons
        .iter()
        .position(|c| matches!(c, Con::E(..)))
        .is_some_and(|p| spec.cons[p..].iter().any(|c| matches!(c, Con::B(..))));
    if !first_base_after_ext {
        return None;
    }
    let mut re = spec.clone();
    re.cons.sort_by_key(|c| matches!(c, Con::E(..))); // stable: base first, order kept otherwise
    let want = engine::native_values(f, &re, seed);
    (got.len() == want.len() && got.iter().zip(&want).all(|(g, w)| g.as_ref() == Some(w))).then_some(CLASS_EMISSION_ORDER)
}

fn judge(f: FieldCfg, spec: &AnySpec, seed: u64, want_sample: bool) -> Judged {
    match spec {
        AnySpec::Api(spec) => {
            let (mut j, got) = judge_outcome(eval_spec(f, spec, seed), &|| spec.canon(), want_sample);
            if let Some(b) = &mut j.bad
                && b.clause == "value"
            {
                b.class = diagnose(f, spec, &got, seed);
            }
            j
        }
        // hand-built DAGs emit no filters / lookups and keep emission order = fold order on the
        // native side too (the twin has the same constraint kinds in the same order), so a
        // mismatch caused by the emission-order class shows up under its own key there as well
        AnySpec::Hand(h) => {
            let (mut j, got) = judge_outcome(engine::eval_hand(f, h, seed), &|| h.canon(), want_sample);
            if let Some(b) = &mut j.bad
                && b.clause == "value"
                && let Ok(twin) = h.unfold()
            {
                b.class = diagnose(f, &twin, &got, seed);
            }
            j
        }
    }
}

// ---------------------------------------------------------------------------------------
// minimisation of a violating spec (greedy, strictly decreasing size ⇒ terminates)

fn tree_variants<T: Tree>(t: &T, rebuild: &dyn Fn(&T, usize, T) -> T) -> Vec<T> {
    // (a) replace t by one of its children, (b) shrink inside one child
    let ch = t.children();
    let mut out: Vec<T> = ch.clone();
    for (i, c) in ch.iter().enumerate() {
        for v in tree_variants(c, rebuild) {
            out.push(rebuild(t, i, v));
        }
    }
    out
}
fn rebuild_bt(t: &BT, i: usize, v: BT) -> BT {
    match t {
        BT::Neg(_) => BT::Neg(Box::new(v)),
        BT::Bin(o, a, b) => {
            if i == 0 {
                BT::Bin(*o, Box::new(v), b.clone())
            } else {
                BT::Bin(*o, a.clone(), Box::new(v))
            }
        }
        _ => unreachable!(),
    }
}
fn rebuild_et(t: &ET, i: usize, v: ET) -> ET {
    match t {
        ET::Neg(_) => ET::Neg(Box::new(v)),
        ET::Bin(o, a, b) => {
            if i == 0 {
                ET::Bin(*o, Box::new(v), b.clone())
            } else {
                ET::Bin(*o, a.clone(), Box::new(v))
            }
        }
        _ => unreachable!(),
    }
}
fn et_variants(t: &ET) -> Vec<ET> {
    let mut out = tree_variants(t, &rebuild_et);
    // also shrink inside lifted base sub-trees
    fn inner(t: &ET, out: &mut Vec<ET>, ctx: &dyn Fn(ET) -> ET) {
        match t {
            ET::B(b) => {
                for v in tree_variants(&**b, &rebuild_bt) {
                    out.push(ctx(ET::B(Box::new(v))));
                }
            }
            ET::Neg(a) => inner(a, out, &|x| ctx(ET::Neg(Box::new(x)))),
            ET::Bin(o, a, b) => {
                inner(a, out, &|x| ctx(ET::Bin(*o, Box::new(x), b.clone())));
                inner(b, out, &|x| ctx(ET::Bin(*o, a.clone(), Box::new(x))));
            }
            _ => {}
        }
    }
    inner(t, &mut out, &|x| x);
    out
}

fn shrink_any(s: &AnySpec) -> Vec<AnySpec> {
    match s {
        AnySpec::Api(s) => shrink_candidates(s).into_iter().map(AnySpec::Api).collect(),
        AnySpec::Hand(h) => hand::shrink_hand(h).into_iter().map(AnySpec::Hand).collect(),
    }
}

fn shrink_candidates(s: &Spec) -> Vec<Spec> {
    let mut out = vec![];
    if s.cons.len() > 1 {
        for i in 0..s.cons.len() {
            let mut c = s.clone();
            c.cons.remove(i);
            out.push(c);
        }
    }
    for i in 0..s.lookups.len() {
        let mut c = s.clone();
        c.lookups.remove(i);
        out.push(c);
        if s.lookups[i].tuples.len() > 1 {
            for j in 0..s.lookups[i].tuples.len() {
                let mut c = s.clone();
                c.lookups[i].tuples.remove(j);
                out.push(c);
            }
        }
        for j in 0..s.lookups[i].tuples.len() {
            if s.lookups[i].tuples[j].0.len() > 1 {
                let mut c = s.clone();
                c.lookups[i].tuples[j].0.pop();
                out.push(c);
            }
        }
    }
    if s.share {
        let mut c = s.clone();
        c.share = false;
        out.push(c);
    }
    for (i, con) in s.cons.iter().enumerate() {
        match con {
            Con::B(f, t) => {
                if *f != Filt::None {
                    let mut c = s.clone();
                    c.cons[i] = Con::B(Filt::None, t.clone());
                    out.push(c);
                }
                for v in tree_variants(t, &rebuild_bt) {
                    let mut c = s.clone();
                    c.cons[i] = Con::B(*f, v);
                    out.push(c);
                }
            }
            Con::E(f, t) => {
                if *f != Filt::None {
                    let mut c = s.clone();
                    c.cons[i] = Con::E(Filt::None, t.clone());
                    out.push(c);
                }
                for v in et_variants(t) {
                    let mut c = s.clone();
                    c.cons[i] = Con::E(*f, v);
                    out.push(c);
                }
            }
        }
    }
    // Replace EVERY occurrence of one distinct base sub-tree by one of its children (keeps
    // structurally equal sub-trees equal, i.e. keeps the sharing pattern of a `share` spec).
    let mut subs: Vec<BT> = vec![];
    fn collect_b(t: &BT, subs: &mut Vec<BT>) {
        if t.depth() > 0 && !subs.contains(t) {
            subs.push(t.clone());
        }
        for c in t.children() {
            collect_b(&c, subs);
        }
    }
    fn collect_e(t: &ET, subs: &mut Vec<BT>) {
        match t {
            ET::B(b) => collect_b(b, subs),
            _ => {
                for c in t.children() {
                    collect_e(&c, subs);
                }
            }
        }
    }
    fn sub_b(t: &BT, from: &BT, to: &BT) -> BT {
        if t == from {
            return to.clone();
        }
        match t {
            BT::Neg(a) => BT::Neg(Box::new(sub_b(a, from, to))),
            BT::Bin(o, a, b) => BT::Bin(*o, Box::new(sub_b(a, from, to)), Box::new(sub_b(b, from, to))),
            x => x.clone(),
        }
    }
    fn sub_e(t: &ET, from: &BT, to: &BT) -> ET {
        match t {
            ET::B(b) => ET::B(Box::new(sub_b(b, from, to))),
            ET::Neg(a) => ET::Neg(Box::new(sub_e(a, from, to))),
            ET::Bin(o, a, b) => ET::Bin(*o, Box::new(sub_e(a, from, to)), Box::new(sub_e(b, from, to))),
            x => x.clone(),
        }
    }
    for con in &s.cons {
        match con {
            Con::B(_, t) => collect_b(t, &mut subs),
            Con::E(_, t) => collect_e(t, &mut subs),
        }
    }
    if subs.len() <= 64 {
        for from in &subs {
            for to in from.children() {
                let mut c = s.clone();
                for con in c.cons.iter_mut() {
                    *con = match con {
                        Con::B(f, t) => Con::B(*f, sub_b(t, from, &to)),
                        Con::E(f, t) => Con::E(*f, sub_e(t, from, &to)),
                    };
                }
                if c != *s {
                    out.insert(0, c);
                }
            }
        }
    }
    out.retain(|c| c.valid() && !c.cons.is_empty());
    out
}

/// Greedy shrink that keeps the clause AND the diagnosed class of the violation.
fn minimise(f: FieldCfg, spec: &AnySpec, seed: u64) -> (AnySpec, Bad) {
    let mut cur = spec.clone();
    let mut cur_bad = judge(f, &cur, seed, false).bad.expect("minimise called on a passing spec");
    let (clause, class) = (cur_bad.clause, cur_bad.class);
    'outer: loop {
        for cand in shrink_any(&cur) {
            if let Some(b) = judge(f, &cand, seed, false).bad
                && b.clause == clause
                && b.class == class
            {
                cur = cand;
                cur_bad = b;
                continue 'outer;
            }
        }
        return (cur, cur_bad);
    }
}

// ---------------------------------------------------------------------------------------

#[derive(Default)]
struct FamStats {
    total: u64,
    evaluated: AtomicU64,
    nontrivial: AtomicU64,
    with_sharing: AtomicU64,
    ext_mode: AtomicU64,
    /// mismatches not explained by a diagnosed class
    violating: AtomicU64,
    /// mismatches fully explained by a diagnosed class (one finding, many instances)
    classed: AtomicU64,
}

/// Unclassified violating specs that get minimised + their own key; later ones are only
/// counted (a failing run does not need thousands of replay files, and enumeration is
/// simplest-first).
const MAX_MINIMISED: u64 = 40;
/// Unclassified violating specs after which the exploration stops early.
const STOP_AFTER: u64 = 5000;
/// Cap of the hash sets used to *measure* distinctness (memory), reported if hit.
const SET_CAP: usize = 4_000_000;

fn replay_json(f: FieldCfg, min: &AnySpec, original: &AnySpec, seed: u64) -> Value {
    match (min, original) {
        (AnySpec::Hand(m), AnySpec::Hand(o)) => json!({"hand": m, "original_hand": o, "seed": seed, "field": f}),
        (AnySpec::Api(m), AnySpec::Api(o)) => json!({"spec": m, "original_spec": o, "seed": seed, "field": f}),
        _ => unreachable!("shrinking never changes the spec language"),
    }
}

fn record_violation(report: &Report, f: FieldCfg, spec: &AnySpec, bad: &Bad, seed: u64, minimised: &AtomicU64) {
    if let Some(c) = bad.class {
        // the key of a diagnosed class does not depend on the minimal form: minimise only the
        // first instance (for the replay file), count the others
        let key = format!("{}:{}", bad.clause, c);
        if report.has(&key) {
            report.violation(key, "", Value::Null);
            return;
        }
    } else if minimised.fetch_add(1, Ordering::Relaxed) >= MAX_MINIMISED {
        return;
    }
    let (min, mbad) = minimise(f, spec, seed);
    report.violation(
        violation_key(f, &min, &mbad),
        format!("[{}] folded constraint value differs for AIR {} — {}", f.tag(), min.canon(), mbad.detail),
        replay_json(f, &min, spec, seed),
    );
}

/// Canonical key: the diagnosed class if there is one (all its minimal forms are the same
/// defect), otherwise clause + canonical text of the minimised AIR.
fn violation_key(f: FieldCfg, min: &AnySpec, bad: &Bad) -> String {
    // the primary field keeps the plain key; other fields are tagged
    let tag = if f == FieldCfg::BabyBear4 { String::new() } else { format!("@{}", f.tag()) };
    match bad.class {
        Some(c) => format!("{}:{}", bad.clause, c),
        None => format!("{}:{}{}", bad.clause, min.canon(), tag),
    }
}

fn main() {
    let ctx = Ctx::from_args("C13", "exploration");
    vpcore::install_quiet_panic_hook();
    let report = Report::new();
    let seed = ctx.seed;

    if let Some(path) = &ctx.replay {
        let v = vpcore::load_replay(path);
        let rseed = v["seed"].as_u64().unwrap_or(seed);
        let sample;
        if let Some(name) = v["fixed"].as_str() {
            let f = fixed::fixed_programs()
                .into_iter()
                .find(|f| f.name == name)
                .unwrap_or_else(|| vpcore::machinery_error("replay names an unknown fixed AIR"));
            println!("replaying fixed AIR {name}");
            let (_, res) = (f.eval)(rseed);
            let (j, _) = judge_outcome(res, &|| name.to_string(), true);
            if let Some(b) = &j.bad {
                report.violation(format!("{}:fixed:{}", b.clause, name), format!("{name}: {}", b.detail), v.clone());
            }
            sample = j.sample;
        } else {
            let spec: AnySpec = if v.get("hand").is_some() {
                AnySpec::Hand(
                    vpcore::serde_json::from_value(v["hand"].clone())
                        .unwrap_or_else(|e| vpcore::machinery_error(&format!("replay has no hand spec: {e}"))),
                )
            } else {
                AnySpec::Api(
                    vpcore::serde_json::from_value(v["spec"].clone())
                        .unwrap_or_else(|e| vpcore::machinery_error(&format!("replay has no spec: {e}"))),
                )
            };
            if !spec.valid() {
                vpcore::machinery_error("replay holds an ill-formed spec");
            }
            let f: FieldCfg = vpcore::serde_json::from_value(v["field"].clone()).unwrap_or(FieldCfg::BabyBear4);
            println!("replaying [{}] {}", f.tag(), spec.canon());
            let j = judge(f, &spec, rseed, true);
            if let Some(b) = &j.bad {
                println!("  {} (class {:?}): {}", b.clause, b.class, b.detail);
                let (min, mbad) = minimise(f, &spec, rseed);
                report.violation(
                    violation_key(f, &min, &mbad),
                    format!("[{}] folded constraint value differs for AIR {} — {}", f.tag(), min.canon(), mbad.detail),
                    replay_json(f, &min, &spec, rseed),
                );
            }
            sample = j.sample;
        }
        println!("{}", vpcore::serde_json::to_string_pretty(&sample).unwrap());
        let cov = json!({"evaluations": ASSIGNMENTS.len(), "distinct_nontrivial": 2,
            "rule": "replay of one stored case", "samples": [sample], "replay": true});
        finish(&ctx, cov, vec![], &report);
    }

    let fams: Vec<Family> = families::families(ctx.quick());
    let only = ctx.opt("family").map(|s| s.to_string());
    let stats: Vec<FamStats> = fams.iter().map(|f| FamStats { total: f.count, ..Default::default() }).collect();
    let minimised = AtomicU64::new(0);
    let stop = AtomicBool::new(false);
    let sigs: Mutex<HashSet<u64>> = Mutex::new(HashSet::new());
    let canon_seen: Mutex<HashSet<u64>> = Mutex::new(HashSet::new());
    let set_capped = AtomicBool::new(false);
    let samples: Mutex<Vec<Value>> = Mutex::new(vec![]);
    let clauses = Histo::new();
    let mut timed_out = false;

    // ---- fixed programs (repo AIRs) -----------------------------------------------------
    let mut fixed_rows = vec![];
    let mut fixed_evaluated = 0u64;
    if only.is_none() || only.as_deref() == Some("fixed") {
        for f in fixed::fixed_programs() {
            let (nl, res) = (f.eval)(seed);
            let (j, _) = judge_outcome(res, &|| f.name.clone(), true);
            fixed_evaluated += 1;
            if let Some(b) = &j.bad {
                clauses.add(b.clause);
                report.violation(
                    format!("{}:fixed:{}", b.clause, f.name),
                    format!("folded constraint value differs for repo AIR {} — {}", f.name, b.detail),
                    json!({"fixed": f.name, "seed": seed}),
                );
            } else {
                clauses.add("equal");
            }
            if j.nontrivial {
                sigs.lock().unwrap().insert(j.sig);
                canon_seen.lock().unwrap().insert(fnv(&f.name));
            }
            fixed_rows.push(json!({"air": f.name, "lookup_contexts": nl, "nontrivial": j.nontrivial,
                "agrees": j.bad.is_none(), "sample": j.sample}));
        }
        eprintln!("[c13] fixed repo AIRs: {fixed_evaluated} evaluated  {:.1}s", ctx.elapsed_s());
    }

    // ---- generated families -------------------------------------------------------------
    for (fi, fam) in fams.iter().enumerate() {
        if let Some(o) = &only
            && *o != fam.name
        {
            continue;
        }
        let st = &stats[fi];
        let t0 = ctx.elapsed_s();
        const CHUNK: u64 = 64;
        let nchunks = fam.count.div_ceil(CHUNK);
        (0..nchunks).into_par_iter().for_each(|ch| {
            if stop.load(Ordering::Relaxed) || ctx.out_of_time() {
                return;
            }
            let mut local_sigs = Vec::with_capacity(CHUNK as usize);
            let mut local_canon = Vec::with_capacity(CHUNK as usize);
            // per-chunk tallies, merged once (no shared-state traffic per spec)
            let (mut n_eval, mut n_share, mut n_ext, mut n_nontriv, mut n_equal) = (0u64, 0u64, 0u64, 0u64, 0u64);
            for idx in ch * CHUNK..((ch + 1) * CHUNK).min(fam.count) {
                let Some(spec) = (fam.spec_at)(idx) else {
                    // index maps to a spec already covered elsewhere in the same family
                    continue;
                };
                if !spec.valid() {
                    vpcore::machinery_error(&format!("family {} produced an ill-formed spec {}", fam.name, spec.canon()));
                }
                let want_sample = idx == fam.count / 2;
                let j = judge(fam.field, &spec, seed, want_sample);
                n_eval += 1;
                n_share += spec.shares() as u64;
                n_ext += spec.is_ext_mode() as u64;
                if j.nontrivial {
                    n_nontriv += 1;
                    local_sigs.push(j.sig);
                    local_canon.push(fnv(&format!("{}|{}", fam.field.tag(), spec.canon())));
                }
                if let Some(mut s) = j.sample {
                    s["family"] = json!(fam.name);
                    samples.lock().unwrap().push(s);
                }
                match &j.bad {
                    None => n_equal += 1,
                    Some(b) => {
                        match b.class {
                            Some(c) => {
                                clauses.add(&format!("{}:{}", b.clause, c));
                                st.classed.fetch_add(1, Ordering::Relaxed);
                            }
                            None => {
                                clauses.add(b.clause);
                                if st.violating.fetch_add(1, Ordering::Relaxed) > STOP_AFTER {
                                    stop.store(true, Ordering::Relaxed);
                                }
                            }
                        }
                        record_violation(&report, fam.field, &spec, b, seed, &minimised);
                    }
                }
            }
            st.evaluated.fetch_add(n_eval, Ordering::Relaxed);
            st.with_sharing.fetch_add(n_share, Ordering::Relaxed);
            st.ext_mode.fetch_add(n_ext, Ordering::Relaxed);
            st.nontrivial.fetch_add(n_nontriv, Ordering::Relaxed);
            clauses.add_n("equal", n_equal);
            for (set, local) in [(&sigs, local_sigs), (&canon_seen, local_canon)] {
                let mut g = set.lock().unwrap();
                if g.len() < SET_CAP {
                    g.extend(local);
                } else {
                    set_capped.store(true, Ordering::Relaxed);
                }
            }
        });
        let ev = st.evaluated.load(Ordering::Relaxed);
        eprintln!(
            "[c13] family {:<40} specs {:>9}/{:<9} nontrivial {:>9} shared {:>8} unexplained {:>6} classed {:>6}  {:.1}s",
            fam.name,
            ev,
            fam.count,
            st.nontrivial.load(Ordering::Relaxed),
            st.with_sharing.load(Ordering::Relaxed),
            st.violating.load(Ordering::Relaxed),
            st.classed.load(Ordering::Relaxed),
            ctx.elapsed_s() - t0
        );
        if ctx.out_of_time() {
            timed_out = true;
        }
    }

    let mut per_family = vec![];
    let mut total_specs = fixed_evaluated;
    let mut total_nontrivial = 0u64;
    for (f, s) in fams.iter().zip(&stats) {
        let ev = s.evaluated.load(Ordering::Relaxed);
        total_specs += ev;
        total_nontrivial += s.nontrivial.load(Ordering::Relaxed);
        per_family.push(json!({
            "family": f.name, "field": f.field.tag(), "what": f.what, "index_space": f.count, "specs_evaluated": ev,
            "nontrivial": s.nontrivial.load(Ordering::Relaxed),
            "built_with_shared_objects": s.with_sharing.load(Ordering::Relaxed),
            "ext_mode": s.ext_mode.load(Ordering::Relaxed),
            "mismatch_unexplained": s.violating.load(Ordering::Relaxed),
            "mismatch_diagnosed_class": s.classed.load(Ordering::Relaxed),
        }));
    }
    let stopped = stop.load(Ordering::Relaxed);
    let all_done = !timed_out && !stopped && only.is_none();
    let distinct_specs = canon_seen.lock().unwrap().len();
    let distinct_values = sigs.lock().unwrap().len();
    let cov = json!({
        "evaluations": total_specs * ASSIGNMENTS.len() as u64,
        "programs": total_specs,
        "assignments_per_program": ASSIGNMENTS.len(),
        "assignments": ASSIGNMENTS,
        "distinct_nontrivial": distinct_specs,
        "distinct_count_is_lower_bound_set_capped": set_capped.load(Ordering::Relaxed),
        "nontrivial_programs_incl_cross_family_repeats": total_nontrivial,
        "distinct_folded_values_on_genericA": distinct_values,
        "rule": "a program (AIR spec) is non-trivial if p3's native folder yields a non-zero folded value for at least one of the four assignments; distinct = distinct canonical spec text among those (measured with a hash set, capped at 4e6 entries); distinct_folded_values = number of different native folded values on assignment genericA",
        "exhaustive": all_done,
        "timed_out": timed_out,
        "stopped_early_on_violations": stopped,
        "families": per_family,
        "fixed_repo_airs": fixed_rows,
        "verdicts": clauses.to_json(),
        "samples": *samples.lock().unwrap(),
    });
    let assumptions = vec![
        "Primary field: BabyBear with its degree-4 binomial extension (p3_test_utils::baby_bear_params). Goldilocks/degree-2 and KoalaBear/quintic-trinomial are explored on a subset of the families only (see families[].field).".to_string(),
        "Generated AIRs have the fixed shape 2 main / 2 preprocessed / 2 public / 2 periodic columns; permutation width, challenges and cumulated values follow the number of lookup contexts exactly as p3-batch-stark lays them out. The fixed repo AIRs use their own shapes.".to_string(),
        "Opened values, selectors, periodic values and alpha are free inputs of both folders (the property quantifies over arbitrary values), not values of an actual trace.".to_string(),
        "Sharing is produced (a) the way AIR code produces it — one expression object re-used through .clone() — in the API-built families, and (b) by constructing p3's public SymbolicExpression / SymbolicExpressionExt enum nodes directly with Arc::clone'd operands in the hand_dag_* families (every operand slot new or any earlier node, within the stated operator / reference bounds; no filters, lookups or permutation leaves there; fresh leaves take one kind per position).".to_string(),
        "Oracle = p3 0.6.3 native folders (uni-stark VerifierConstraintFolder for base-only AIRs, cross-checked against p3-lookup's VerifierConstraintFolderWithLookups + LogUpGadget::eval_air_and_lookups, which is the only oracle for extension constraints and lookups).".to_string(),
    ];
    finish(&ctx, cov, assumptions, &report);
}
