fn main() {
    eprintln!("MACHINERY-ERROR: check c13 not built yet");
    std::process::exit(2);
}
