//! Spec language of the C13 explorer: constraint *trees* over the AirBuilder vocabulary,
//! exhaustive tree enumeration by index, and lowering to a DAG ("straight-line program")
//! that fixes which sub-expression *objects* are built once and re-used by `.clone()`.

use std::collections::HashMap;
use std::fmt;

use serde::{Deserialize, Serialize};

// Fixed AIR shape (same for every spec so that index mix-ups are observable: every kind has
// two columns and the generic assignments give every cell a different value).
pub const MAIN_W: usize = 2;
pub const PREP_W: usize = 2;
pub const PUB_W: usize = 2;
pub const PER_W: usize = 2;

/// Base-field constants reachable through `K(i)`. 0 and 1 trigger p3's symbolic
/// simplifications (x+0, x*1, x*0, 0-x), the others do not. -1 is the field's NEG_ONE.
pub const CONSTS: [i32; 5] = [0, 1, 2, 3, -1];
/// Extension constants reachable through `EK(i)`, as 4 base coefficients.
/// EK(0) is a proper extension element, EK(1) lies in the base field (p3 treats it as a
/// foldable constant), EK(2) = 1.
pub const ECONSTS: [[u32; 4]; 3] = [[5, 11, 17, 23], [9, 0, 0, 0], [1, 0, 0, 0]];

#[derive(Clone, Copy, Debug, PartialEq, Eq, Hash, Serialize, Deserialize)]
pub enum Op {
    Add,
    Sub,
    Mul,
}
pub const OPS: [Op; 3] = [Op::Add, Op::Sub, Op::Mul];

/// Base-field expression tree (what an AIR writes with `AB::Expr`).
#[derive(Clone, Debug, PartialEq, Eq, Hash, Serialize, Deserialize)]
pub enum BT {
    ML(u8),
    MN(u8),
    PL(u8),
    PN(u8),
    PV(u8),
    PER(u8),
    IF,
    IL,
    IT,
    K(u8),
    Neg(Box<BT>),
    Bin(Op, Box<BT>, Box<BT>),
}

/// Extension-field expression tree (`AB::ExprEF`).
#[derive(Clone, Debug, PartialEq, Eq, Hash, Serialize, Deserialize)]
pub enum ET {
    /// permutation column, current row
    ZL(u8),
    /// permutation column, next row
    ZN(u8),
    /// permutation challenge
    CH(u8),
    /// cumulated value / lookup terminal
    CUM(u8),
    /// extension constant
    EK(u8),
    /// base expression lifted with `Into<ExprEF>`
    B(Box<BT>),
    Neg(Box<ET>),
    Bin(Op, Box<ET>, Box<ET>),
}

fn opc(o: Op) -> char {
    match o {
        Op::Add => '+',
        Op::Sub => '-',
        Op::Mul => '*',
    }
}

impl fmt::Display for BT {
    fn fmt(&self, f: &mut fmt::Formatter<'_>) -> fmt::Result {
        match self {
            BT::ML(i) => write!(f, "ml{i}"),
            BT::MN(i) => write!(f, "mn{i}"),
            BT::PL(i) => write!(f, "pl{i}"),
            BT::PN(i) => write!(f, "pn{i}"),
            BT::PV(i) => write!(f, "pv{i}"),
            BT::PER(i) => write!(f, "per{i}"),
            BT::IF => write!(f, "isF"),
            BT::IL => write!(f, "isL"),
            BT::IT => write!(f, "isT"),
            BT::K(i) => write!(f, "k{}", CONSTS[*i as usize]),
            BT::Neg(a) => write!(f, "-({a})"),
            BT::Bin(o, a, b) => write!(f, "({a}{}{b})", opc(*o)),
        }
    }
}
impl fmt::Display for ET {
    fn fmt(&self, f: &mut fmt::Formatter<'_>) -> fmt::Result {
        match self {
            ET::ZL(i) => write!(f, "zl{i}"),
            ET::ZN(i) => write!(f, "zn{i}"),
            ET::CH(i) => write!(f, "ch{i}"),
            ET::CUM(i) => write!(f, "cum{i}"),
            ET::EK(i) => write!(f, "ek{i}"),
            ET::B(b) => write!(f, "[{b}]"),
            ET::Neg(a) => write!(f, "-({a})"),
            ET::Bin(o, a, b) => write!(f, "({a}{}{b})", opc(*o)),
        }
    }
}

pub trait Tree: Clone {
    fn neg(a: Self) -> Self;
    fn bin(o: Op, a: Self, b: Self) -> Self;
    /// direct children (for shrinking)
    fn children(&self) -> Vec<Self>;
    fn depth(&self) -> usize;
}
impl Tree for BT {
    fn neg(a: Self) -> Self {
        BT::Neg(Box::new(a))
    }
    fn bin(o: Op, a: Self, b: Self) -> Self {
        BT::Bin(o, Box::new(a), Box::new(b))
    }
    fn children(&self) -> Vec<Self> {
        match self {
            BT::Neg(a) => vec![(**a).clone()],
            BT::Bin(_, a, b) => vec![(**a).clone(), (**b).clone()],
            _ => vec![],
        }
    }
    fn depth(&self) -> usize {
        match self {
            BT::Neg(a) => 1 + a.depth(),
            BT::Bin(_, a, b) => 1 + a.depth().max(b.depth()),
            _ => 0,
        }
    }
}
impl Tree for ET {
    fn neg(a: Self) -> Self {
        ET::Neg(Box::new(a))
    }
    fn bin(o: Op, a: Self, b: Self) -> Self {
        ET::Bin(o, Box::new(a), Box::new(b))
    }
    fn children(&self) -> Vec<Self> {
        match self {
            ET::Neg(a) => vec![(**a).clone()],
            ET::Bin(_, a, b) => vec![(**a).clone(), (**b).clone()],
            _ => vec![],
        }
    }
    fn depth(&self) -> usize {
        match self {
            ET::Neg(a) => 1 + a.depth(),
            ET::Bin(_, a, b) => 1 + a.depth().max(b.depth()),
            _ => 0,
        }
    }
}

/// Number of trees of depth <= d over `n` leaves with {neg, add, sub, mul}:
/// S_0 = n, S_{d+1} = n + S_d + 3 S_d^2 (every tree counted once, by structure).
pub fn count_trees(n: u64, d: usize) -> u64 {
    let mut s = n;
    for _ in 0..d {
        s = n + s + 3 * s * s;
    }
    s
}

/// The `idx`-th tree of depth <= d over `leaves` (bijection with 0..count_trees).
/// Order: leaves, then negations, then binary nodes — i.e. simplest first.
pub fn decode<T: Tree>(leaves: &[T], d: usize, idx: u64) -> T {
    let n = leaves.len() as u64;
    if d == 0 {
        return leaves[idx as usize].clone();
    }
    if idx < n {
        return leaves[idx as usize].clone();
    }
    let s = count_trees(n, d - 1);
    if idx < n + s {
        return T::neg(decode(leaves, d - 1, idx - n));
    }
    let j = idx - n - s;
    let o = OPS[(j / (s * s)) as usize];
    let a = (j % (s * s)) / s;
    let b = j % s;
    T::bin(o, decode(leaves, d - 1, a), decode(leaves, d - 1, b))
}

#[derive(Clone, Copy, Debug, PartialEq, Eq, Hash, Serialize, Deserialize)]
pub enum Filt {
    None,
    First,
    Trans,
    Last,
}
pub const FILTS: [Filt; 4] = [Filt::None, Filt::First, Filt::Trans, Filt::Last];

/// One emitted constraint, in emission order.
#[derive(Clone, Debug, PartialEq, Eq, Hash, Serialize, Deserialize)]
pub enum Con {
    /// `builder[.when_*()].assert_zero(tree)`
    B(Filt, BT),
    /// `builder[.when_*()].assert_zero_ext(tree)`
    E(Filt, ET),
}

/// One lookup context handed to the lookup gadget (`p3_lookup::Lookup`): tuples of
/// (element expressions, multiplicity expression).
#[derive(Clone, Debug, PartialEq, Eq, Hash, Serialize, Deserialize)]
pub struct LookupSpec {
    pub global: bool,
    pub tuples: Vec<(Vec<BT>, BT)>,
}

#[derive(Clone, Debug, PartialEq, Eq, Hash, Serialize, Deserialize)]
pub struct Spec {
    /// true: structurally equal sub-trees (within and across the constraints of this AIR) are
    /// built ONCE and every further use is `.clone()` of that expression object — this is how
    /// AIR code produces `Arc`-shared symbolic nodes. false: every occurrence is rebuilt.
    pub share: bool,
    pub cons: Vec<Con>,
    pub lookups: Vec<LookupSpec>,
}

impl Spec {
    pub fn base1(t: BT) -> Spec {
        Spec { share: false, cons: vec![Con::B(Filt::None, t)], lookups: vec![] }
    }
    pub fn is_ext_mode(&self) -> bool {
        !self.lookups.is_empty() || self.cons.iter().any(|c| matches!(c, Con::E(..)))
    }
    /// Canonical one-line form (used for violation keys and samples).
    pub fn canon(&self) -> String {
        let mut s = String::new();
        s.push_str(if self.share { "share{" } else { "fresh{" });
        for (i, c) in self.cons.iter().enumerate() {
            if i > 0 {
                s.push_str("; ");
            }
            let (f, body, ext) = match c {
                Con::B(f, t) => (f, t.to_string(), false),
                Con::E(f, t) => (f, t.to_string(), true),
            };
            let pre = match f {
                Filt::None => "",
                Filt::First => "first:",
                Filt::Trans => "trans:",
                Filt::Last => "last:",
            };
            s.push_str(&format!("{}{}{}", if ext { "E " } else { "" }, pre, body));
        }
        s.push('}');
        for l in &self.lookups {
            s.push_str(if l.global { " G[" } else { " L[" });
            for (i, (els, m)) in l.tuples.iter().enumerate() {
                if i > 0 {
                    s.push_str(" | ");
                }
                let e: Vec<String> = els.iter().map(|e| e.to_string()).collect();
                s.push_str(&format!("({})x{}", e.join(","), m));
            }
            s.push(']');
        }
        s
    }
    /// Index bounds of the ext leaves must fit the layout induced by the lookups.
    pub fn valid(&self) -> bool {
        let nl = self.lookups.len() as u8;
        let (pw, nch, ncum) = if nl == 0 { (0, 0, 0) } else { (nl + 1, 2 * nl, 1) };
        fn okb(t: &BT) -> bool {
            match t {
                BT::ML(i) | BT::MN(i) => (*i as usize) < MAIN_W,
                BT::PL(i) | BT::PN(i) => (*i as usize) < PREP_W,
                BT::PV(i) => (*i as usize) < PUB_W,
                BT::PER(i) => (*i as usize) < PER_W,
                BT::K(i) => (*i as usize) < CONSTS.len(),
                BT::Neg(a) => okb(a),
                BT::Bin(_, a, b) => okb(a) && okb(b),
                _ => true,
            }
        }
        fn oke(t: &ET, pw: u8, nch: u8, ncum: u8) -> bool {
            match t {
                ET::ZL(i) | ET::ZN(i) => *i < pw,
                ET::CH(i) => *i < nch,
                ET::CUM(i) => *i < ncum,
                ET::EK(i) => (*i as usize) < ECONSTS.len(),
                ET::B(b) => okb(b),
                ET::Neg(a) => oke(a, pw, nch, ncum),
                ET::Bin(_, a, b) => oke(a, pw, nch, ncum) && oke(b, pw, nch, ncum),
            }
        }
        self.cons.iter().all(|c| match c {
            Con::B(_, t) => okb(t),
            Con::E(_, t) => oke(t, pw, nch, ncum),
        }) && self.lookups.iter().all(|l| {
            !l.tuples.is_empty() && l.tuples.iter().all(|(e, m)| e.iter().all(okb) && okb(m))
        })
    }
}

// ---------------------------------------------------------------------------------------
// DAG lowering

#[derive(Clone, Debug)]
pub enum BN {
    Leaf(BT),
    Neg(u32),
    Bin(Op, u32, u32),
}
#[derive(Clone, Debug)]
pub enum EN {
    Leaf(ET),
    Base(u32),
    Neg(u32),
    Bin(Op, u32, u32),
}
#[derive(Clone, Debug)]
pub enum DCon {
    B(Filt, u32),
    E(Filt, u32),
}
/// Straight-line program: node k may refer to nodes < k. Every reference is evaluated as
/// `values[k].clone()`, so a node referenced twice is ONE expression object used twice.
#[derive(Clone, Debug, Default)]
pub struct Dag {
    pub b: Vec<BN>,
    pub e: Vec<EN>,
    pub cons: Vec<DCon>,
    /// number of node references that re-used an already built object (sharing actually present)
    pub reuses: u32,
}

struct Lower {
    share: bool,
    dag: Dag,
    bm: HashMap<BT, u32>,
    em: HashMap<ET, u32>,
}
impl Lower {
    fn b(&mut self, t: &BT) -> u32 {
        if self.share
            && let Some(&i) = self.bm.get(t)
        {
            if t.depth() > 0 {
                self.dag.reuses += 1;
            }
            return i;
        }
        let n = match t {
            BT::Neg(a) => BN::Neg(self.b(a)),
            BT::Bin(o, a, b) => {
                let x = self.b(a);
                let y = self.b(b);
                BN::Bin(*o, x, y)
            }
            leaf => BN::Leaf(leaf.clone()),
        };
        self.dag.b.push(n);
        let i = (self.dag.b.len() - 1) as u32;
        if self.share {
            self.bm.insert(t.clone(), i);
        }
        i
    }
    fn e(&mut self, t: &ET) -> u32 {
        if self.share
            && let Some(&i) = self.em.get(t)
        {
            if t.depth() > 0 {
                self.dag.reuses += 1;
            }
            return i;
        }
        let n = match t {
            ET::Neg(a) => EN::Neg(self.e(a)),
            ET::Bin(o, a, b) => {
                let x = self.e(a);
                let y = self.e(b);
                EN::Bin(*o, x, y)
            }
            ET::B(b) => EN::Base(self.b(b)),
            leaf => EN::Leaf(leaf.clone()),
        };
        self.dag.e.push(n);
        let i = (self.dag.e.len() - 1) as u32;
        if self.share {
            self.em.insert(t.clone(), i);
        }
        i
    }
}

pub fn lower(spec: &Spec) -> Dag {
    let mut l = Lower { share: spec.share, dag: Dag::default(), bm: HashMap::new(), em: HashMap::new() };
    for c in &spec.cons {
        let d = match c {
            Con::B(f, t) => DCon::B(*f, l.b(t)),
            Con::E(f, t) => DCon::E(*f, l.e(t)),
        };
        l.dag.cons.push(d);
    }
    l.dag
}
