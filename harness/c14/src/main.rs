fn main() {
    let name = std::env::args().nth(1).unwrap();
    let spec = vpe4::find_spec(&name).unwrap();
    let fx = (spec.make)().unwrap();
    println!("{}", vpcore::serde_json::to_string(&fx.honest).unwrap());
}
