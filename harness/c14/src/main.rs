//! C14 — proof data is packed in allocation order and every input matters.
//!
//! Enumerated (fault_enumeration, engine E4): every configuration of the E4 catalogue (both tiers:
//! all of it, the quick cross-section first) plus the extra shapes defined below (1–6 tables, more
//! queries, cap heights 0–2, arities 2–8, final polynomials of length 1–4, no PoW, ZK with
//! preprocessed data and lookups, degree-3 constraints). Quick perturbs every site by +1; thorough
//! also sets it to 0 and to its neighbour's value and probes every extension coefficient.
//! For each configuration, three clauses:
//!
//! (1) LENGTHS. The vectors produced by the repository's `*VerifierInputsBuilder::pack_values`
//!     have exactly `circuit.public_flat_len` / `circuit.private_flat_len` elements.
//! (2) UNIQUE-TAG PLACEMENT. Every field leaf of the honest object's JSON tree is replaced by a
//!     distinct tag, the tagged object is deserialised, packed by the repository's packing code
//!     and loaded with the real `set_public_inputs` / `set_private_inputs`. A hand-written walk
//!     over the public target structures (`vpe4::placement`, written from the meaning of the
//!     fields, never calling `get_values`) pairs every allocated target with the JSON path of the
//!     element it is meant to carry; the witness slot `expr_to_widx[target]` must hold exactly the
//!     tag(s) of that element. Every target is paired; every input position must be claimed by a
//!     target; field leaves that reach no input are listed and handed to clause (3).
//! (3) EVERY INPUT MATTERS. Every (position, basis coefficient) of the honest packed public and
//!     private vectors that carries a proof leaf (position → leaf through the tag map of (2), i.e.
//!     through the repository's own packing) is perturbed by +1 and the verification circuit is
//!     run on the otherwise honest data; the same +1 is applied to that leaf of the proof and the
//!     native verifier is asked. Likewise every proof leaf that is not a circuit input (Merkle
//!     sibling digests = MMCS private data) is perturbed in the object. Violation: the native
//!     verifier rejects, the circuit accepts ("unconstrained input"). Coefficients that map to no
//!     proof leaf (the zero extension part of lifted base-field values) are listed, not judged.
//!
//! Oracle: Plonky3's native verifiers + the boring walk. C01's two known findings (honest proof
//! rejected by the circuit: uni-STARK + hiding PCS; uneven commitment rounds with MMCS) leave no
//! accepted baseline for (3); there (1) and (2) are still checked and (3) is skipped and said so.

use std::collections::{BTreeMap, HashMap, HashSet};
use std::sync::Mutex;
use std::sync::atomic::{AtomicU64, Ordering};
use std::time::Instant;

use vpcore::rayon::prelude::*;
use vpcore::serde_json::{Value, json};
use vpcore::{Ctx, Histo, Report, finish, machinery_error};
use vpe4::airs::{BAir, UAir};
use vpe4::families::{bb, bb_zk, gl, kb_zk, kbq};
use vpe4::placement::{Lift, Placement};
use vpe4::tree::get as tree_get;
use vpe4::{Fixture, FixtureSpec, FriSpec, Leaf, LeafKind, Packed, catalogue, class_string, leaves, parse_path, path_string, with_leaf};

// ------------------------------------------------------------------------------------------
// extra shapes (beyond the E4 catalogue)

fn fs(tag: &'static str, b: usize, f: usize, a: usize, q: usize, cp: usize, qp: usize, cap: usize) -> FriSpec {
    FriSpec {
        tag,
        log_blowup: b,
        log_final_poly_len: f,
        max_log_arity: a,
        num_queries: q,
        commit_pow_bits: cp,
        query_pow_bits: qp,
        cap_height: cap,
    }
}

fn extra(name: &str, quick: bool, make: impl Fn() -> Result<Fixture, String> + Send + Sync + 'static) -> FixtureSpec {
    FixtureSpec { name: name.to_string(), quick, make: Box::new(make) }
}

/// Every extra shape; `name` must equal the name the constructor derives (checked after `make`).
fn extras() -> Vec<FixtureSpec> {
    let mut v = vec![];
    // four queries, cap height 2 (four cap entries per commitment), no proof of work at all
    v.push(extra("babybear_d4_p2w16/uni/fri/c14_fib16/c14_b1_f0_a1_q4_nopow_cap2", true, || {
        bb::uni_fixture(UAir::Fib, "c14_fib16", 16, fs("c14_b1_f0_a1_q4_nopow_cap2", 1, 0, 1, 4, 0, 0, 2))
    }));
    // degree-3 constraints (more quotient chunks), preprocessed, final polynomial of length 4, five queries
    v.push(extra("babybear_d4_p2w16/uni/fri/c14_mul4_deg3_prep32/c14_b1_f2_a2_q5_cap1", false, || {
        bb::uni_fixture(
            UAir::Mul { degree: 3, rows: 32, reps: 4 },
            "c14_mul4_deg3_prep32",
            32,
            fs("c14_b1_f2_a2_q5_cap1", 1, 2, 2, 5, 2, 3, 1),
        )
    }));
    // six tables of five heights/widths, two of them preprocessed, one with public values, one
    // without next-row opening
    v.push(extra("babybear_d4_p2w16/batch/fri/c14_six_tables/fri_testing", true, || {
        bb::batch_fixture(
            vec![
                BAir::Mul { degree: 2, rows: 32, reps: 2 },
                BAir::Fib,
                BAir::Add,
                BAir::Sub { rows: 8 },
                BAir::PubVal,
                BAir::AddNoNext,
            ],
            "c14_six_tables",
            vec![32, 16, 8, 8, 16, 32],
            FriSpec::TESTING,
        )
    }));
    // a single table
    v.push(extra("babybear_d4_p2w16/batch/fri/c14_one_table/fri_testing_cap1", false, || {
        bb::batch_fixture(vec![BAir::Add], "c14_one_table", vec![8], FriSpec::TESTING_CAP1)
    }));
    // ZK: four tables, preprocessed data, public values, random commitment + random openings
    v.push(extra("babybear_d4_p2w16/batch/hiding_fri/c14_zk_four_tables/fri_testing", false, || {
        bb_zk::batch_fixture(
            vec![BAir::Mul { degree: 2, rows: 16, reps: 3 }, BAir::Add, BAir::Sub { rows: 16 }, BAir::PubVal],
            "c14_zk_four_tables",
            vec![16, 16, 16, 8],
            FriSpec::TESTING,
        )
    }));
    // ZK + lookups (local and global) + preprocessed, three tables, three queries, cap height 1
    v.push(extra("koalabear_d4_p2w16/batch/hiding_fri/c14_zk_lookups3/c14_b2_f0_a1_q3_cap1", true, || {
        kb_zk::batch_fixture(
            vec![
                BAir::Mul { degree: 2, rows: 16, reps: 3 },
                BAir::MulLk { reps: 2, local: true, global: true },
                BAir::FibLk { log_height: 4, global: true, mult: 2 },
            ],
            "c14_zk_lookups3",
            vec![16, 16, 16],
            fs("c14_b2_f0_a1_q3_cap1", 2, 0, 1, 3, 1, 1, 1),
        )
    }));
    // Goldilocks (D=2, width-8 permutation): lookups, arity 4, final polynomial of length 2, cap 1
    v.push(extra("goldilocks_d2_p2w8/batch/fri/c14_lookups16/c14_b1_f1_a2_q3_cap1", false, || {
        gl::batch_fixture(
            vec![
                BAir::MulLk { reps: 2, local: true, global: true },
                BAir::FibLk { log_height: 4, global: true, mult: 2 },
            ],
            "c14_lookups16",
            vec![16, 16],
            fs("c14_b1_f1_a2_q3_cap1", 1, 1, 2, 3, 0, 2, 1),
        )
    }));
    // quintic extension (D=5): three tables, arity 8
    v.push(extra("koalabear_quintic_d5_p2w16d1/batch/fri/c14_three_tables/c14_b2_f0_a3_q2", false, || {
        kbq::batch_fixture(
            vec![BAir::Mul { degree: 2, rows: 16, reps: 2 }, BAir::Add, BAir::PubVal],
            "c14_three_tables",
            vec![16, 8, 16],
            fs("c14_b2_f0_a3_q2", 2, 0, 3, 2, 1, 1, 0),
        )
    }));
    v
}

fn all_specs() -> Vec<FixtureSpec> {
    let mut v = catalogue();
    v.extend(extras());
    v
}

// ------------------------------------------------------------------------------------------

fn plus_one(v: u64, modulus: u64) -> u64 {
    if v >= modulus - 1 { 0 } else { v + 1 }
}

/// Field elements appear in two number forms: CANONICAL (`Fixture::pack` / `circuit_verify_packed`)
/// and SERIALISED (the JSON tree; Montgomery form for BabyBear/KoalaBear). Serialisation is
/// multiplication by `ser_one` = serialised(1) modulo p, so the canonical "+1" of a JSON leaf is
/// "+ ser_one". (Checked at run time: every honest packed value, converted, must equal its leaf.)
#[derive(Clone, Copy)]
struct Repr {
    modulus: u64,
    ser_one: u64,
}
impl Repr {
    fn canon_to_ser(&self, c: u64) -> u64 {
        ((c as u128 * self.ser_one as u128) % self.modulus as u128) as u64
    }
    fn ser_plus_one(&self, v: u64) -> u64 {
        ((v as u128 + self.ser_one as u128) % self.modulus as u128) as u64
    }
}

/// The tree with every FIELD leaf replaced by a distinct tag; structural integers kept.
/// `tag(k) = t0 + k` for the k-th field leaf in document order; `VERIF_SEED` rotates `t0` only.
fn tag_tree(honest: &Value, all: &[Leaf], t0: u64) -> (Value, HashMap<u64, usize>, Vec<u64>) {
    let mut tagged = honest.clone();
    let mut by_tag = HashMap::new();
    let mut tag_of = vec![0u64; all.len()];
    let mut k = 0u64;
    for (i, l) in all.iter().enumerate() {
        if l.kind != LeafKind::Field {
            continue;
        }
        let t = t0 + k;
        k += 1;
        *vpe4::tree::get_mut(&mut tagged, &l.path).expect("leaf path") = json!(t);
        by_tag.insert(t, i);
        tag_of[i] = t;
    }
    (tagged, by_tag, tag_of)
}

#[derive(Default, Clone)]
struct ClassRow {
    evals: u64,
    native_reject: u64,
    both_accept: u64,
    unconstrained: u64,
    circuit_stricter: u64,
}

/// How a site is perturbed. Quick: `PlusOne`. Thorough (and `--replay`): all three.
#[derive(Clone, Copy, Debug, PartialEq, Eq)]
enum Pert {
    /// value + 1 (canonical)
    PlusOne,
    /// value <- 0 (skipped when it is 0 already)
    Zero,
    /// value <- the value of the next position of the same packed vector, same coefficient (the
    /// off-by-one mis-ordering); for non-input leaves: the next leaf of the same class. Skipped when equal.
    Neighbour,
}
impl Pert {
    fn tag(&self) -> &'static str {
        match self {
            Pert::PlusOne => "+1",
            Pert::Zero => "0",
            Pert::Neighbour => "neighbour",
        }
    }
}

#[derive(Clone)]
enum Site {
    /// coefficient `coeff` of position `pos` of the packed public (`vec` 0) / private (`vec` 1) vector
    Packed { vec: usize, pos: usize, coeff: usize, leaf: usize },
    /// a proof leaf that is not a circuit input (MMCS private datum)
    NotAnInput { leaf: usize },
}

struct Totals {
    evaluations: AtomicU64,
    nontrivial: AtomicU64,
    pairs_checked: AtomicU64,
    planned: AtomicU64,
    skipped: AtomicU64,
}

/// Violations go through this filter so that `--replay` reports only the stored key.
struct Sink<'a> {
    report: &'a Report,
    only_key: Option<String>,
}
impl Sink<'_> {
    fn violation(&self, key: String, what: String, replay: Value) {
        if let Some(k) = &self.only_key {
            if *k != key {
                return;
            }
        }
        self.report.violation(key, what, replay);
    }
}

fn vec_name(v: usize) -> &'static str {
    if v == 0 { "public" } else { "private" }
}

/// Describe a coefficient vector in terms of the leaves whose tags it holds.
fn describe(vals: &[u64], by_tag: &HashMap<u64, usize>, all: &[Leaf]) -> String {
    let parts: Vec<String> = vals
        .iter()
        .map(|v| match by_tag.get(v) {
            Some(&i) => format!("tag({})", path_string(&all[i].path)),
            None => v.to_string(),
        })
        .collect();
    format!("[{}]", parts.join(", "))
}

/// All three clauses on one configuration. Returns the per-configuration evidence record.
fn check_config(
    ctx: &Ctx,
    fx: &Fixture,
    kinds: &[Pert],
    sink: &Sink,
    verdicts: &Histo,
    totals: &Totals,
    samples: &Mutex<Vec<Value>>,
) -> Value {
    let t_start = Instant::now();
    let cfg = fx.name.clone();
    let d = fx.ext_degree;
    let honest = &fx.honest;
    let all: Vec<Leaf> = leaves(honest);
    let n_field = all.iter().filter(|l| l.kind == LeafKind::Field).count();
    let leaf_by_path: HashMap<String, usize> = all.iter().enumerate().map(|(i, l)| (path_string(&l.path), i)).collect();

    // ---------------------------------------------------------------- (1) lengths
    let packed_h: Packed =
        fx.pack(honest).unwrap_or_else(|e| machinery_error(&format!("{cfg}: cannot pack the honest object: {e}")));
    let (pub_len, priv_len) =
        fx.circuit_io_lens(honest).unwrap_or_else(|e| machinery_error(&format!("{cfg}: no circuit for the honest object: {e}")));
    let mut lengths_ok = true;
    for (name, got, want) in [("public", packed_h.public.len(), pub_len), ("private", packed_h.private.len(), priv_len)] {
        if got != want {
            lengths_ok = false;
            sink.violation(
                format!("{cfg}|lengths|{name}"),
                format!("{cfg}: pack_values yields {got} {name} values, the circuit expects {name}_flat_len = {want}"),
                json!({"config": cfg, "clause": "lengths", "vector": name, "packed": got, "expected": want}),
            );
        }
    }

    // ---------------------------------------------------------------- (2) unique-tag placement
    let t0 = 1_000_000 + (ctx.seed % 1000) * 100_000;
    if t0 + n_field as u64 >= fx.modulus {
        machinery_error("tag range exceeds the modulus");
    }
    let (tagged, by_tag, tag_of) = tag_tree(honest, &all, t0);
    let pl: Placement =
        fx.placement(&tagged).unwrap_or_else(|e| machinery_error(&format!("{cfg}: placement observation failed: {e}")));
    let repr = Repr { modulus: fx.modulus, ser_one: pl.ser_one };
    if pl.packed.public.len() != packed_h.public.len() || pl.packed.private.len() != packed_h.private.len() {
        machinery_error(&format!("{cfg}: packing the tagged object gives other lengths than packing the honest one"));
    }
    let mut placement_notes: Vec<String> = vec![];
    for (name, r) in [("set_public_inputs", &pl.set_public), ("set_private_inputs", &pl.set_private)] {
        if let Err(e) = r {
            if lengths_ok {
                // right lengths, yet the loader refuses distinct values: two input positions share
                // one witness slot, i.e. two different proof elements are forced onto one input
                let short: String = e.chars().take(160).collect();
                sink.violation(
                    format!("{cfg}|{name}|distinct_elements_share_an_input"),
                    format!("{cfg}: {name} refuses the tagged vectors (all elements distinct): {short}"),
                    json!({"config": cfg, "clause": "placement", "error": short}),
                );
            }
            placement_notes.push(format!("{name}: {e}"));
        }
    }

    let mut hits: Vec<u32> = vec![0; all.len()];
    let mut claimed_widx: HashSet<u32> = HashSet::new();
    let mut pairs_ok = 0u64;
    let mut pair_classes: BTreeMap<String, u64> = BTreeMap::new();
    let mut placement_sample: Option<Value> = None;
    for p in &pl.pairs {
        let path = parse_path(&p.path);
        let class = class_string(&path);
        *pair_classes.entry(class.clone()).or_insert(0) += 1;
        if let Some(w) = p.widx {
            claimed_widx.insert(w);
        }
        // the proof element the field name designates
        let node = tree_get(&tagged, &path);
        let (expected, leaf_ids): (Option<Vec<u64>>, Vec<usize>) = match (p.lift, node) {
            (Lift::Base, Some(Value::Number(n))) => {
                let mut e = vec![0u64; d];
                e[0] = n.as_u64().unwrap_or(0);
                (Some(e), leaf_by_path.get(&p.path).copied().into_iter().collect())
            }
            (Lift::Ext, Some(Value::Object(m))) => match m.get("value").and_then(|v| v.as_array()) {
                Some(a) if a.len() == d => (
                    Some(a.iter().map(|x| x.as_u64().unwrap_or(0)).collect()),
                    (0..d).filter_map(|c| leaf_by_path.get(&format!("{}/value/{c}", p.path)).copied()).collect(),
                ),
                _ => (None, vec![]),
            },
            _ => (None, vec![]),
        };
        for &i in &leaf_ids {
            hits[i] += 1;
        }
        let replay = |clause: &str| json!({"config": cfg, "clause": clause, "path": p.path, "class": class});
        let Some(expected) = expected else {
            sink.violation(
                format!("{cfg}|{class}|target_without_proof_element"),
                format!("{cfg}: an allocated target (expr {}) stands for {} but the proof has no such element", p.expr, p.path),
                replay("target_without_proof_element"),
            );
            continue;
        };
        match &p.value {
            None => sink.violation(
                format!("{cfg}|{class}|target_never_fed"),
                format!(
                    "{cfg}: target for {} (expr {}, slot {:?}) holds no value after set_public_inputs + set_private_inputs",
                    p.path, p.expr, p.widx
                ),
                replay("target_never_fed"),
            ),
            Some(got) if *got != expected => sink.violation(
                format!("{cfg}|{class}|misplaced"),
                format!(
                    "{cfg}: target for {} (expr {}, slot {:?}) received {} instead of its own element {}",
                    p.path,
                    p.expr,
                    p.widx,
                    describe(got, &by_tag, &all),
                    describe(&expected, &by_tag, &all)
                ),
                replay("misplaced"),
            ),
            Some(got) => {
                pairs_ok += 1;
                if placement_sample.is_none() && p.lift == Lift::Ext {
                    placement_sample = Some(json!({"config": cfg, "clause": "placement", "target_expr": p.expr, "witness_slot": p.widx,
                        "stands_for": p.path, "tags_expected": expected, "slot_holds": got}));
                }
            }
        }
    }
    totals.pairs_checked.fetch_add(pl.pairs.len() as u64, Ordering::Relaxed);
    if let Some((i, _)) = hits.iter().enumerate().find(|(_, h)| **h > 1) {
        machinery_error(&format!("{cfg}: the walk pairs leaf {} with {} targets", path_string(&all[i].path), hits[i]));
    }

    // input positions nobody claims. The only target structure out of reach is the commitment of
    // the batch common data (`pub(crate)`): it is paired BY ELIMINATION — the unclaimed public
    // positions, in order, must carry the words of /common/preprocessed/commitment in order.
    let unclaimed = |rows: &[u32]| -> Vec<usize> { (0..rows.len()).filter(|&i| !claimed_widx.contains(&rows[i])).collect() };
    let unclaimed_pub = unclaimed(&pl.public_rows);
    let unclaimed_priv = unclaimed(&pl.private_rows);
    let common_leaves: Vec<usize> = if pl.unreachable.is_empty() {
        vec![]
    } else {
        all.iter()
            .enumerate()
            .filter(|(_, l)| l.kind == LeafKind::Field && path_string(&l.path).starts_with("/common/preprocessed/commitment/cap/"))
            .map(|(i, _)| i)
            .collect()
    };
    let mut by_elimination = 0u64;
    // An unclaimed position that carries the tag of a proof element OTHER than the common-data
    // commitment words is an orphan: the packing side put a real element on an input that no
    // target of the verifier structures stands for (so the circuit cannot be reading it as that
    // element). Orphans are violations; what remains must be exactly the common-data words.
    let common_set: std::collections::HashSet<usize> = common_leaves.iter().copied().collect();
    let orphan_leaf = |vals: &[u64]| -> Option<usize> {
        vals.iter().filter_map(|v| by_tag.get(v).copied()).find(|li| !common_set.contains(li))
    };
    let mut orphan_positions: Vec<(bool, usize, usize)> = vec![];
    for &i in &unclaimed_pub {
        if let Some(li) = orphan_leaf(&pl.packed.public[i]) {
            orphan_positions.push((true, i, li));
        }
    }
    for &i in &unclaimed_priv {
        if let Some(li) = orphan_leaf(&pl.packed.private[i]) {
            orphan_positions.push((false, i, li));
        }
    }
    for &(is_pub, pos, li) in &orphan_positions {
        let class = all[li].class.clone();
        sink.violation(
            format!("{cfg}|{class}|orphan_input"),
            format!(
                "{cfg}: {} input position {pos} receives {} but no target of the verifier's structures is allocated there: the element is packed onto an input the circuit does not read as that element",
                if is_pub { "public" } else { "private" },
                path_string(&all[li].path)
            ),
            json!({"config": cfg, "clause": "orphan_input", "path": path_string(&all[li].path), "class": class}),
        );
    }
    let unclaimed_pub: Vec<usize> = unclaimed_pub.into_iter().filter(|i| !orphan_positions.iter().any(|(p, q, _)| *p && q == i)).collect();
    let unclaimed_priv: Vec<usize> = unclaimed_priv.into_iter().filter(|i| !orphan_positions.iter().any(|(p, q, _)| !*p && q == i)).collect();
    if lengths_ok {
        if !unclaimed_priv.is_empty() || unclaimed_pub.len() != common_leaves.len() {
            machinery_error(&format!(
                "{cfg}: the target walk is incomplete: {} public / {} private input positions are claimed by no walked target \
                 (expected {} for the unreachable common-data commitment); first public {:?}, first private {:?}",
                unclaimed_pub.len(),
                unclaimed_priv.len(),
                common_leaves.len(),
                unclaimed_pub.first().map(|&i| describe(&pl.packed.public[i], &by_tag, &all)),
                unclaimed_priv.first().map(|&i| describe(&pl.packed.private[i], &by_tag, &all)),
            ));
        }
        for (&pos, &li) in unclaimed_pub.iter().zip(common_leaves.iter()) {
            let mut expected = vec![0u64; d];
            expected[0] = tag_of[li];
            hits[li] += 1;
            let class = all[li].class.clone();
            if pl.packed.public[pos] != expected {
                sink.violation(
                    format!("{cfg}|{class}|misplaced"),
                    format!(
                        "{cfg}: public input position {pos} (paired by elimination with {}) received {}",
                        path_string(&all[li].path),
                        describe(&pl.packed.public[pos], &by_tag, &all)
                    ),
                    json!({"config": cfg, "clause": "misplaced", "path": path_string(&all[li].path), "class": class, "by_elimination": true}),
                );
            } else {
                by_elimination += 1;
            }
        }
    }
    // positions that share a witness slot
    let mut slot_count: HashMap<u32, u32> = HashMap::new();
    for w in pl.public_rows.iter().chain(pl.private_rows.iter()) {
        *slot_count.entry(*w).or_insert(0) += 1;
    }
    let aliased_positions = slot_count.values().filter(|c| **c > 1).count();

    // position/coefficient -> proof leaf, through the repository's own packing of the tagged object
    let mut sites: Vec<Site> = vec![];
    let mut unmapped: Vec<(usize, usize, usize)> = vec![]; // (vec, pos, coeff): carries no proof leaf
    let mut tag_seen: HashSet<u64> = HashSet::new();
    for (vi, vecs) in [&pl.packed.public, &pl.packed.private].into_iter().enumerate() {
        for (pos, coeffs) in vecs.iter().enumerate() {
            for (c, v) in coeffs.iter().enumerate() {
                match by_tag.get(v) {
                    Some(&leaf) => {
                        tag_seen.insert(*v);
                        sites.push(Site::Packed { vec: vi, pos, coeff: c, leaf });
                    }
                    None => unmapped.push((vi, pos, c)),
                }
            }
        }
    }
    // field leaves that are not circuit inputs at all (their tag reaches no position)
    let mut not_inputs: BTreeMap<String, u64> = BTreeMap::new();
    for (i, l) in all.iter().enumerate() {
        if l.kind == LeafKind::Field && hits[i] == 0 {
            let t = tag_of[i];
            if tag_seen.contains(&t) {
                // reaches an input position, but no walked target stands for it: the target that
                // received it has been reported as `misplaced` above
                continue;
            }
            *not_inputs.entry(l.class.clone()).or_insert(0) += 1;
            sites.push(Site::NotAnInput { leaf: i });
        }
    }
    let unmapped_nonzero = unmapped
        .iter()
        .filter(|(vi, pos, c)| [&pl.packed.public, &pl.packed.private][*vi][*pos][*c] != 0)
        .count();

    // ---------------------------------------------------------------- (3) every input matters
    let native0 = fx.native_verify(honest);
    if !native0.accepts() {
        machinery_error(&format!("{cfg}: the honest object is not accepted natively ({})", native0.tag()));
    }
    let circuit0 = fx.circuit_verify_packed(honest, &packed_h);
    verdicts.add(&format!("honest:{}|{}", native0.tag(), circuit0.tag()));
    let classes: Mutex<BTreeMap<String, ClassRow>> = Mutex::new(BTreeMap::new());
    let nonbase: Mutex<BTreeMap<String, [u64; 2]>> = Mutex::new(BTreeMap::new());
    let (mut phase3, mut phase3_note) = (true, String::new());
    if !circuit0.accepts() {
        phase3 = false;
        phase3_note = format!(
            "skipped: the circuit does not accept the honest packed data ({}) — no accepted baseline; native-accept/circuit-reject \
             on the honest object is C01's subject (known findings F1/F2 there)",
            circuit0.tag()
        );
    }
    let local_samples: Mutex<Vec<Value>> = Mutex::new(vec![]);
    let both_accept_list: Mutex<Vec<Value>> = Mutex::new(vec![]);
    let (ev, nt, sk) = (AtomicU64::new(0), AtomicU64::new(0), AtomicU64::new(0));
    if phase3 {
        let cases: Vec<(&Site, Pert)> = sites.iter().flat_map(|s| kinds.iter().map(move |k| (s, *k))).collect();
        totals.planned.fetch_add(cases.len() as u64, Ordering::Relaxed);
        cases.par_iter().for_each(|(site, kind)| {
            if ctx.out_of_time() {
                sk.fetch_add(1, Ordering::Relaxed);
                return;
            }
            // (leaf, new serialised value of the leaf, circuit verdict, description of the site)
            let (leaf_i, new_ser, circuit_v, where_) = match site {
                Site::Packed { vec, pos, coeff, leaf } => {
                    let mut pk = packed_h.clone();
                    let neighbour = {
                        let v = if *vec == 0 { &packed_h.public } else { &packed_h.private };
                        v.get(pos + 1).map(|n| n[*coeff])
                    };
                    let cell = if *vec == 0 { &mut pk.public[*pos][*coeff] } else { &mut pk.private[*pos][*coeff] };
                    if repr.canon_to_ser(*cell) != all[*leaf].value {
                        machinery_error(&format!(
                            "{cfg}: {} position {pos} coefficient {coeff} holds {} (serialised) in the honest packing but its leaf {} is {}",
                            vec_name(*vec),
                            repr.canon_to_ser(*cell),
                            path_string(&all[*leaf].path),
                            all[*leaf].value
                        ));
                    }
                    let new = match kind {
                        Pert::PlusOne => plus_one(*cell, fx.modulus),
                        Pert::Zero if *cell != 0 => 0,
                        Pert::Neighbour if neighbour.is_some_and(|n| n != *cell) => neighbour.unwrap(),
                        _ => return, // perturbation does not change the value
                    };
                    *cell = new;
                    (
                        *leaf,
                        repr.canon_to_ser(new),
                        fx.circuit_verify_packed(honest, &pk),
                        json!({"vector": vec_name(*vec), "position": pos, "coefficient": coeff, "perturbation": kind.tag()}),
                    )
                }
                Site::NotAnInput { leaf } => {
                    let l = &all[*leaf];
                    let new_ser = match kind {
                        Pert::PlusOne => repr.ser_plus_one(l.value),
                        Pert::Zero if l.value != 0 => 0,
                        Pert::Neighbour => match vpe4::faulted_value(l, *leaf, &all, vpe4::ValueFault::Neighbour, fx.modulus) {
                            Some(v) => v,
                            None => return,
                        },
                        _ => return,
                    };
                    let t = with_leaf(honest, &l.path, new_ser);
                    (
                        *leaf,
                        new_ser,
                        fx.circuit_verify_packed(&t, &packed_h),
                        json!({"not_a_circuit_input": "MMCS private datum, perturbed in the object", "perturbation": kind.tag()}),
                    )
                }
            };
            let l = &all[leaf_i];
            let tree = with_leaf(honest, &l.path, new_ser);
            let native_v = fx.native_verify(&tree);
            ev.fetch_add(1, Ordering::Relaxed);
            verdicts.add(&format!("{}|{}", native_v.tag(), circuit_v.tag()));
            if native_v.rejects() {
                nt.fetch_add(1, Ordering::Relaxed);
            }
            let case = || {
                json!({"config": cfg, "clause": "every_input_matters", "site": where_, "leaf": path_string(&l.path), "class": l.class,
                       "old_value": l.value, "new_value": new_ser, "native": native_v.to_json(), "circuit": circuit_v.to_json()})
            };
            let mut g = classes.lock().unwrap();
            let row = g.entry(l.class.clone()).or_default();
            row.evals += 1;
            if native_v.rejects() {
                row.native_reject += 1;
            }
            match (native_v.accepts(), circuit_v.accepts()) {
                (true, true) => {
                    row.both_accept += 1;
                    drop(g);
                    let mut b = both_accept_list.lock().unwrap();
                    if b.len() < 10 {
                        b.push(case());
                    }
                }
                (false, true) => {
                    row.unconstrained += 1;
                    drop(g);
                    let clause = match site {
                        Site::Packed { .. } => "unconstrained_input",
                        Site::NotAnInput { .. } => "unconstrained_mmcs_datum",
                    };
                    sink.violation(
                        format!("{cfg}|{}|{clause}", l.class),
                        format!(
                            "{cfg}: {} {}→{} ({}): native verifier {} but the circuit accepts the perturbed input",
                            path_string(&l.path),
                            l.value,
                            new_ser,
                            where_,
                            native_v.tag()
                        ),
                        case(),
                    );
                }
                (true, false) => {
                    // the circuit constrains something the native verifier ignores: not this
                    // property's clause (C01 judges native-accept/circuit-reject); counted
                    row.circuit_stricter += 1;
                }
                (false, false) => {
                    drop(g);
                    let mut s = local_samples.lock().unwrap();
                    if s.len() < 2 {
                        s.push(case());
                    }
                }
            }
        });
        // listed, not judged: the first (thorough: every) extension coefficient of positions whose
        // extension part carries no proof leaf (lifted base-field values) — does the circuit notice
        // a non-base value?
        let probes: Vec<&(usize, usize, usize)> = unmapped.iter().filter(|(_, _, c)| *c == 1 || kinds.len() > 1).collect();
        probes.par_iter().for_each(|(vi, pos, c)| {
            if ctx.out_of_time() || (ctx.quick() && ctx.used() > 0.8) {
                return;
            }
            let mut pk = packed_h.clone();
            let cell = if *vi == 0 { &mut pk.public[*pos][*c] } else { &mut pk.private[*pos][*c] };
            *cell = plus_one(*cell, fx.modulus);
            let v = fx.circuit_verify_packed(honest, &pk);
            let t0v = [&pl.packed.public, &pl.packed.private][*vi][*pos][0];
            let class = by_tag.get(&t0v).map(|&i| all[i].class.clone()).unwrap_or_else(|| "?".into());
            let mut g = nonbase.lock().unwrap();
            let e = g.entry(format!("{}:{}", vec_name(*vi), class)).or_insert([0, 0]);
            e[if v.accepts() { 0 } else { 1 }] += 1;
        });
    }

    let evn = ev.load(Ordering::Relaxed);
    totals.evaluations.fetch_add(evn, Ordering::Relaxed);
    totals.nontrivial.fetch_add(nt.load(Ordering::Relaxed), Ordering::Relaxed);
    totals.skipped.fetch_add(sk.load(Ordering::Relaxed), Ordering::Relaxed);
    {
        let mut s = samples.lock().unwrap();
        if let Some(p) = placement_sample {
            if s.len() < 12 {
                s.push(p);
            }
        }
        for x in local_samples.into_inner().unwrap() {
            if s.len() < 12 {
                s.push(x);
            }
        }
    }
    let classes = classes.into_inner().unwrap();
    let class_json: BTreeMap<String, Value> = classes
        .iter()
        .map(|(k, r)| (k.clone(), json!([r.evals, r.native_reject, r.both_accept, r.unconstrained, r.circuit_stricter])))
        .collect();
    let nonbase_json: BTreeMap<String, Value> =
        nonbase.into_inner().unwrap().into_iter().map(|(k, v)| (k, json!({"circuit_accepts": v[0], "circuit_rejects": v[1]}))).collect();
    let n_packed_sites = sites.iter().filter(|s| matches!(s, Site::Packed { .. })).count();
    eprintln!(
        "[C14] t={:.1}s {} lens pub={}/{} priv={}/{} targets={} ok={} (+{} by elimination) sites={} judged={} native_reject={} {:.2}s{}",
        ctx.elapsed_s(),
        cfg,
        packed_h.public.len(),
        pub_len,
        packed_h.private.len(),
        priv_len,
        pl.pairs.len(),
        pairs_ok,
        by_elimination,
        sites.len(),
        evn,
        nt.load(Ordering::Relaxed),
        t_start.elapsed().as_secs_f64(),
        if phase3 { "" } else { " [(3) skipped: no accepted baseline]" }
    );
    json!({
        "config": cfg, "desc": fx.desc.clone(),
        "leaves": all.len(), "field_leaves": n_field,
        "lengths": {"public": [packed_h.public.len(), pub_len], "private": [packed_h.private.len(), priv_len], "ok": lengths_ok},
        "placement": {
            "targets_walked": pl.pairs.len(), "targets_holding_their_own_tags": pairs_ok,
            "paired_by_elimination(common-data commitment words)": by_elimination,
            "unreachable_target_structures": pl.unreachable,
            "targets_per_class": pair_classes,
            "input_positions_sharing_a_slot": aliased_positions,
            "field_leaves_that_are_not_circuit_inputs_per_class": not_inputs,
            "coefficients_carrying_no_proof_leaf": unmapped.len(),
            "of_which_nonzero": unmapped_nonzero,
            "notes": placement_notes,
        },
        "every_input_matters": {
            "ran": phase3, "note": phase3_note,
            "sites_packed(position,coefficient)": n_packed_sites,
            "sites_not_circuit_inputs": sites.len() - n_packed_sites,
            "judged": evn, "native_reject": nt.load(Ordering::Relaxed), "skipped_out_of_time": sk.load(Ordering::Relaxed),
            "per_class[evals,native_reject,both_accept,unconstrained,circuit_stricter]": class_json,
            "both_accept_samples": both_accept_list.into_inner().unwrap(),
            "listed_not_judged:extension_coefficients_of_lifted_base_values(+1)": nonbase_json,
        },
        "circuit": fx.stats.to_json(),
        "wall_s": t_start.elapsed().as_secs_f64(),
    })
}

fn release(fx: &Fixture) {
    vpcore::rayon::broadcast(|_| fx.release_thread_engine());
    fx.release_thread_engine();
}

fn make(spec: &FixtureSpec) -> Fixture {
    let fx = (spec.make)().unwrap_or_else(|e| machinery_error(&format!("cannot build fixture {}: {e}", spec.name)));
    if fx.name != spec.name {
        machinery_error(&format!("fixture name {} differs from its spec name {}", fx.name, spec.name));
    }
    fx
}

fn main() {
    let ctx = Ctx::from_args("C14", "fault_enumeration");
    vpcore::install_quiet_panic_hook();
    let report = Report::new();
    let verdicts = Histo::new();
    let totals = Totals {
        evaluations: AtomicU64::new(0),
        nontrivial: AtomicU64::new(0),
        pairs_checked: AtomicU64::new(0),
        planned: AtomicU64::new(0),
        skipped: AtomicU64::new(0),
    };
    let samples: Mutex<Vec<Value>> = Mutex::new(vec![]);

    if let Some(p) = ctx.replay.clone() {
        // re-run the stored configuration; only the stored key may be reported
        let full: Value = vpcore::serde_json::from_str(&std::fs::read_to_string(&p).unwrap_or_default()).unwrap_or(Value::Null);
        let r = vpcore::load_replay(&p);
        let cfg = r["config"].as_str().unwrap_or_else(|| machinery_error("replay: no config"));
        let spec = all_specs().into_iter().find(|s| s.name == cfg).unwrap_or_else(|| machinery_error(&format!("replay: unknown config {cfg}")));
        let fx = make(&spec);
        let sink = Sink { report: &report, only_key: full["key"].as_str().map(|s| s.to_string()) };
        let rec = check_config(&ctx, &fx, &[Pert::PlusOne, Pert::Zero, Pert::Neighbour], &sink, &verdicts, &totals, &samples);
        println!("replayed {cfg} (key filter {:?}): {} violating key(s)", sink.only_key, report.distinct());
        let cov = json!({"evaluations": totals.evaluations.load(Ordering::Relaxed).max(1),
            "distinct_nontrivial": totals.nontrivial.load(Ordering::Relaxed).max(2),
            "rule": "replay: the stored configuration is re-run completely; only the stored key is reported",
            "samples": [r], "per_config": [rec], "replay": true});
        finish(&ctx, cov, vec![], &report)
    }

    let filter = ctx.opt("config").map(|s| s.to_string());
    let mut specs: Vec<FixtureSpec> = all_specs()
        .into_iter()
        .filter(|s| match &filter {
            Some(f) => s.name.contains(f.as_str()),
            None => true,
        })
        .collect();
    // cheap cross-section first, so that a slow machine loses the tail
    specs.sort_by_key(|s| !s.quick);
    if specs.is_empty() {
        machinery_error("no configuration selected");
    }
    let n_specs = specs.len();
    let sink = Sink { report: &report, only_key: None };
    let kinds: Vec<Pert> = if ctx.quick() { vec![Pert::PlusOne] } else { vec![Pert::PlusOne, Pert::Zero, Pert::Neighbour] };
    let mut per_config = vec![];
    let mut exhaustive = true;
    let mut done = 0usize;
    for spec in &specs {
        if ctx.out_of_time() || (ctx.quick() && ctx.used() > 0.9) {
            exhaustive = false;
            break;
        }
        let fx = make(spec);
        per_config.push(check_config(&ctx, &fx, &kinds, &sink, &verdicts, &totals, &samples));
        done += 1;
        release(&fx);
    }
    let skipped = totals.skipped.load(Ordering::Relaxed);
    if skipped > 0 || done < n_specs {
        exhaustive = false;
    }
    let phase3_skipped: Vec<String> = per_config
        .iter()
        .filter(|c| !c["every_input_matters"]["ran"].as_bool().unwrap_or(true))
        .map(|c| c["config"].as_str().unwrap_or("").to_string())
        .collect();
    let cov = json!({
        "evaluations": totals.evaluations.load(Ordering::Relaxed),
        "distinct_nontrivial": totals.nontrivial.load(Ordering::Relaxed),
        "rule": "one evaluation = one (input position, basis coefficient) of the honest packed public/private vectors carrying a proof \
                 leaf — or one proof leaf that is not a circuit input (MMCS sibling digest) — perturbed by +1 and judged by BOTH the \
                 verification circuit (on the perturbed packed vector / object) and the native verifier (on the proof with the same \
                 leaf changed identically); quick: +1; thorough: +1, ←0, ←value of the next position (skipped when that changes nothing); \
                 distinct = distinct (configuration, site, perturbation); non-trivial = the native verifier REJECTS, so the circuit's \
                 rejection shows the input is wired to a check. Placement pairs and length comparisons are counted separately \
                 (targets_checked_for_placement, configurations_done × 2 lengths)",
        "exhaustive": exhaustive,
        "space": "configurations (the whole E4 catalogue + the extra shapes of this check, both tiers) × {2 lengths, every target of \
                  the public target structures, every (position, coefficient) of both packed vectors × perturbations, every non-input \
                  field leaf × perturbations}; perturbations: quick {+1}, thorough {+1, 0, neighbour}. The perturbation clause needs an accepted \
                  baseline: configurations whose honest packed data the circuit rejects are listed under every_input_matters_skipped_for \
                  and get the length and placement clauses only",
        "perturbations": kinds.iter().map(|k| k.tag()).collect::<Vec<_>>(),
        "configurations_planned": n_specs,
        "configurations_done": done,
        "targets_checked_for_placement": totals.pairs_checked.load(Ordering::Relaxed),
        "sites_planned": totals.planned.load(Ordering::Relaxed),
        "sites_skipped_out_of_time": skipped,
        "every_input_matters_skipped_for(no accepted baseline; C01 known findings)": phase3_skipped,
        "verdict_histogram[native|circuit]": verdicts.to_json(),
        "per_config": per_config,
        "samples": samples.into_inner().unwrap(),
    });
    let assumptions = vec![
        "native Plonky3 0.6.3 verifiers are the specification of which proof elements matter (as in C01)".to_string(),
        "the pairing target↔proof element is written by hand from the field names of the public target structures (vpe4::placement); \
         per-instance batch targets and the common-data commitment targets are pub(crate): the former are reached through the public \
         flattened aggregate (same ExprIds), the latter is paired by elimination (the public input positions no walked target claims, in order)"
            .to_string(),
        "single perturbations (+1; thorough also 0 and the neighbouring position's value); the circuit verdict is the runner outcome on the given inputs (satisfiability by other \
         private witnesses is C04/C06 territory)"
            .to_string(),
        "configurations whose honest proof the circuit rejects (C01 known findings F1 uni+hiding, F2 uneven commitment rounds) have no \
         baseline for clause (3); clauses (1) and (2) are still checked there"
            .to_string(),
        "extension coefficients of lifted base-field inputs carry no proof leaf: perturbing them is listed, not judged".to_string(),
    ];
    finish(&ctx, cov, assumptions, &report)
}
