fn main() {
    eprintln!("MACHINERY-ERROR: check c14 not built yet");
    std::process::exit(2);
}
