fn main() {
    eprintln!("MACHINERY-ERROR: check c15 not built yet");
    std::process::exit(2);
}
